"""Alpha-normalisation of PRIVATE names: keeps the harnesses tied to the code under test when private internals are renamed.

The harnesses (probes, state injection, translators) reach into QMI through private names (`_RpcThread._locking_token`,
`QMI_Context._rpc_object_map`, ...).  A consistent rename of such a name is behaviour-preserving, but it would cut the tie
(AttributeError in the harness).  This module compares the tree under test with the source the harnesses were written
against (`/verif/anchors/qmi`, refreshed by tools/pin_anchors.sh) and, when a private name the harnesses use has
disappeared, looks for the name that replaced it:

  * per file, the units (functions, class bodies, module body) of the pinned and of the current source are aligned when
    their ASTs are IDENTICAL after masking the private names that exist on one side only (docstrings ignored);
  * walking the aligned units in parallel yields pairs (old name, new name); the pairs must form one injective function
    over all files, otherwise the names involved are dropped (fail closed: the harness then reports the broken tie);
  * the current source is then loaded with the NEW names replaced by the OLD ones at token level (same lines, same
    structure): an alpha-renaming of the code under test.  It is applied to a file only if the old name does not occur
    in the current text of that file (no capture).

Everything else of the current source is executed as it is; the renaming is reported in the evidence
(`alpha_renaming`).  Nothing is renamed when the harnesses do not use the vanished name.
"""
import ast
import importlib.machinery
import io
import linecache
import os
import re
import sys
import tokenize

VERIF = os.path.dirname(os.path.dirname(os.path.abspath(__file__)))
PINNED = os.path.join(VERIF, "anchors")
PRIV = re.compile(r"^_[A-Za-z0-9][A-Za-z0-9_]*$")

_state = {"map": None, "repo": None, "files": {}, "report": {}}


def _is_priv(n):
    return isinstance(n, str) and PRIV.match(n) is not None and not n.startswith("__")


_ID_FIELDS = ((ast.Attribute, "attr"), (ast.Name, "id"), (ast.FunctionDef, "name"), (ast.AsyncFunctionDef, "name"),
              (ast.ClassDef, "name"), (ast.arg, "arg"), (ast.keyword, "arg"), (ast.ExceptHandler, "name"))


def _idents(node):
    out = []
    for n in ast.walk(node):
        for cls, f in _ID_FIELDS:
            if isinstance(n, cls):
                v = getattr(n, f)
                if isinstance(v, str):
                    out.append(v)
        if isinstance(n, (ast.Global, ast.Nonlocal)):
            out.extend(n.names)
    return out


def harness_names():
    """private names the harness code mentions (as attribute, bare name or inside a string)"""
    names = set()
    hdir = os.path.join(VERIF, "harness")
    for root, _, files in os.walk(hdir):
        for fn in files:
            if fn.endswith(".py") and fn != "alpha.py":
                try:
                    txt = open(os.path.join(root, fn), encoding="utf-8").read()
                except OSError:
                    continue
                names.update(m for m in re.findall(r"(?<![A-Za-z0-9_])(_[A-Za-z0-9][A-Za-z0-9_]*)", txt) if _is_priv(m))
    return names


def _strip_doc(body):
    if body and isinstance(body[0], ast.Expr) and isinstance(getattr(body[0], "value", None), ast.Constant) \
            and isinstance(body[0].value.value, str):
        return body[1:]
    return body


def _units(tree):
    """-> list of (path, node) where node is a function, or a pseudo Module holding the non-def statements of a class /
    of the module"""
    out = []

    def rec(body, path):
        rest = []
        for st in _strip_doc(body):
            if isinstance(st, (ast.FunctionDef, ast.AsyncFunctionDef)):
                out.append((path + (st.name,), st))
            elif isinstance(st, ast.ClassDef):
                rec(st.body, path + (st.name,))
                hdr = ast.ClassDef(name=st.name, bases=st.bases, keywords=st.keywords, body=[ast.Pass()],
                                   decorator_list=st.decorator_list)
                rest.append(hdr)
            else:
                rest.append(st)
        out.append((path + ("<body>",), ast.Module(body=rest, type_ignores=[])))
    rec(tree.body, ())
    return out


def _locals_of(node):
    """names bound locally in a function unit (parameters, assignment / loop / with / except / comprehension targets),
    minus those declared global or nonlocal; empty for class and module bodies"""
    if not isinstance(node, (ast.FunctionDef, ast.AsyncFunctionDef)):
        return frozenset()
    bound, outer = set(), set()
    for n in ast.walk(node):
        if isinstance(n, ast.arg):
            bound.add(n.arg)
        elif isinstance(n, ast.Name) and isinstance(n.ctx, (ast.Store, ast.Del)):
            bound.add(n.id)
        elif isinstance(n, ast.ExceptHandler) and n.name:
            bound.add(n.name)
        elif isinstance(n, (ast.Global, ast.Nonlocal)):
            outer.update(n.names)
        elif isinstance(n, (ast.FunctionDef, ast.AsyncFunctionDef)) and n is not node:
            bound.add(n.name)
    return frozenset(bound - outer - {"self", "cls"})


class _Mask(ast.NodeTransformer):
    def __init__(self, names, local=frozenset()):
        self.names = names
        self.local = local

    def generic_visit(self, node):
        for cls, f in _ID_FIELDS:
            if isinstance(node, cls) and getattr(node, f) in self.names:
                setattr(node, f, "§")
            elif isinstance(node, cls) and cls in (ast.Name, ast.arg, ast.ExceptHandler) and getattr(node, f) in self.local:
                setattr(node, f, "¤")      # a local variable: its name is immaterial
        if isinstance(node, ast.keyword) and node.arg is not None:
            pass                            # keyword names are part of a callee's interface: never masked as locals
        if isinstance(node, (ast.Global, ast.Nonlocal)):
            node.names = ["§" if n in self.names else n for n in node.names]
        if isinstance(node, (ast.FunctionDef, ast.AsyncFunctionDef, ast.ClassDef, ast.Module)):
            node.body = _strip_doc(node.body) or [ast.Pass()]
        return super().generic_visit(node)


def _masked_dump(node, names):
    import copy
    n = _Mask(names, _locals_of(node)).visit(copy.deepcopy(node))
    return ast.dump(n, annotate_fields=False, include_attributes=False)


def _pairs(old, new, masked):
    """identifier pairs of two structurally identical units (walk in parallel); local variables may be renamed, but
    only bijectively (alpha-equivalence), otherwise the units are not aligned (None)"""
    import copy
    lo, ln = _locals_of(old), _locals_of(new)
    a = _Mask(()).visit(copy.deepcopy(old))
    b = _Mask(()).visit(copy.deepcopy(new))
    pa, pb = _idents(a), _idents(b)
    if len(pa) != len(pb):
        return None
    f, g, out = {}, {}, []
    for x, y in zip(pa, pb):
        if x in lo and y in ln and x not in masked and y not in masked:
            if f.setdefault(x, y) != y or g.setdefault(y, x) != x:
                return None
            continue
        if x != y or x in masked:
            out.append((x, y))
    return out


def discover_file(old_src, new_src):
    """-> (pairs {old: new}, conflicts set) for one file"""
    try:
        ot, nt = ast.parse(old_src), ast.parse(new_src)
    except SyntaxError:
        return {}, set()
    op = set(n for n in _idents(ot) if _is_priv(n))
    np_ = set(n for n in _idents(nt) if _is_priv(n))
    gone, came = op - np_, np_ - op
    if not gone or not came:
        return {}, set()
    masked = gone | came
    ou, nu = _units(ot), _units(nt)

    def key(path, node):
        return (tuple("§" if p in masked else p for p in path), _masked_dump(node, masked))
    ok, nk = {}, {}
    for p, n in ou:
        ok.setdefault(key(p, n), []).append(n)
    for p, n in nu:
        nk.setdefault(key(p, n), []).append(n)
    fwd, conflicts = {}, set()
    for k, olds in ok.items():
        news = nk.get(k)
        if not news or len(olds) != 1 or len(news) != 1:
            continue
        prs = _pairs(olds[0], news[0], masked)
        if prs is None:
            continue
        for x, y in prs:
            if x == y:
                continue
            if x not in gone or y not in came:
                conflicts.update((x, y))
                continue
            if fwd.get(x, y) != y:
                conflicts.update((x, y, fwd[x]))
            fwd[x] = y
    inv = {}
    for x, y in fwd.items():
        if y in inv and inv[y] != x:
            conflicts.update((x, y, inv[y]))
        inv[y] = x
    return {x: y for x, y in fwd.items() if x not in conflicts and y not in conflicts}, conflicts


def _py_files(root):
    out = []
    for d, _, files in os.walk(os.path.join(root, "qmi")):
        for fn in files:
            if fn.endswith(".py"):
                out.append(os.path.relpath(os.path.join(d, fn), root))
    return sorted(out)


def _tokens_names(src):
    names = set()
    try:
        for t in tokenize.generate_tokens(io.StringIO(src).readline):
            if t.type == tokenize.NAME:
                names.add(t.string)
    except (tokenize.TokenError, IndentationError):
        pass
    return names


def rename_text(src, new_to_old):
    """replace NAME tokens (same line structure; only the columns shift)"""
    lines = src.splitlines(keepends=True)
    edits = {}
    for t in tokenize.generate_tokens(io.StringIO(src).readline):
        if t.type == tokenize.NAME and t.string in new_to_old and t.start[0] == t.end[0]:
            edits.setdefault(t.start[0], []).append((t.start[1], t.end[1], new_to_old[t.string]))
    for ln, es in edits.items():
        s = lines[ln - 1]
        for a, b, r in sorted(es, reverse=True):
            s = s[:a] + r + s[b:]
        lines[ln - 1] = s
    return "".join(lines)


def compute(repo):
    """-> {relpath: {new: old}} for the files of `repo` to be loaded alpha-renamed; fills _state['report']"""
    report = {"renamed": {}, "dropped": [], "pinned": os.path.isdir(os.path.join(PINNED, "qmi"))}
    _state["report"] = report
    if not report["pinned"]:
        return {}
    used = harness_names()
    glob, conflicts = {}, set()
    texts = {}
    for rel in _py_files(PINNED):
        cur = os.path.join(repo, rel)
        if not os.path.isfile(cur):
            continue
        try:
            o = open(os.path.join(PINNED, rel), encoding="utf-8").read()
            n = open(cur, encoding="utf-8").read()
        except (OSError, UnicodeDecodeError):
            continue
        if o == n:
            continue
        texts[rel] = n
        prs, cf = discover_file(o, n)
        conflicts |= cf
        for x, y in prs.items():
            if glob.get(x, y) != y:
                conflicts.update((x, y, glob[x]))
            glob[x] = y
    inv = {}
    for x, y in glob.items():
        if y in inv and inv[y] != x:
            conflicts.update((x, y, inv[y]))
        inv[y] = x
    new_to_old = {y: x for x, y in glob.items() if x not in conflicts and y not in conflicts and x in used}
    report["dropped"] = sorted(c for c in conflicts)
    if not new_to_old:
        return {}
    out = {}
    for rel in _py_files(repo):
        # apply new->old in a file only where the old name VANISHED from that very file and the new one APPEARED in it
        # (another class elsewhere may use either name for something of its own)
        try:
            src = texts.get(rel) or open(os.path.join(repo, rel), encoding="utf-8").read()
            pinned_src = open(os.path.join(PINNED, rel), encoding="utf-8").read()
        except (OSError, UnicodeDecodeError):
            continue
        if src == pinned_src:
            continue
        names, pnames = _tokens_names(src), _tokens_names(pinned_src)
        m = {n: o for n, o in new_to_old.items() if n in names and n not in pnames and o in pnames and o not in names}
        if m:
            out[rel] = m
            for n, o in m.items():
                report["renamed"].setdefault("%s -> %s" % (n, o), []).append(rel)
    return out


def _harness_files(pid):
    """harness/<pid>.py and the local harness modules it imports (transitively)"""
    hdir = os.path.join(VERIF, "harness")
    local = {}
    for root, _, files in os.walk(hdir):
        for fn in files:
            if fn.endswith(".py"):
                local[fn[:-3]] = os.path.join(root, fn)
    todo, seen = [pid.lower()], set()
    while todo:
        m = todo.pop()
        if m in seen or m not in local or m == "alpha":
            continue
        seen.add(m)
        try:
            txt = open(local[m], encoding="utf-8").read()
        except OSError:
            continue
        for im in re.findall(r"^\s*(?:import|from)\s+([A-Za-z_][A-Za-z0-9_]*)", txt, re.M):
            todo.append(im)
        for im in re.findall(r"^\s*import\s+([A-Za-z_][A-Za-z0-9_, ]*)", txt, re.M):
            todo.extend(x.strip().split(" ")[0] for x in im.split(","))
    return [local[m] for m in sorted(seen)]


def _code_uses(src):
    """private names a harness file uses in CODE: `<expr>._name` attribute accesses and string literals that are exactly
    a private name (getattr / poke / patch targets); comments, docstrings and message texts do not count"""
    out = set()
    try:
        toks = list(tokenize.generate_tokens(io.StringIO(src).readline))
    except (tokenize.TokenError, IndentationError):
        return out
    prev = None
    for t in toks:
        if t.type == tokenize.NAME and prev is not None and prev.type == tokenize.OP and prev.string == "." and _is_priv(t.string):
            out.add(t.string)
        elif t.type == tokenize.STRING:
            try:
                v = ast.literal_eval(t.string)
            except (ValueError, SyntaxError):
                v = None
            if isinstance(v, str) and _is_priv(v):
                out.add(v)
        if t.type not in (tokenize.NL, tokenize.COMMENT, tokenize.NEWLINE, tokenize.INDENT, tokenize.DEDENT):
            prev = t
    return out


def vanished_names(pid, repo):
    """private names the harness of `pid` mentions which exist in the pinned source but (after the alpha-renaming)
    nowhere in the tree under test: the harness cannot be tied to this tree through them"""
    if not os.path.isdir(os.path.join(PINNED, "qmi")):
        return []
    used = set()
    for f in _harness_files(pid):
        used |= _code_uses(open(f, encoding="utf-8").read())
    if not used:
        return []
    pinned, cur = set(), set()
    for rel in _py_files(PINNED):
        try:
            o = open(os.path.join(PINNED, rel), encoding="utf-8").read()
        except (OSError, UnicodeDecodeError):
            continue
        path = os.path.join(repo, rel)
        try:
            n = source_text(path) if os.path.isfile(path) else ""
        except (OSError, UnicodeDecodeError):
            n = ""
        if o == n:
            continue            # unchanged file: contributes the same names to both sides
        pinned |= _tokens_names(o) & used
        cur |= _tokens_names(n) & used
    gone = pinned - cur
    if not gone:
        return []
    # a name may have moved to a file that did not exist before, or still live in an unchanged file
    for rel in _py_files(repo):
        if not gone:
            break
        try:
            gone -= _tokens_names(source_text(os.path.join(repo, rel)))
        except (OSError, UnicodeDecodeError):
            pass
    return sorted(gone)


class _Loader(importlib.machinery.SourceFileLoader):
    def get_code(self, fullname):
        path = self.get_filename(fullname)
        m = _state["files"].get(os.path.abspath(path))
        if not m:
            return super().get_code(fullname)
        return compile(source_text(path), path, "exec", dont_inherit=True)

    def get_source(self, fullname):
        path = self.get_filename(fullname)
        if _state["files"].get(os.path.abspath(path)):
            return source_text(path)
        return super().get_source(fullname)


def source_text(path):
    """the text of a source file of the tree under test as the harness sees it (alpha-renamed where needed)"""
    with open(path, encoding="utf-8") as f:
        src = f.read()
    m = _state["files"].get(os.path.abspath(path))
    if not m:
        return src
    return rename_text(src, m)


def install(repo):
    """compute the renaming for `repo` and make `import qmi...`, inspect.getsource and source_text use it"""
    if os.environ.get("VERIF_NO_ALPHA") == "1":
        return {}
    repo = os.path.abspath(repo)
    if _state["repo"] == repo:
        return _state["report"]
    _state["repo"] = repo
    try:
        per_file = compute(repo)
    except Exception as e:  # noqa  (never let the convenience layer break a check: fall back to the plain source)
        _state["report"] = {"error": "%s: %s" % (type(e).__name__, e)}
        per_file = {}
    _state["files"] = {os.path.abspath(os.path.join(repo, rel)): m for rel, m in per_file.items()}
    if _state["files"]:
        hook = importlib.machinery.FileFinder.path_hook(
            (importlib.machinery.ExtensionFileLoader, importlib.machinery.EXTENSION_SUFFIXES),
            (_Loader, importlib.machinery.SOURCE_SUFFIXES),
            (importlib.machinery.SourcelessFileLoader, importlib.machinery.BYTECODE_SUFFIXES))
        sys.path_hooks.insert(0, hook)
        sys.path_importer_cache.clear()
        for path in _state["files"]:
            txt = source_text(path)
            linecache.cache[path] = (len(txt), None, txt.splitlines(keepends=True), path)
        ren = _state["report"].get("renamed", {})
        print("NOTE: private names of the tree under test were renamed; the harness loads it alpha-renamed back: %s"
              % ", ".join(sorted(ren)))
    return _state["report"]


if __name__ == "__main__":
    import json
    r = install(sys.argv[1] if len(sys.argv) > 1 else os.environ.get("QMI_REPO", "/repo"))
    print(json.dumps(r, indent=1))
