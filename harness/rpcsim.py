"""RPC pipeline scenarios under dsched, with outside instrumentation (no source hooks).

One server context with one RPC object, one client context connected over the fake network,
caller threads in both contexts, and one fault performed by the main thread.  Wrappers installed on
QMI classes (in the forked child only) record the events that correspond to the labels of the Coq
model theories/C01/Model.v; see `install_probes`.
"""
import logging
import threading as real_threading

import dsched

KINDS = ["ok", "exc", "baseexc", "badres", "badarg"]
KINDS_TIMEOUT = KINDS + ["slow_to", "slow_to", "ok"]
KINDS_LOCKQ = ["ok", "islocked", "ok", "exc", "islocked", "getname", "getsignals"]
KINDS_SELF = ["ok", "selfcall", "ok", "exc", "selfcall"]     # a method calling its own object through a proxy   # lock-control requests travel the same queue as method calls
# values the SENDER can pickle but the RECEIVER cannot unpickle (a class/module missing on the other side): the receiving
# connection gives up (orderly loss of the peer connection caused by the message itself)
KINDS_BADLOAD = ["ok", "badload_arg", "ok", "badload_res", "exc", "ok"]
SELF_PROXY = {}
CUR_TAG = {}                                                # thread ident -> tag of the call being issued        # slow_to: slow method called with a short rpc_timeout
FAULTS = ["none", "remove", "stop_server", "stop_client", "disconnect", "remove_then_stop"]


class _Boom(BaseException):
    pass


class NoPickleSilent:
    """cannot be pickled, and the exception says nothing (str(exc) == '')"""
    def __reduce__(self):
        raise TypeError


class BadLoad:
    """pickle.dumps works; pickle.loads raises (ImportError / AttributeError / UnpicklingError by `how`)"""
    def __init__(self, how=0):
        self.how = how

    def __reduce__(self):
        import importlib
        import pickle
        if self.how % 3 == 0:
            return (importlib.import_module, ("qmi_verif_no_such_module_%d" % self.how,))      # ModuleNotFoundError
        if self.how % 3 == 1:
            return (getattr, (BadLoad, "qmi_verif_no_such_attribute"))                          # AttributeError
        return (_raise_unpickling, ())


def _raise_unpickling():
    import pickle
    raise pickle.UnpicklingError("value cannot be rebuilt on this side")


def make_object_class():
    from qmi.core.rpc import QMI_RpcObject, rpc_method

    class Target(QMI_RpcObject):
        def __init__(self, context, name, execlog, calls=None):
            super().__init__(context, name)
            self._execlog = execlog
            self._calls = calls if calls is not None else {}
            self._depth = 0

        def _enter(self, tag):
            s = dsched.SCHED
            self._depth += 1
            self._execlog.append(("enter", tag, self._depth))
            dsched.FAKE_TIME.sleep(0)          # a scheduling point inside the method body
            self._execlog.append(("exit", tag, self._depth))
            self._depth -= 1

        # the built-in information methods are requests like any other: same queue, one at a time, in order
        @rpc_method
        def get_name(self):
            self._enter("?builtin%d" % len(self._execlog))
            return super().get_name()

        @rpc_method
        def get_signals(self):
            self._enter("?builtin%d" % len(self._execlog))
            return super().get_signals()

        @rpc_method
        def ok(self, tag, payload=None):
            self._enter(tag)
            return ("val", tag)

        @rpc_method
        def selfcall(self, tag, payload=None):
            """a method that calls its OWN object through a proxy (blocking, with a timeout): the nested request must
            wait in the queue like any other - it can only be served after this method has returned"""
            from qmi.core.exceptions import QMI_RpcTimeoutException, QMI_MessageDeliveryException
            # this body is "in progress" from here to its return: the nested request must not execute inside it
            self._depth += 1
            self._execlog.append(("enter", tag, self._depth))
            try:
                return self._selfcall_body(tag)
            finally:
                self._execlog.append(("exit", tag, self._depth))
                self._depth -= 1

        def _selfcall_body(self, tag):
            from qmi.core.exceptions import QMI_RpcTimeoutException, QMI_MessageDeliveryException
            ntag = "self:%s" % tag
            rec = {"caller": "W:" + tag, "kind": "selfnested", "remote": False, "result": None, "done": False, "future": None}
            self._calls[ntag] = rec
            CUR_TAG[real_threading.get_ident()] = ntag
            try:
                p = SELF_PROXY["p"]      # made during set-up: making one here would add a request to $context to the trace
                v = p.ok(ntag, None, rpc_timeout=1.0)
                rec["result"] = ("value", repr(v))
            except QMI_RpcTimeoutException:
                rec["result"] = ("timeout", "")
            except QMI_MessageDeliveryException as e:
                rec["result"] = ("delivery_error", str(e)[:60])
            except BaseException as e:  # noqa
                rec["result"] = ("exception", type(e).__name__)
            rec["done"] = True
            return ("val", tag)

        @rpc_method
        def slow(self, tag, payload=None):
            self._enter(tag)
            dsched.FAKE_TIME.sleep(5.0)
            return ("val", tag)

        @rpc_method
        def exc(self, tag, payload=None):
            self._enter(tag)
            raise ValueError("exc-%s" % (tag,))

        @rpc_method
        def baseexc(self, tag, payload=None):
            self._enter(tag)
            raise _Boom("boom-%s" % (tag,))

        @rpc_method
        def badres(self, tag, payload=None):
            self._enter(tag)
            # cannot be pickled: alternately with an informative and with an EMPTY exception message
            return real_threading.Lock() if len(self._execlog) % 4 < 2 else NoPickleSilent()

        @rpc_method
        def badload(self, tag, payload=None):
            self._enter(tag)
            return BadLoad(len(self._execlog))  # can be pickled here, cannot be unpickled by the caller's context

    return Target


def install_probes(trace):
    """Wrap QMI methods so that model-level events are appended to `trace` (list)."""
    import qmi.core.messaging as M
    import qmi.core.rpc as R
    from qmi.core.exceptions import QMI_MessageDeliveryException

    def key_of(msg):
        # requests: the future's address; replies: the destination (the future).  The server knows the
        # client context under an alias: normalise every non-server context name to "cl".
        if isinstance(msg, M.QMI_RequestMessage):
            a = msg.source_address
        else:
            a = msg.destination_address
        return "%s/%s" % ("srv" if a.context_id == "srv" else "cl", a.object_id)

    def tag_of(msg):
        args = getattr(msg, "method_args", None)
        return args[0] if args else CUR_TAG.get(real_threading.get_ident())

    class _PerThread(dict):
        def __getitem__(self, k):
            return dict.get(self, (k, real_threading.get_ident()), 0)

        def __setitem__(self, k, v):
            dict.__setitem__(self, (k, real_threading.get_ident()), v)
    state = _PerThread()

    def is_rpc_req(m):
        return isinstance(m, (R.QMI_MethodRpcRequestMessage, R.QMI_LockRpcRequestMessage))

    def is_rpc_reply(m):
        return isinstance(m, (R.QMI_MethodRpcReplyMessage, R.QMI_LockRpcReplyMessage, M.QMI_ErrorReplyMessage))

    loop_enq = []      # (loop id, args) appended by FakeLoop.call_soon_threadsafe
    enq_ids = set()    # id(message) of every message handed to a loop

    orig_cst = dsched.FakeLoop.call_soon_threadsafe

    def cst(self, cb, *args):
        r = orig_cst(self, cb, *args)
        loop_enq.append((id(self), args))
        if args:
            enq_ids.add(id(args[0]))
        if args and is_rpc_req(args[0]) and getattr(cb, "__name__", "") == "sm_send":
            trace.append(("Handoff", key_of(args[0]), True))
        return r
    dsched.FakeLoop.call_soon_threadsafe = cst
    dsched.FakeLoop.call_soon = cst

    orig_loop_close = dsched.FakeLoop.close

    def loop_close(self):
        trace.append(("LoopStop", getattr(self, "_ctxname", "?")))
        return orig_loop_close(self)
    dsched.FakeLoop.close = loop_close

    # --- router.send_message: Issue / Reply / Reject ----------------------------------------------
    orig_send = M.MessageRouter.send_message

    def send_message(self, message):
        local = message.destination_address.context_id == self.context_name
        if is_rpc_req(message) and message.source_address.context_id == self.context_name:
            k = key_of(message)
            ph = ["_ph", None]
            trace.append(ph)
            n_enq = len(loop_enq)
            try:
                orig_send(self, message)
            except QMI_MessageDeliveryException:
                trace.append(("Issue", k, False, local, tag_of(message)))
                raise
            if local:
                pass                      # the push probe logged ("Issue", k, True, True) at the push moment
            else:
                ph[1] = ("Issue", k, True, False, tag_of(message))
                if id(message) not in enq_ids:
                    # run_in_thread_arg found the socket thread finished: nothing was enqueued
                    trace.append(("Handoff", k, False))
            return
        if is_rpc_reply(message) and message.source_address.context_id == self.context_name:
            k = key_of(message)
            kind = "Reject" if (isinstance(message, M.QMI_ErrorReplyMessage)) else "Reply"
            if local:
                try:
                    orig_send(self, message)
                finally:
                    trace.append((kind, k, True, True))
                return
            ph = ["_ph", None]
            trace.append(ph)
            n_enq = len(loop_enq)
            try:
                orig_send(self, message)
            except QMI_MessageDeliveryException:
                trace.append((kind, k, False, False))
                raise
            if id(message) in enq_ids:
                ph[1] = (kind, k, True, False)
            else:
                trace.append((kind, k, False, False))
            return
        return orig_send(self, message)
    M.MessageRouter.send_message = send_message

    # --- push into the object's queue: local Issue (ok) / NetC2S (ok) ------------------------------
    orig_push = R._RpcThread.push_rpc_request

    def push(self, req):
        k = key_of(req)
        if req.source_address.context_id == self._context.name:
            trace.append(("Issue", k, True, True, tag_of(req)))
        else:
            trace.append(("NetC2S", k, True))
        return orig_push(self, req)
    R._RpcThread.push_rpc_request = push

    # --- worker: Pop+Exec ------------------------------------------------------------------------
    for nm in ("_handle_method_rpc_request", "_handle_lock_rpc_request"):
        orig = getattr(R._RpcThread, nm)

        def mk(orig):
            def handle(self, request):
                trace.append(("Exec", key_of(request)))
                return orig(self, request)
            return handle
        setattr(R._RpcThread, nm, mk(orig))

    orig_run = R._RpcThread.run

    def is_target(th):
        o = getattr(th, "_rpc_object", None)
        return o is not None and getattr(o, "_name", None) == "obj"

    def run(self):
        try:
            return orig_run(self)
        finally:
            if is_target(self):
                trace.append(("WorkerExit",))
    R._RpcThread.run = run

    from qmi.core.thread import QMI_Thread
    orig_shutdown = QMI_Thread.shutdown

    def shutdown(self):
        if isinstance(self, R._RpcThread):
            if is_target(self):
                trace.append(("StopFlag",))
                trace.append(("Shutdown",))
        elif isinstance(self, M._EventDrivenThread):
            trace.append(("RouterOff", getattr(self, "_ctxname", "?")))
        return orig_shutdown(self)
    QMI_Thread.shutdown = shutdown

    # --- futures ------------------------------------------------------------------------------------
    orig_set = R.QMI_RpcFuture._set_result

    def set_result(self, state, result):
        r = orig_set(self, state, result)
        applied = (self._result is result) and (self._state == state)      # this call's value was stored
        trace.append(("Set", "%s/%s" % (self.address.context_id, self.address.object_id), applied,
                      state.name, type(result).__name__))
        return r
    R.QMI_RpcFuture._set_result = set_result

    # --- unregister of the object's manager ---------------------------------------------------------
    orig_unreg = M.MessageRouter.unregister_message_handler

    def unregister(self, handler):
        r = orig_unreg(self, handler)
        if isinstance(handler, R.RpcObjectManager) and handler.address.object_id == "obj":
            trace.append(("Unregister",))
        return r
    M.MessageRouter.unregister_message_handler = unregister

    # --- socket thread: SockSend / SrvSend -----------------------------------------------------------
    orig_sm_send = M._SocketManager.send_message

    def sm_send(self, message):
        ctx = self._message_router.context_name
        n_wire = len([e for e in trace if e[0] == "Wire"])
        if is_rpc_req(message):
            k = key_of(message)
            ph = ["_ph", None]
            trace.append(ph)
            state["in_sm_send"] += 1
            state["wired"] = 0
            try:
                orig_sm_send(self, message)
            finally:
                state["in_sm_send"] -= 1
            ph[1] = ("SockSend", k, bool(state["wired"]))
            return
        if is_rpc_reply(message):
            k = key_of(message)
            ph = ["_ph", None]
            trace.append(ph)
            state["wired"] = 0
            orig_sm_send(self, message)
            w = state["wired"]
            res = "dropped" if not w else ("sent" if w == type(message).__name__ else "sent_error")
            ph[1] = ("SrvSend", k, res)
            return
        return orig_sm_send(self, message)
    M._SocketManager.send_message = sm_send

    orig_conn_send = M._PeerTcpConnection.send_message

    def conn_send(self, message):
        r = orig_conn_send(self, message)
        trace.append(("Wire", self._message_router.context_name, type(message).__name__))
        state["wired"] = type(message).__name__
        return r
    M._PeerTcpConnection.send_message = conn_send

    # --- socket thread: receive ----------------------------------------------------------------------
    orig_proc = M._PeerTcpConnection._process_message

    def process(self, packed):
        n = len(trace)
        r = orig_proc(self, packed)
        return r
    M._PeerTcpConnection._process_message = process

    orig_deliver = M.MessageRouter.deliver_message

    def deliver(self, message):
        # called by the socket thread for messages from the wire, and by send_message for local ones
        from_wire = message.source_address.context_id != self.context_name and not state["in_sm_send"]
        if from_wire and is_rpc_req(message):
            try:
                return orig_deliver(self, message)
            except QMI_MessageDeliveryException:
                trace.append(("NetC2S", key_of(message), False))
                raise
        if from_wire and is_rpc_reply(message):
            trace.append(("NetS2C", key_of(message)))
            return orig_deliver(self, message)
        return orig_deliver(self, message)
    M.MessageRouter.deliver_message = deliver

    orig_rpc = M._SocketManager.remove_peer_connection

    def remove_peer_connection(self, conn):
        r = orig_rpc(self, conn)
        return r
    orig_pop = None

    class _MapProbe(dict):
        """_peer_context_map stand-in: logs when the peer entry disappears (pop / clear)."""
        def __init__(self, ctxname):
            super().__init__()
            self._ctxname = ctxname

        def pop(self, k, *a):
            had = k in self
            r = dict.pop(self, k, *a)
            if had:
                trace.append(("PeerGone", self._ctxname))
            return r

        def clear(self):
            had = len(self) > 0
            dict.clear(self)
            if had:
                trace.append(("PeerGone", self._ctxname))

    orig_sm_init = M._SocketManager.__init__

    def sm_init(self, event_loop, message_router):
        orig_sm_init(self, event_loop, message_router)
        self._peer_context_map = _MapProbe(message_router.context_name)
    M._SocketManager.__init__ = sm_init

    orig_close = M._PeerTcpConnection.close

    def conn_close(self):
        trace.append(("Close", self._message_router.context_name))
        state["in_sm_send"] += 1      # error replies for pending requests are part of the close, not wire traffic
        try:
            return orig_close(self)
        finally:
            state["in_sm_send"] -= 1
    M._PeerTcpConnection.close = conn_close

    orig_gmh = M.MessageRouter.get_message_handlers

    def gmh(self):
        trace.append(("Sweep", self.context_name))
        return orig_gmh(self)
    M.MessageRouter.get_message_handlers = gmh

    # name the loops after their contexts
    orig_edt_run = M._EventDrivenThread.run

    def edt_run(self):
        return orig_edt_run(self)
    M._EventDrivenThread.run = edt_run


def scenario(s, spec):
    """spec: dict(local=[[kind,...],...], remote=[[kind,...],...], fault=..., nonblocking=bool mask seed)"""
    logging.disable(logging.CRITICAL)
    import qmi.core.messaging as M
    from qmi.core.context import QMI_Context
    from qmi.core.config_defs import CfgQmi, CfgContext
    from qmi.core.exceptions import QMI_MessageDeliveryException, QMI_RpcTimeoutException, QMI_Exception
    trace = []
    obs = {"calls": {}, "trace": trace, "execlog": []}
    s.obs = obs
    s.recording = False
    install_probes(trace)
    Target = make_object_class()
    cfg = CfgQmi(contexts={"srv": CfgContext(tcp_server_port=5001)})
    srv = QMI_Context("srv", cfg)
    srv.start()
    srv._message_router._thread._ctxname = "srv"
    srv._message_router._thread.event_loop._ctxname = "srv"
    lp = srv.make_rpc_object("obj", Target, obs["execlog"], obs["calls"])
    SELF_PROXY["p"] = lp
    cl = None
    if spec["remote"] or spec["fault"] in ("stop_client", "disconnect"):
        cl = QMI_Context("cl", cfg)
        cl.start()
        cl._message_router._thread._ctxname = "cl"
        cl._message_router._thread.event_loop._ctxname = "cl"
        cl.connect_to_peer("srv", "127.0.0.1:5001")
        rp = cl.get_rpc_object_by_name("srv.obj")
    del trace[:]          # events of the set-up phase are not part of the modelled history
    s.obs["trace"] = trace
    threads = []

    def caller(name, proxy, kinds, nb_mask):
        pending = []

        def finish(rec, fut_or_call):
            try:
                val = fut_or_call()
                rec["result"] = ("value", repr(val))
            except QMI_MessageDeliveryException as e:
                rec["result"] = ("delivery_error", str(e)[:60])
            except QMI_RpcTimeoutException:
                rec["result"] = ("timeout", "")
            except BaseException as e:  # noqa
                rec["result"] = ("exception", type(e).__name__)
            rec["done"] = True

        for i, kind in enumerate(kinds):
            tag = "%s.%d" % (name, i)
            rec = {"caller": name, "kind": kind, "remote": proxy is not lp, "result": None, "done": False, "future": None}
            obs["calls"][tag] = rec
            meth = "ok" if kind in ("badarg", "badload_arg", "huge", "big") else ("badload" if kind == "badload_res" else kind)
            payload = ((real_threading.Lock() if i % 2 == 0 else NoPickleSilent()) if kind == "badarg"
                       else (BadLoad(i) if kind == "badload_arg" else None))
            if kind == "huge":
                payload = bytes(1200000)      # a request above 1 MB: many recv() rounds, still one message in its place
            elif kind == "big":
                payload = bytes(5000)         # does not fit one recv() of the connection
            CUR_TAG[real_threading.get_ident()] = tag
            if kind == "islocked":
                finish(rec, proxy.is_locked)
                continue
            args = (tag, payload)
            if kind in ("getname", "getsignals"):
                meth, args = {"getname": "get_name", "getsignals": "get_signals"}[kind], ()
            if kind == "slow_to":
                finish(rec, lambda: proxy.slow(tag, None, rpc_timeout=1.0))
                continue
            if nb_mask[i % len(nb_mask)]:
                try:
                    fut = getattr(proxy.rpc_nonblocking, meth)(*args)
                except BaseException as e:  # noqa
                    finish(rec, lambda e=e: (_ for _ in ()).throw(e))
                    continue
                rec["future"] = "%s/%s" % (fut.address.context_id, fut.address.object_id)
                if spec.get("burst"):
                    pending.append((rec, fut))
                else:
                    dsched.FAKE_TIME.sleep(0)
                    finish(rec, fut.wait)
            else:
                finish(rec, lambda: getattr(proxy, meth)(*args))
        for rec, fut in pending:
            finish(rec, fut.wait)

    if spec.get("lines"):
        # every source line of the accept-or-reject / stop / queue hand-over code becomes a scheduling point
        import qmi.core.rpc as R
        dsched.enable_line_yields([R.RpcObjectManager.handle_message, R.RpcObjectManager.stop, R._RpcThread.push_rpc_request,
                                   R._RpcThread._reject_remaining_requests, R.QMI_RpcFuture._set_result])
    s.recording = True
    for i, kinds in enumerate(spec["local"]):
        t = real_threading.Thread(target=caller, args=("L%d" % i, lp, kinds, spec["nb"]), name="L%d" % i)
        threads.append(t)
    for i, kinds in enumerate(spec["remote"]):
        t = real_threading.Thread(target=caller, args=("R%d" % i, rp, kinds, spec["nb"]), name="R%d" % i)
        threads.append(t)
    if spec.get("send_fault") is not None:
        # a transient OS-level failure (ENOBUFS) of the k-th transmission of a method request: outside the model's
        # notion of a connection fault (the connection stays up); judged by the property oracles only
        cnt = {"n": 0}

        def hook(data, k=int(spec["send_fault"])):
            if b"MethodRpcRequestMessage" in data:
                cnt["n"] += 1
                if cnt["n"] == k + 1:
                    return OSError(105, "No buffer space available")
            return None
        dsched.FakeNet.send_hook = hook
    for t in threads:
        t.start()
    f = spec["fault"]
    dsched.FAKE_TIME.sleep(spec.get("fault_delay", 0))
    if f in ("remove", "remove_then_stop"):
        srv.remove_rpc_object(lp)
    if f in ("stop_server", "remove_then_stop"):
        srv.stop()
    elif f == "stop_client":
        cl.stop()
    elif f == "disconnect":
        try:
            cl.disconnect_from_peer("srv")
        except QMI_Exception:
            # the connection is already gone (the peer gave it up over an undecodable message): nothing to disconnect
            obs["disconnect_refused"] = True
    for t in threads:
        t.join()
    obs["joined"] = True
    # a target object that still exists keeps serving later calls
    if f in ("none", "disconnect", "stop_client"):
        rec = {"caller": "main", "kind": "ok", "remote": False, "result": None, "done": False, "future": None}
        obs["calls"]["later"] = rec
        CUR_TAG[real_threading.get_ident()] = "later"
        try:
            obs["later_call"] = repr(lp.ok("later"))
            rec["result"] = ("value", obs["later_call"])
        except BaseException as e:  # noqa
            obs["later_call"] = "EXC:" + type(e).__name__
            rec["result"] = ("exception", type(e).__name__)
        rec["done"] = True
    s.recording = False
    if cl is not None and f != "stop_client":
        cl.stop()
    if f not in ("stop_server", "remove_then_stop"):
        srv.stop()
    obs["trace"] = [list(e[1] if e[0] == "_ph" else e) for e in trace if not (e[0] == "_ph" and e[1] is None)]
    return obs
