"""C12 — context lifecycle: unique names, clean failure, stop reclaims everything.

Two parts: (1) sequential operation+fault histories (scenario / oracle / theories/C12/Model.v), described below;
(2) one operation of a second thread (remove_rpc_object, make_*) racing with stop() in the creating thread
(scenario_conc / oracle_conc / theories/C12/ConcModel.v, trace acceptance through C12.ConcCorr);
(4) populations of running TASKS at remove_rpc_object / stop (scenario_tasks / oracle_tasks / theories/C12/TaskPop.v);
(3) caller threads (blocking call, non-blocking call + wait, lock request; local proxy or a peer context over the fake
network) racing with remove_rpc_object / stop of the object (scenario_call / oracle_call / theories/C12/CallModel.v, trace
acceptance through C12.CallCorr): every call gets exactly one outcome, nothing of the call or the object is left behind.

H3: the real QMI_Context / qmi.start / qmi.stop run in a forked child under the deterministic runtime
(dsched) on the fake network.  One child per history.  A history is a list of operations with the
faults to inject (constructor raises, release_rpc_object raises, stop handler raises - each with the exception CLASS
as part of the fault: RuntimeError, a custom BaseException subclass, SystemExit, KeyboardInterrupt -, TCP bind fails,
UDP bind fails, configured peer unreachable).  After EVERY operation the child records: the exception
class, the managed QMI threads still alive (by class), the keys of the router's handler map and the
context's object map (the private fields the property's anchors name), the log of release_rpc_object
calls, the log of stop-handler runs, the open sockets of the fake network, the singleton variable, the
virtual time the operation took.  The Coq model (theories/C12) is run on the same history and must
produce the same observations step by step; an independent oracle re-states C12 on the observations.
"""
import logging
import os
import sys
from common import poke  # noqa: E402

import dsched
from common import cbool, clist, cnat

THEORY = "C12"
TPORT = 51000          # tcp_server_port of the context under test
SPORT = 52000          # port of the helper peer context "srv"
GPORT = 53000          # port of the peer "ghost": nobody listens there
UDPPORT = 35999
NAMES = ["$context", "o1", "o2", "o3", "o4", "", "a b", "a.b", "$x"]   # index 0 internal; 1..4 valid; 5.. invalid
NVALID = 4
KINDS = ["obj", "inst", "task"]
FAULTS = ["none", "tcp", "udp", "peer"]


class HarnessBase(BaseException):
    """A BaseException that is not an Exception (what `except Exception` does not catch)."""


# the CLASS of an injected fault is part of the fault: True = no fault; False / "exc" = RuntimeError;
# "base" / "sysexit" / "kbint" = BaseException-only classes
FCLASS = {"exc": RuntimeError, "base": HarnessBase, "sysexit": SystemExit, "kbint": KeyboardInterrupt}
BASE_NAMES = ("HarnessBase", "SystemExit", "KeyboardInterrupt")


def fkey(x):
    """canonical fault key: None = no fault"""
    if x is True or x == "ok":
        return None
    if x is False:
        return "exc"
    return x


def fraise(x, what):
    k = fkey(x)
    if k is not None:
        raise FCLASS[k](what)


# ------------------------------------------------------------------------------------------------
# the scenario (runs in the forked child, on its main thread = managed thread 0)
# ------------------------------------------------------------------------------------------------
def scenario(s, mode, ops):
    import warnings
    import qmi
    import qmi.core.context as C
    import qmi.core.context_singleton as CS
    import qmi.core.rpc as R
    import qmi.core.task as T
    import qmi.core.instrument as I
    from qmi.core.config_defs import CfgQmi, CfgContext
    logging.disable(logging.CRITICAL)
    warnings.simplefilter("ignore")
    s.recording = True
    CS.QMI_CONFIG = None
    N = dsched.FakeNet
    st = {"next": 0, "rel": [], "hruns": [], "relfail": {}}
    obs = []
    s.obs = obs

    def fresh():
        st["next"] += 1
        return st["next"] - 1

    # ---- instrumented object classes (the stubs of this harness) --------------------------------
    class Obj(R.QMI_RpcObject):
        def __init__(self, context, name, ctor_ok, rel_ok):
            self.oid = fresh()
            fraise(ctor_ok, "ctor")
            super().__init__(context, name)
            st["relfail"][self.oid] = rel_ok

        @R.rpc_method
        def ping(self):
            return self.oid

        def release_rpc_object(self):
            st["rel"].append(self.oid)
            fraise(st["relfail"].get(self.oid, True), "release")

    class Inst(I.QMI_Instrument):
        def __init__(self, context, name, ctor_ok, rel_ok):
            self.oid = fresh()
            fraise(ctor_ok, "ctor")
            super().__init__(context, name)
            st["relfail"][self.oid] = rel_ok

        @R.rpc_method
        def ping(self):
            return self.oid

        def release_rpc_object(self):
            st["rel"].append(self.oid)
            super().release_rpc_object()
            fraise(st["relfail"].get(self.oid, True), "release")

    class Tsk(T.QMI_Task):
        def __init__(self, task_runner, name, ctor_ok):
            fraise(ctor_ok, "ctor")
            super().__init__(task_runner, name)

        def run(self):
            while not self.stop_requested():
                self.sleep(1.0)

    class Runner(T.QMI_TaskRunner):
        def __init__(self, context, name, task_class, task_args, task_kwargs):
            self.oid = fresh()
            rel_ok = task_kwargs.pop("rel_ok")
            super().__init__(context, name, task_class, task_args, task_kwargs)
            st["relfail"][self.oid] = rel_ok

        @R.rpc_method
        def ping(self):
            return self.oid

        def release_rpc_object(self):
            st["rel"].append(self.oid)
            super().release_rpc_object()
            fraise(st["relfail"].get(self.oid, True), "release")

    # the internal $context object of every context gets an id and a release counter too
    orig_init = C._ContextRpcObject.__init__
    orig_rel = C._ContextRpcObject.release_rpc_object

    def ctx_init(self, *a, **k):
        self.oid = fresh()
        orig_init(self, *a, **k)

    def ctx_rel(self):
        st["rel"].append(self.oid)
        return orig_rel(self)

    C._ContextRpcObject.__init__ = ctx_init
    C._ContextRpcObject.release_rpc_object = ctx_rel

    # ---- helper peer context (its threads / sockets are the baseline) -----------------------------
    srv = C.QMI_Context("srv", CfgQmi(contexts={"srv": CfgContext(host="127.0.0.1", tcp_server_port=SPORT)}))
    srv.start()
    st["next"] = 0
    st["rel"] = []
    base_threads = {}
    for t in s.threads:
        if t.state != dsched.DONE and t.tid != 0:
            k = t.name.split(":")[-1]
            base_threads[k] = base_threads.get(k, 0) + 1
    base_socks = set(id(x) for x in N.by_fd.values())

    cur = {"ctx": None, "name": None}
    proxies = []          # (proxy, context instance)
    cfg_peers = {"srv": CfgContext(host="127.0.0.1", tcp_server_port=SPORT),
                 "ghost": CfgContext(host="127.0.0.1", tcp_server_port=GPORT)}

    def observe():
        th = {}
        for t in s.threads:
            if t.state != dsched.DONE and t.tid != 0:
                k = t.name.split(":")[-1]
                th[k] = th.get(k, 0) + 1
        for k, v in base_threads.items():
            th[k] = th.get(k, 0) - v
        other = sorted(k for k, v in th.items() if v and k not in ("_RpcThread", "_EventDrivenThread", "_TaskThread"))
        ctx = cur["ctx"]
        if ctx is not None:
            hk = list(ctx._message_router._address_to_messagehandler_map.keys())
            om = [(k, v is not None) for k, v in ctx._rpc_object_map.items()]
            act, used = bool(ctx._active), bool(ctx._used)
        else:
            hk, om, act, used = [], [], False, False
        listen = TPORT in N.listeners
        nudp = nconn = 0
        for x in N.by_fd.values():
            if id(x) in base_socks or x._closed:
                continue
            if x.type != 1:
                nudp += 1 if x in N.udp_bound.get(UDPPORT, []) else 0
            elif not x._listening and x._peer is not None and x._addr[1] != SPORT:
                nconn += 1
        return {"rpc": th.get("_RpcThread", 0), "ev": th.get("_EventDrivenThread", 0), "task": th.get("_TaskThread", 0),
                "other_threads": other, "handlers": hk, "objmap": om, "active": act, "used": used,
                "listen": listen, "nudp": nudp, "nconn": nconn, "reg": CS._qmi_context is not None, "has_ctx": ctx is not None,
                "rel": list(st["rel"]), "hruns": list(st["hruns"]), "next": st["next"]}

    def with_fault(fault, fn):
        ports = {"tcp": [TPORT], "udp": [UDPPORT]}.get(fault, [])
        for p in ports:
            N.fail_bind_ports.add(p)
        # the CLASS with which a server socket fails to open is not the property's business (port in use, a port number
        # out of range, an unsupported platform): it varies with the history, deterministically
        N.bind_fault_exc = BIND_FAULTS[len(ops) % len(BIND_FAULTS)][1]
        try:
            return fn()
        finally:
            N.bind_fault_exc = None
            for p in ports:
                N.fail_bind_ports.discard(p)

    def do(op):
        k = op[0]
        ctx = cur["ctx"]
        if k == "new":
            if mode != "direct" or (ctx is not None and ctx._active):
                return ("skip",)
            cur["ctx"] = C.QMI_Context("d", CfgQmi(contexts=dict(cfg_peers, d=CfgContext(tcp_server_port=TPORT))))
            return ("ok",)
        if k == "cstart":
            if mode != "direct" or ctx is None:
                return ("skip",)
            with_fault(op[1], ctx.start)
            return ("ok",)
        if k == "cstop":
            if mode != "direct" or ctx is None:
                return ("skip",)
            ctx.stop()
            return ("ok",)
        if k == "qstart":
            if mode != "single":
                return ("skip",)
            peer = {"none": [], "tcp": [], "udp": [], "peer": ["ghost"], "srv": ["srv"]}[op[1]]
            cc = {"q": {"tcp_server_port": TPORT, "connect_to_peers": peer},
                  "srv": {"host": "127.0.0.1", "tcp_server_port": SPORT},
                  "ghost": {"host": "127.0.0.1", "tcp_server_port": GPORT}}
            try:
                with_fault(op[1], lambda: qmi.start("q", init_logging=False, context_cfg=cc))
            except BaseException:
                # the caller has no reference to a context that qmi.start created and dropped again
                cur["ctx"] = CS._qmi_context
                raise
            cur["ctx"] = CS._qmi_context
            return ("ok",)
        if k == "qstop":
            if mode != "single":
                return ("skip",)
            qmi.stop()
            return ("ok",)
        if k == "make":
            _, n, kind, ctor_ok, rel_ok, extra = op
            name = NAMES[n]
            if mode == "single":
                mk_obj, mk_inst, mk_task = qmi.make_rpc_object, qmi.make_instrument, qmi.make_task
            else:
                if ctx is None:
                    return ("skip",)
                mk_obj, mk_inst, mk_task = ctx.make_rpc_object, ctx.make_instrument, ctx.make_task
            if kind == "obj":
                p = mk_obj(name, Obj, ctor_ok, rel_ok)
            elif kind == "inst":
                p = mk_inst(name, Inst, ctor_ok, rel_ok)
                if extra:
                    p.open()
            else:
                p = mk_task(name, Tsk, ctor_ok, task_runner=Runner, rel_ok=rel_ok)
                if extra:
                    p.start()
            proxies.append(p)
            return ("ok",)
        if k == "call":
            if op[1] >= len(proxies):
                return ("skip",)
            r = proxies[op[1]].ping(rpc_timeout=0.5)
            return ("val", r) if isinstance(r, int) else ("weird", repr(r))
        if ctx is None:
            return ("skip",)
        if k == "remove":
            name = NAMES[op[1]]
            px = [p for p in proxies if p._context is ctx and p._rpc_object_address.object_id == name]
            if px:
                p = px[-1]
            else:
                from qmi.core.messaging import QMI_MessageHandlerAddress as Addr
                import types
                p = types.SimpleNamespace(_rpc_object_address=Addr(ctx.name, name))
            ctx.remove_rpc_object(p)
            return ("ok",)
        if k == "get":
            p = ctx.get_rpc_object_by_name("%s.%s" % (ctx.name, NAMES[op[1]]))
            proxies.append(p)
            return ("ok",)
        if k == "call":
            if op[1] >= len(proxies):
                return ("skip",)
            r = proxies[op[1]].ping(rpc_timeout=0.5)
            return ("val", r) if isinstance(r, int) else ("weird", repr(r))
        if k == "addh":
            hid = st.setdefault("nexth", 0)
            st["nexth"] = hid + 1

            def handler(hid=hid, bad=op[1]):
                st["hruns"].append(hid)
                if bad is not False and bad != "ok":
                    fraise(False if bad is True else bad, "stop handler")
            ctx.register_stop_handler(handler)
            return ("ok",)
        if k == "connect":
            peer, port = ("srv", SPORT) if op[1] else ("ghost", GPORT)
            ctx.connect_to_peer(peer, "127.0.0.1:%d" % port)
            return ("ok",)
        return ("weird", "unknown op")

    idx = [0]
    for i, op in enumerate(ops):
        idx[0] = i
        t0 = s.clock
        try:
            out = do(tuple(op))
        except dsched.Deadlock:
            raise
        except BaseException as e:
            out = ("exc", type(e).__name__)
        o = observe()
        o["out"] = list(out)
        o["dt"] = s.clock - t0
        o["nprox"] = len(proxies)
        obs.append(o)
    return obs


# ------------------------------------------------------------------------------------------------
# concurrent scenario: a second thread removes / makes an object while the owner thread stops the context
# ------------------------------------------------------------------------------------------------
def scenario_conc(s, pop, bop, nhandlers, line_yields):
    """pop: [(name idx, kind, rel_ok, extra)] objects made before the race; bop: ("remove", n) or
    ("make", n, kind, ctor_ok, rel_ok, extra) performed by a second managed thread while the creating thread
    calls ctx.stop().  Returns observations + the sequence of table/thread effects (labels) in global order."""
    import threading as real_threading
    import warnings
    import qmi  # noqa
    import qmi.core.context as C
    import qmi.core.rpc as R
    import qmi.core.task as T
    import qmi.core.instrument as I
    from qmi.core.config_defs import CfgQmi, CfgContext
    logging.disable(logging.CRITICAL)
    warnings.simplefilter("ignore")
    real_threading.excepthook = lambda args: None
    st = {"next": 0, "rel": [], "born": [], "relfail": {}, "names": {}}
    labels = []
    obs = {"a": None, "b": None, "labels": labels}
    s.obs = obs
    s.recording = False

    def fresh():
        st["next"] += 1
        return st["next"] - 1

    def who():
        return "A" if s.current.tid == 0 else "B" if s.current.tid == st.get("btid") else "T%d" % s.current.tid

    def born(o, name, rel_ok):
        st["born"].append(o.oid)
        st["names"][o.oid] = name
        labels.append((who(), "born", name_idx(name)))
        st["relfail"][o.oid] = rel_ok

    def released(o):
        st["rel"].append(o.oid)
        labels.append((who(), "release", name_idx(st["names"].get(o.oid, "?"))))

    class Obj(R.QMI_RpcObject):
        def __init__(self, context, name, ctor_ok, rel_ok):
            self.oid = fresh()
            fraise(ctor_ok, "ctor")
            super().__init__(context, name)
            born(self, name, rel_ok)

        @R.rpc_method
        def ping(self):
            return self.oid

        def release_rpc_object(self):
            released(self)
            fraise(st["relfail"].get(self.oid, True), "release")

    class Inst(I.QMI_Instrument):
        def __init__(self, context, name, ctor_ok, rel_ok):
            self.oid = fresh()
            fraise(ctor_ok, "ctor")
            super().__init__(context, name)
            born(self, name, rel_ok)

        def release_rpc_object(self):
            released(self)
            super().release_rpc_object()
            fraise(st["relfail"].get(self.oid, True), "release")

    class Tsk(T.QMI_Task):
        def __init__(self, task_runner, name, ctor_ok):
            fraise(ctor_ok, "ctor")
            super().__init__(task_runner, name)

        def run(self):
            while not self.stop_requested():
                self.sleep(1.0)

    class Runner(T.QMI_TaskRunner):
        def __init__(self, context, name, task_class, task_args, task_kwargs):
            self.oid = fresh()
            rel_ok = task_kwargs.pop("rel_ok")
            super().__init__(context, name, task_class, task_args, task_kwargs)
            born(self, name, rel_ok)

        def release_rpc_object(self):
            released(self)
            super().release_rpc_object()
            fraise(st["relfail"].get(self.oid, True), "release")

    orig_init = C._ContextRpcObject.__init__
    orig_rel = C._ContextRpcObject.release_rpc_object

    def ctx_init(self, *a, **k):
        self.oid = fresh()
        orig_init(self, *a, **k)
        born(self, "$context", True)

    def ctx_rel(self):
        released(self)
        return orig_rel(self)
    C._ContextRpcObject.__init__ = ctx_init
    C._ContextRpcObject.release_rpc_object = ctx_rel

    ctx = C.QMI_Context("d", CfgQmi(contexts={"d": CfgContext(tcp_server_port=TPORT)}))
    ctx.start()

    def mk(op):
        _, n, kind, ctor_ok, rel_ok, extra = op[:6] if op[0] == "make" else ("make",) + tuple(op)
        name = NAMES[n]
        if kind == "obj":
            return ctx.make_rpc_object(name, Obj, ctor_ok, rel_ok)
        if kind == "inst":
            p = ctx.make_instrument(name, Inst, ctor_ok, rel_ok)
            if extra:
                p.open()
            return p
        p = ctx.make_task(name, Tsk, ctor_ok, task_runner=Runner, rel_ok=rel_ok)
        if extra:
            p.start()
        return p
    proxies = {}
    for (n, kind, rel_ok, extra) in pop:
        proxies[n] = mk(("make", n, kind, True, rel_ok, extra))
    for h in range(nhandlers):
        def handler(h=h):
            labels.append((who(), "handler", h))
            if h % 2 == 0:
                raise RuntimeError("stop handler")
        ctx.register_stop_handler(handler)

    # ---- effect log: the object map, the handler map and manager.stop, observed from outside -------------
    class LogDict(dict):
        def __setitem__(self, k, v):
            dict.__setitem__(self, k, v)
            labels.append((who(), "reserve" if v is None else "publish", name_idx(k)))

        def __delitem__(self, k):
            try:
                dict.__delitem__(self, k)
            except KeyError:
                labels.append((who(), "delname-keyerror", name_idx(k)))
                raise
            labels.append((who(), "delname", name_idx(k)))

        def clear(self):
            labels.append((who(), "clear", 0))
            dict.clear(self)

        def items(self):
            labels.append((who(), "scan", 0))
            return dict.items(self)

        def values(self):
            labels.append((who(), "scan", 0))
            return dict.values(self)
    poke(ctx, '_rpc_object_map', LogDict(ctx._rpc_object_map))
    router = ctx._message_router
    orig_unreg, orig_reg = router.unregister_message_handler, router.register_message_handler

    def unreg(h):
        try:
            orig_unreg(h)
        except BaseException:
            labels.append((who(), "unreg-failed", name_idx(h.address.object_id)))
            raise
        if isinstance(h, R.RpcObjectManager):
            labels.append((who(), "unreg", name_idx(h.address.object_id)))

    def reg(h):
        orig_reg(h)
        if isinstance(h, R.RpcObjectManager):
            labels.append((who(), "reg", name_idx(h.address.object_id)))
    router.unregister_message_handler, router.register_message_handler = unreg, reg
    orig_mstop = R.RpcObjectManager.stop

    def mstop(self):
        orig_mstop(self)
        labels.append((who(), "stopped", name_idx(self.address.object_id)))
    R.RpcObjectManager.stop = mstop

    if line_yields:
        fns = [C.QMI_Context.remove_rpc_object, C.QMI_Context._internal_make_rpc_object, C.QMI_Context.stop]
        if hasattr(C.QMI_Context, "_stop_rpc_objects"):
            fns.append(C.QMI_Context._stop_rpc_objects)
        dsched.enable_line_yields(fns)

    def body():
        try:
            if bop[0] == "remove":
                n = bop[1]
                if n in proxies:
                    p = proxies[n]
                else:
                    from qmi.core.messaging import QMI_MessageHandlerAddress as Addr
                    import types
                    p = types.SimpleNamespace(_rpc_object_address=Addr(ctx.name, NAMES[n]))
                ctx.remove_rpc_object(p)
            else:
                mk(tuple(bop[:5]) + (False,))     # no follow-up RPC call: it would race with stop() by itself
            obs["b"] = ["ok"]
        except dsched.Deadlock:
            raise
        except BaseException as e:
            obs["b"] = ["exc", type(e).__name__]

    nbase = len(st["born"])
    obs["lab0"] = len(labels)
    s.recording = True
    bt = real_threading.Thread(target=body, name="B")
    bt.start()
    st["btid"] = s.by_real[bt].tid
    try:
        ctx.stop()
        obs["a"] = ["ok"]
    except dsched.Deadlock:
        raise
    except BaseException as e:
        obs["a"] = ["exc", type(e).__name__]
    bt.join()
    s.recording = False
    th = {}
    for t in s.threads:
        if t.state != dsched.DONE and t.tid != 0:
            k = t.name.split(":")[-1]
            th[k] = th.get(k, 0) + 1
    obs.update({"threads": th, "rel": list(st["rel"]), "born": list(st["born"]),
                "born_names": {str(k): v for k, v in st["names"].items()},
                "handlers": list(router._address_to_messagehandler_map.keys()),
                "objmap": [(k, v is not None) for k, v in ctx._rpc_object_map.items()],
                "active": bool(ctx._active), "joined": True, "nbase": nbase})
    obs["labels"] = [list(x) for x in labels]
    return obs


ALLOWED_B = {"remove": {"QMI_UnknownNameException"},
             "make": {"QMI_InvalidOperationException", "QMI_DuplicateNameException", "QMI_UsageException"}}


def oracle_conc(pop, bop, res):
    """C12 for a remove/make racing with stop, on the observations.  Returns None or (key, text)."""
    kind = bop[0]
    if res["status"] == "deadlock":
        return "conc:%s:deadlock" % kind, "stop() / the racing %s never return (scheduler reports a deadlock): %s" % (kind, res.get("info"))
    if res["status"] != "ok":
        return "conc:%s:%s" % (kind, res["status"]), "run did not finish (%s): %s" % (res["status"], (res.get("trace") or "")[-400:])
    o = res["obs"]
    a, b = o["a"], o["b"]
    labels = [tuple(x) for x in o["labels"]]
    names = o["born_names"]
    cnt = {}
    for x in o["rel"]:
        cnt[x] = cnt.get(x, 0) + 1
    unrel = [names[str(x)] for x in o["born"] if cnt.get(x, 0) == 0]
    twice = [names[str(x)] for x in o["born"] if cnt.get(x, 0) > 1]
    if a != ["ok"]:
        # the one interleaving of the unchanged tree in which stop() itself fails: the racing make has published its
        # manager in the object map (under the lock) but not yet registered it as message handler
        fl = [l for l in labels if l[0] == "A" and l[1] == "unreg-failed"]
        if kind == "make" and a == ["exc", "QMI_UnknownNameException"] and fl and ("B", "publish", fl[0][2]) in labels and (
                ("B", "reg", fl[0][2]) not in labels or labels.index(("B", "reg", fl[0][2])) > labels.index(fl[0])):
            return ("conc:make:stop-unregisters-before-make-registers",
                    "stop() raised QMI_UnknownNameException from unregister_message_handler for %r, published by a racing make_* but not yet "
                    "registered; stop() aborted: unreleased %r, threads left %r" % (NAMES[fl[0][2]], unrel, o["threads"]))
        return "conc:%s:stop-raised:%s" % (kind, a[1]), "stop() raised %s while a %s ran in another thread" % (a[1], kind)
    if b is None:
        return "conc:%s:b-unfinished" % kind, "the racing operation did not finish"
    if b[0] == "exc":
        ok = set(ALLOWED_B[kind])
        if kind == "make" and fkey(bop[3]) is not None:
            ok |= {FCLASS[fkey(bop[3])].__name__, "QMI_TaskInitException"}   # the injected constructor failure, whatever its class
        if b[1] not in ok:
            return "conc:%s:b-exception:%s" % (kind, b[1]), "the %s racing with stop() failed with %s (not a usage / invalid-operation / unknown-name error); unreleased %r, threads left %r" % (kind, b[1], unrel, o["threads"])
    if unrel:
        return "conc:%s:unreleased" % kind, "after stop() and the racing %s finished, objects %r were never released" % (kind, unrel)
    if twice:
        return "conc:%s:released-twice" % kind, "objects %r were released more than once" % (twice,)
    if o["threads"]:
        return "conc:%s:threads-left" % kind, "QMI threads remain: %r" % (o["threads"],)
    if [h for h in o["handlers"] if h != "$pubsub"] or o["objmap"] or o["active"]:
        return "conc:%s:tables" % kind, "after stop: handlers %r objmap %r active %r" % (o["handlers"], o["objmap"], o["active"])
    return None


BRES = {"QMI_UnknownNameException": "BUnknown", "QMI_InvalidOperationException": "BInvalid",
        "QMI_DuplicateNameException": "BDup", "QMI_TaskInitException": "BCtor"}
LABS = {"unreg": "LUnreg", "unreg-failed": "LUnregFail", "stopped": "LStopped", "reserve": "LReserve", "publish": "LPublish",
        "reg": "LReg", "delname": "LDelname", "delname-keyerror": "LDelnameErr"}


def coq_conc_case(pop, bop, o, reg_atomic):
    """The recorded effects of one run as a path of the interleaving model (ConcModel.v) + the observed outcome."""
    tr, collected, bseen = [], False, False
    for who, kind, k in [tuple(x) for x in o["labels"][o["lab0"]:]]:
        if who == "A":
            if kind == "scan":
                if not collected:
                    tr.append("(true, LCollect)")
                    collected = True
            elif kind in ("unreg", "unreg-failed", "stopped"):
                tr.append("(true, %s %d)" % (LABS[kind], k))
        elif who == "B":
            if kind in LABS:
                tr.append("(false, %s %d)" % (LABS[kind], k))
                bseen = True
        elif kind == "born" and bop[0] == "make" and k == bop[1]:
            tr.append("(false, LBorn %d)" % k)
            bseen = True
    b = o["b"] or ["exc", "?"]
    bres = "BOk" if b[0] == "ok" else BRES.get(b[1], "BOther")
    if b[0] == "exc" and bop[0] == "make" and fkey(bop[3]) is not None and b[1] == FCLASS[fkey(bop[3])].__name__:
        bres = "BCtor"
    if b[0] == "exc" and not bseen and bres in ("BUnknown", "BInvalid", "BDup"):
        if bres == "BDup":
            tr.insert(0, "(false, LRaise BDup)")      # the duplicate check precedes stop's collect region
        else:
            tr.append("(false, LRaise %s)" % bres)
    order = [0] + [p[0] for p in pop]
    return "(%s, %d, %s, %s, %s, %s, (%s, %s, %d, %d))" % (
        cbool(reg_atomic), bop[1], cbool(fkey(bop[3]) is None if bop[0] == "make" else True), clist([str(x) for x in order]),
        cbool(bop[0] == "make"), clist(tr), cbool(o["a"] == ["ok"]), bres, len(o["rel"]), o["threads"].get("_RpcThread", 0))


def gen_conc(rng):
    npop = rng.choice([0, 1, 1, 2, 2, 3])
    names = rng.sample([1, 2, 3, 4], npop)
    pop = [(n, rng.choice(KINDS), True if rng.random() < 0.7 else rng.choice(FKEYS), rng.random() < 0.7) for n in names]
    r = rng.random()
    if r < 0.45 and names:
        bop = ("remove", rng.choice(names))
    elif r < 0.5:
        bop = ("remove", rng.choice([1, 2, 3, 4]))
    else:
        free = [n for n in [1, 2, 3, 4] if n not in names]
        n = rng.choice(free) if (free and rng.random() < 0.85) or not names else rng.choice(names)
        bop = ("make", n, rng.choice(KINDS), True if rng.random() < 0.75 else rng.choice(FKEYS),
               True if rng.random() < 0.7 else rng.choice(FKEYS), rng.random() < 0.7)
    return pop, bop, rng.choice([0, 0, 1, 2])


# ------------------------------------------------------------------------------------------------
# caller scenario: threads calling through a proxy while the owner removes the object / stops the context
# ------------------------------------------------------------------------------------------------
def scenario_call(s, op, callers, remote, line_yields):
    """op: "remove" | "stop" performed by the creating thread on object o1 while `callers` = [(how, method)] run in their own
    managed threads; how: "block" (proxy.m(i)) | "nb" (proxy.rpc_nonblocking.m(i).wait()); method: "ping" | "boom" (raises)
    | "islocked" (a lock request).  remote: the callers use a proxy of a second context connected over the fake network.
    No rpc_timeout anywhere: a call that is never answered shows up as a deadlock.  Returns outcomes + effect labels."""
    import threading as real_threading
    import warnings
    import qmi  # noqa
    import qmi.core.context as C
    import qmi.core.rpc as R
    import qmi.core.thread as TH
    from qmi.core.config_defs import CfgQmi, CfgContext
    logging.disable(logging.CRITICAL)
    warnings.simplefilter("ignore")
    real_threading.excepthook = lambda args: None
    labels = []
    st = {"rel": 0, "exec": [], "ctid": {}, "fut": {}}
    obs = {"outcomes": {}, "labels": labels, "main": None, "phase": "setup"}
    s.obs = obs
    s.recording = False

    class Obj(R.QMI_RpcObject):
        @R.rpc_method
        def ping(self, i):
            st["exec"].append(i)
            labels.append(("W", "exec", i))
            return 100 + i

        @R.rpc_method
        def boom(self, i):
            st["exec"].append(i)
            labels.append(("W", "exec", i))
            raise ValueError("boom")

        def release_rpc_object(self):
            st["rel"] += 1
            labels.append(("W", "release", 0))

    ctx = C.QMI_Context("d", CfgQmi(contexts={"d": CfgContext(host="127.0.0.1", tcp_server_port=TPORT)}))
    ctx.start()
    proxy = ctx.make_rpc_object("o1", Obj)
    cproxy = proxy
    cl = None
    if remote:
        cl = C.QMI_Context("cl", CfgQmi())
        cl.start()
        cl.connect_to_peer("d", "127.0.0.1:%d" % TPORT)
        cproxy = cl.get_rpc_object_by_name("d.o1")
    manager = ctx._rpc_object_map["o1"]
    wthread = manager._rpc_thread

    def role():
        t = s.current.tid
        return "S" if t == 0 else st["ctid"].get(t, "T%d" % t)

    def req_caller(msg):
        a = getattr(msg, "method_args", None)
        if a:
            return a[0]
        return st["fut"].get(msg.source_address.object_id)

    # ---- effects observed from outside: the stop lock's regions, the hand-over, replies, unregister, shutdown, join -----
    class LogLock:
        def __init__(self, inner):
            self.inner = inner

        def __enter__(self):
            self.inner.__enter__()
            return self

        def __exit__(self, *a):
            if role() == "S":
                labels.append(("S", "stopregion", 0))     # `with self._stop_lock: self._running = False` is leaving
            return self.inner.__exit__(*a)

        def acquire(self, *a, **k):
            return self.inner.acquire(*a, **k)

        def release(self):
            return self.inner.release()
    poke(manager, "_stop_lock", LogLock(manager._stop_lock))
    orig_hm = manager.handle_message

    def hm(message):
        i = req_caller(message)
        if i is None and role().startswith("C"):
            i = int(role()[1:])                          # a lock request carries no arguments: local caller thread
        st["fut"][message.source_address.object_id] = i
        try:
            orig_hm(message)
        except BaseException:
            labels.append(("C", "refused", i))
            raise
    manager.handle_message = hm
    orig_push = wthread.push_rpc_request

    def push(req):
        orig_push(req)
        labels.append(("C", "accept", req_caller(req)))
    wthread.push_rpc_request = push
    orig_shutdown = wthread.shutdown

    def shutdown():
        orig_shutdown()
        labels.append((role(), "shut", 0))
    wthread.shutdown = shutdown
    orig_mstop = manager.stop

    def mstop():
        orig_mstop()
        labels.append((role(), "joined", 0))
    manager.stop = mstop
    router = ctx._message_router
    orig_unreg = router.unregister_message_handler

    def unreg(h):
        orig_unreg(h)
        if h is manager:
            labels.append((role(), "unreg", 0))
    router.unregister_message_handler = unreg

    class HandlerMap(dict):                  # the router's handler table: log the look-up of the object by a caller thread
        def get(self, k, d=None):
            v = dict.get(self, k, d)
            if k == "o1" and role().startswith("C"):
                labels.append(("C", "hit" if v is manager else "miss", int(role()[1:])))
            return v
    poke(router, "_address_to_messagehandler_map", HandlerMap(router._address_to_messagehandler_map))
    orig_fhm = R.QMI_RpcFuture.handle_message

    def fhm(self, message):
        i = st["fut"].get(self.address.object_id)
        if self._context is ctx or not remote:
            kind = "err" if type(message).__name__ == "QMI_ErrorReplyMessage" else "reply"
            if s.current.tid == st.get("wtid"):
                labels.append(("W", "reject" if kind == "err" else "answer", i))
            elif s.current.tid == 0:
                labels.append(("S", "sweep", i))
        return orig_fhm(self, message)
    R.QMI_RpcFuture.handle_message = fhm
    st["wtid"] = s.by_real[wthread].tid

    if line_yields:
        # every source line of the hand-over, of the manager's stop, of ALL the worker thread's own functions (its loop and
        # its tail: shutdown check, rejection of the remaining requests, release - wherever that code lives) and of remove
        worker_fns = [f for n, f in vars(R._RpcThread).items() if callable(f) and not n.startswith("__")]
        dsched.enable_line_yields([R.RpcObjectManager.handle_message, R.RpcObjectManager.stop, C.QMI_Context.remove_rpc_object]
                                  + worker_fns)

    def caller(i, how, method):
        try:
            if method == "islocked":
                r = cproxy.is_locked()
            elif how == "nb":
                r = getattr(cproxy.rpc_nonblocking, method)(i).wait()
            else:
                r = getattr(cproxy, method)(i)
            obs["outcomes"][str(i)] = ["val", r if isinstance(r, (int, bool)) else repr(r)]
        except dsched.Deadlock:
            raise
        except BaseException as e:
            obs["outcomes"][str(i)] = ["exc", type(e).__name__]
        labels.append(("C", "done", i))

    obs["lab0"] = len(labels)
    obs["phase"] = "race"
    s.recording = True
    ths = []
    for i, (how, method) in enumerate(callers):
        t = real_threading.Thread(target=caller, args=(i, how, method), name="caller%d" % i)
        t.start()
        st["ctid"][s.by_real[t].tid] = "C%d" % i
        ths.append(t)
    try:
        if op == "remove":
            ctx.remove_rpc_object(proxy)
        else:
            ctx.stop()
        obs["main"] = ["ok"]
    except dsched.Deadlock:
        raise
    except BaseException as e:
        obs["main"] = ["exc", type(e).__name__]
    obs["phase"] = "join"
    for t in ths:
        t.join()
    s.recording = False
    obs["phase"] = "after"
    obs["lab1"] = len(labels)

    def alive():
        th = {}
        for t in s.threads:
            if t.state != dsched.DONE and t.tid != 0:
                k = t.name.split(":")[-1]
                th[k] = th.get(k, 0) + 1
        return th
    obs["handlers_after"] = list(router._address_to_messagehandler_map.keys())
    obs["worker_alive"] = s.by_real[wthread].state != dsched.DONE
    obs["rel"] = st["rel"]
    obs["exec"] = list(st["exec"])
    obs["reuse"] = None
    if op == "remove":
        try:
            p2 = ctx.make_rpc_object("o1", Obj)
            obs["reuse"] = ["ok"] if p2.ping(9) == 109 else ["weird"]
        except dsched.Deadlock:
            raise
        except BaseException as e:
            obs["reuse"] = ["exc", type(e).__name__]
        try:
            ctx.stop()
        except BaseException as e:
            obs["final_stop"] = ["exc", type(e).__name__]
    if cl is not None:
        obs["client_handlers"] = list(cl._message_router._address_to_messagehandler_map.keys())
        cl.stop()
    obs["threads_end"] = alive()
    obs["labels"] = [list(x) for x in labels]
    obs["phase"] = "done"
    return obs


def oracle_call(op, callers, res):
    """C12 for calls through a proxy racing with remove_rpc_object / stop.  Returns None or (key, text)."""
    o = res.get("obs") or {}
    if res["status"] == "deadlock":
        out = o.get("outcomes", {})
        blocked = [i for i in range(len(callers)) if str(i) not in out]
        return ("call:%s:caller-blocked" % op,
                "after %s() %s the call(s) %r through the proxy never get an outcome (blocked forever; phase %r): %s" % (
                    "remove_rpc_object" if op == "remove" else "stop", "returned" if o.get("main") else "was entered", blocked,
                    o.get("phase"), [tuple(x) for x in (o.get("labels") or [])[-12:]]))
    if res["status"] != "ok":
        return "call:%s:%s" % (op, res["status"]), "run did not finish (%s): %s" % (res["status"], (res.get("trace") or "")[-400:])
    if o["main"] != ["ok"]:
        return "call:%s:main-raised:%s" % (op, o["main"][1]), "%s raised %s while calls were in flight" % (op, o["main"][1])
    for i, (how, method) in enumerate(callers):
        x = o["outcomes"].get(str(i))
        if x is None:
            return "call:%s:no-outcome" % op, "call %d has no outcome" % i
        nexec = o["exec"].count(i)
        if nexec > 1:
            return "call:%s:executed-twice" % op, "call %d was executed %d times" % (i, nexec)
        if x[0] == "val":
            want = {"ping": 100 + i, "islocked": False}.get(method)
            if method == "boom" or x[1] != want or (method != "islocked" and nexec != 1):
                return "call:%s:wrong-value" % op, "call %d (%s) returned %r, executed %d times" % (i, method, x[1], nexec)
        else:
            ok = {"QMI_MessageDeliveryException"} | ({"ValueError"} if method == "boom" else set())
            if x[1] not in ok:
                return "call:%s:outcome:%s" % (op, x[1]), "call %d (%s) ended with %s (not a value, the method's exception or a delivery error)" % (i, method, x[1])
            if x[1] == "ValueError" and nexec != 1:
                return "call:%s:wrong-value" % op, "call %d raised the method's exception without executing" % i
    left = [h for h in o["handlers_after"] if h.startswith("$future") or h == "o1"]
    if left:
        return "call:%s:handlers-left" % op, "after %s returned and all callers finished the handler table still holds %r" % (op, left)
    if o["worker_alive"] or o["rel"] != 1:
        return "call:%s:worker" % op, "worker thread of the removed object alive=%r, release calls %d" % (o["worker_alive"], o["rel"])
    if op == "remove" and o["reuse"] != ["ok"]:
        return "call:remove:name-not-reusable", "the name can not be used again after remove: %r" % (o["reuse"],)
    if o.get("final_stop") or o["threads_end"]:
        return "call:%s:leftover" % op, "final stop %r, threads left %r" % (o.get("final_stop"), o["threads_end"])
    if [h for h in o.get("client_handlers", []) if h.startswith("$future")]:
        return "call:%s:client-handlers-left" % op, "the calling context still holds %r" % (o["client_handlers"],)
    return None


CLAB = {"hit": "LHit", "miss": "LMiss", "accept": "LAccept", "refused": "LRefused", "done": "LDone", "answer": "LExec",
        "reject": "LReject", "sweep": "LSweep"}


def coq_call_case(op, callers, o):
    tr = []
    for who, kind, i in [tuple(x) for x in o["labels"][o["lab0"]:o["lab1"]]]:
        if kind in CLAB:
            if i is not None:
                tr.append("%s %d" % (CLAB[kind], i))
        elif kind == "release":
            tr.append("LRelease")
        elif who == "S" and kind in ("unreg", "stopregion", "joined"):
            tr.append({"unreg": "LUnreg", "stopregion": "LStopRegion", "joined": "LJoined"}[kind])
    outs = []
    for i in range(len(callers)):
        x = o["outcomes"].get(str(i))
        outs.append("None" if x is None else "(Some OVal)" if (x[0] == "val" or x[1] == "ValueError") else "(Some OErr)")
    return "(%s, %d, %s, %s)" % (cbool(op == "stop"), len(callers), clist(tr), clist(outs))


def gen_call(rng):
    op = rng.choice(["remove", "remove", "stop"])
    n = rng.choice([1, 1, 2, 2, 3])
    callers = [(rng.choice(["block", "nb"]), rng.choice(["ping", "ping", "ping", "boom", "islocked"])) for _ in range(n)]
    remote = op == "remove" and rng.random() < 0.25
    return op, callers, remote


# ------------------------------------------------------------------------------------------------
# task populations: running tasks of several shapes present at remove_rpc_object / stop
# ------------------------------------------------------------------------------------------------
TASK_SHAPES = ["sleep", "getsig", "getsig_timed", "loop", "slow", "raises"]


def scenario_tasks(s, pop, start_order, plain, owner_ops, line_yields):
    """pop: [(name idx, shape, receiver idx)] tasks made in this order; start_order: the order in which they are started (each
    reaches its wait before the next is started: the order of the waiters on a shared receiver); plain: None or (receiver idx,
    position in the start order) = an ordinary thread blocked in get_next_signal(None) on that receiver; owner_ops: sequence of
    ("remove", name idx) ending with ("stop",), run by the creating thread.  All waits are QMI's own stoppable waits
    (QMI_Task.sleep, get_next_signal inside a task, QMI_LoopTask), except the shape "slow", which finishes a plain sleep of
    2 s after the stop request.  A stop()/remove that never returns shows up as deadlock / step-limit abort."""
    import threading as real_threading
    import warnings
    import qmi  # noqa
    import qmi.core.context as C
    import qmi.core.rpc as R
    import qmi.core.task as T
    import qmi.core.pubsub as P
    from qmi.core.config_defs import CfgQmi, CfgContext
    from qmi.core.exceptions import QMI_TaskStopException, QMI_TimeoutException
    logging.disable(logging.CRITICAL)
    warnings.simplefilter("ignore")
    real_threading.excepthook = lambda args: None
    st = {"next": 0, "rel": [], "born": [], "names": {}}
    obs = {"ops": [], "phase": "setup"}
    s.obs = obs
    s.recording = False
    recvs = [P.QMI_SignalReceiver() for _ in range(3)]

    class TSleep(T.QMI_Task):
        def run(self):
            while not self.stop_requested():
                self.sleep(1.0)

    class TGet(T.QMI_Task):
        def __init__(self, task_runner, name, ri, timeout):
            super().__init__(task_runner, name)
            self.ri, self.tmo = ri, timeout

        def run(self):
            while True:
                try:
                    recvs[self.ri].get_next_signal(timeout=self.tmo)
                except QMI_TimeoutException:
                    pass

    class TLoop(T.QMI_LoopTask):
        def __init__(self, task_runner, name):
            super().__init__(task_runner, name, loop_period=0.5)

    class TSlow(T.QMI_Task):
        def run(self):
            while not self.stop_requested():
                dsched.FAKE_TIME.sleep(0.5)
            dsched.FAKE_TIME.sleep(2.0)            # ignores the stop request for a while

    class TRaise(T.QMI_Task):
        def run(self):
            try:
                self.sleep(1000.0)
            except QMI_TaskStopException:
                raise RuntimeError("on stop")

    class Runner(T.QMI_TaskRunner):
        def __init__(self, context, name, task_class, task_args, task_kwargs):
            self.oid = st["next"]
            st["next"] += 1
            super().__init__(context, name, task_class, task_args, task_kwargs)
            st["born"].append(self.oid)
            st["names"][self.oid] = name

        def release_rpc_object(self):
            st["rel"].append(self.oid)
            super().release_rpc_object()

    ctx = C.QMI_Context("d", CfgQmi(contexts={"d": CfgContext(tcp_server_port=TPORT)}))
    ctx.start()
    proxies = {}
    for (n, shape, ri) in pop:
        name = NAMES[n]
        if shape == "sleep":
            proxies[n] = ctx.make_task(name, TSleep, task_runner=Runner)
        elif shape in ("getsig", "getsig_timed"):
            proxies[n] = ctx.make_task(name, TGet, ri, None if shape == "getsig" else 0.7, task_runner=Runner)
        elif shape == "loop":
            proxies[n] = ctx.make_task(name, TLoop, task_runner=Runner)
        elif shape == "slow":
            proxies[n] = ctx.make_task(name, TSlow, task_runner=Runner)
        else:
            proxies[n] = ctx.make_task(name, TRaise, task_runner=Runner)

    def plain_body():
        try:
            recvs[plain[0]].get_next_signal(timeout=None)
        except BaseException:
            pass
    k = 0
    for pos in range(len(start_order) + 1):
        if plain is not None and plain[1] == pos:
            real_threading.Thread(target=plain_body, name="plain", daemon=True).start()
            dsched.FAKE_TIME.sleep(0.01)
        if pos < len(start_order):
            proxies[pop[start_order[pos]][0]].start()
            dsched.FAKE_TIME.sleep(0.01)
            k += 1
    if line_yields:
        dsched.enable_line_yields([T._TaskThread.stop_task, T._TaskThread.wait_for_condition])

    def alive():
        th = {}
        for t in s.threads:
            if t.state != dsched.DONE and t.tid != 0:
                kk = t.name.split(":")[-1]
                th[kk] = th.get(kk, 0) + 1
        return th
    obs["threads_before"] = alive()
    obs["t0"] = s.clock
    obs["phase"] = "ops"
    s.recording = True
    for op in owner_ops:
        obs["current_op"] = list(op)
        try:
            if op[0] == "remove":
                ctx.remove_rpc_object(proxies[op[1]])
            else:
                ctx.stop()
            obs["ops"].append(["ok"])
        except dsched.Deadlock:
            raise
        except BaseException as e:
            obs["ops"].append(["exc", type(e).__name__])
    s.recording = False
    obs["phase"] = "after"
    obs["t1"] = s.clock
    obs["rel"] = list(st["rel"])
    obs["born"] = list(st["born"])
    obs["threads"] = {kk: v for kk, v in alive().items() if kk in ("_RpcThread", "_TaskThread", "_EventDrivenThread")}
    obs["handlers"] = list(ctx._message_router._address_to_messagehandler_map.keys())
    obs["objmap"] = [(kk, v is not None) for kk, v in ctx._rpc_object_map.items()]
    obs["active"] = bool(ctx._active)
    try:
        c2 = C.QMI_Context("d", CfgQmi(contexts={"d": CfgContext(tcp_server_port=TPORT)}))
        c2.start()
        c2.stop()
        obs["new_context"] = ["ok"]
    except dsched.Deadlock:
        raise
    except BaseException as e:
        obs["new_context"] = ["exc", type(e).__name__]
    obs["phase"] = "done"
    return obs


def oracle_tasks(pop, owner_ops, res):
    o = res.get("obs") or {}
    if res["status"] in ("deadlock", "abort", "hang"):
        return ("tasks:never-returns",
                "%s never returns (%s) with the running tasks %r present (owner operations finished before: %r); task threads stay alive, "
                "no new context can be started" % (
                    "/".join(str(x) for x in (o.get("current_op") or ["?"])), res["status"], [(NAMES[n], sh, "rcv%d" % ri) for n, sh, ri in pop],
                    o.get("ops")))
    if res["status"] != "ok":
        return "tasks:%s" % res["status"], "run did not finish (%s): %s" % (res["status"], (res.get("trace") or "")[-400:])
    if any(x != ["ok"] for x in o["ops"]):
        return "tasks:op-raised", "an owner operation raised: %r" % (o["ops"],)
    if o["t1"] - o["t0"] > 10.0:
        return "tasks:slow", "remove/stop took %.1f s of virtual time" % (o["t1"] - o["t0"])
    cnt = {}
    for x in o["rel"]:
        cnt[x] = cnt.get(x, 0) + 1
    if sorted(cnt) != sorted(o["born"]) or any(v != 1 for v in cnt.values()):
        return "tasks:release", "constructed %r, release calls %r (want each exactly once)" % (o["born"], o["rel"])
    if o["threads"]:
        return "tasks:threads-left", "QMI threads remain after stop: %r" % (o["threads"],)
    if [h for h in o["handlers"] if h != "$pubsub"] or o["objmap"] or o["active"]:
        return "tasks:tables", "after stop: handlers %r objmap %r active %r" % (o["handlers"], o["objmap"], o["active"])
    if o["new_context"] != ["ok"]:
        return "tasks:new-context", "a new context can not be started and stopped afterwards: %r" % (o["new_context"],)
    return None


def gen_tasks(rng):
    n = rng.choice([1, 2, 2, 3, 3, 4])
    names = rng.sample([1, 2, 3, 4], n)
    shared = rng.random() < 0.6
    pop = []
    for nm in names:
        shape = rng.choice(["getsig"] * 4 + TASK_SHAPES) if shared else rng.choice(TASK_SHAPES)
        pop.append((nm, shape, 0 if (shared and rng.random() < 0.8) else rng.randint(0, 2)))
    start_order = list(range(n))
    rng.shuffle(start_order)
    start_order = start_order[:rng.choice([n, n, n, max(0, n - 1)])]       # sometimes one task is never started
    plain = (0, rng.randint(0, len(start_order))) if rng.random() < 0.3 else None
    rem = [nm for nm in names if rng.random() < 0.35]
    rng.shuffle(rem)
    owner_ops = [("remove", nm) for nm in rem] + [("stop",)]
    return pop, start_order, plain, owner_ops


def _preload():
    import qmi  # noqa
    import qmi.core.context, qmi.core.context_singleton, qmi.core.rpc, qmi.core.messaging  # noqa
    import qmi.core.task, qmi.core.instrument, qmi.core.pubsub, qmi.core.thread, qmi.core.util  # noqa


# ------------------------------------------------------------------------------------------------
# Coq terms
# ------------------------------------------------------------------------------------------------
def _runtime_exc():
    from qmi.core.exceptions import QMI_RuntimeException
    return QMI_RuntimeException("server socket not supported on this platform")


BIND_FAULTS = [("OSError", lambda: OSError(98, "Address already in use")),
               ("OverflowError", lambda: OverflowError("bind(): port must be 0-65535.")),
               ("QMI_RuntimeException", _runtime_exc)]

EXN = {"QMI_UsageException": "EUsage", "QMI_InvalidOperationException": "EInvalidOp",
       "QMI_DuplicateNameException": "EDup", "QMI_UnknownNameException": "EUnknownName",
       "OSError": "EOSError", "ConnectionRefusedError": "EConnRefused", "AssertionError": "EAssert",
       "QMI_NoActiveContextException": "ENoActive", "ValueError": "EValue",
       "QMI_MessageDeliveryException": "EDelivery"}
CFAULT = {"none": "FNone", "tcp": "FTcp", "udp": "FUdp", "peer": "FPeer", "srv": "FNone"}
CKIND = {"obj": "KObj", "inst": "KInst", "task": "KTask"}


def coq_op(op):
    k = op[0]
    if k == "new":
        return "New"
    if k == "cstart":
        return "CStart %s" % CFAULT[op[1]]
    if k == "cstop":
        return "CStop"
    if k == "qstart":
        return "QStart %s %s" % (CFAULT[op[1]], cbool(op[1] == "srv"))
    if k == "qstop":
        return "QStop"
    if k == "make":
        return "Make %d %s %s %s" % (op[1], CKIND[op[2]], cbool(fkey(op[3]) is None), cbool(fkey(op[4]) is None))
    if k == "remove":
        return "Remove %d" % op[1]
    if k == "get":
        return "Get %d" % op[1]
    if k == "call":
        return "Call %d" % op[1]
    if k == "addh":
        hk = hkey(op[1])
        return "AddH %s" % ("HOk" if hk is None else "HExc" if hk == "exc" else "HBase")
    if k == "connect":
        return "Connect %s" % cbool(op[1])
    raise ValueError(op)


def hkey(x):
    """stop-handler fault key (legacy encoding: True = raises RuntimeError, False = returns)"""
    return None if (x is False or x == "ok") else fkey(False if x is True else x)


def name_idx(k):
    return NAMES.index(k) if k in NAMES else 99


def coq_out(op, out):
    if out[0] == "ok":
        return "OOk"
    if out[0] == "skip":
        return "OSkip"
    if out[0] == "val":
        return "(OVal %d)" % out[1]
    if out[0] == "exc":
        c = out[1]
        if op[0] == "make" and fkey(op[3]) is not None and c in ("QMI_TaskInitException", FCLASS[fkey(op[3])].__name__):
            return "(OExc ECtor)"                      # the injected constructor fault, whatever its class
        if op[0] in ("cstop", "qstop") and c in BASE_NAMES:
            return "(OExc EBase)"
        if op[0] in ("cstart", "qstart") and op[1] in ("tcp", "udp") and c in [b[0] for b in BIND_FAULTS]:
            return "(OExc EOSError)"                   # the injected bind fault, whatever its class
        return "(OExc %s)" % EXN.get(c, "EOther")
    return "(OExc EOther)"


def coq_obs(op, o):
    hk = [name_idx(k) for k in o["handlers"] if k != "$pubsub"]
    om = ["(%d, %s)" % (name_idx(k), cbool(v)) for k, v in o["objmap"]]
    extra = 50 if o["other_threads"] else 0          # an unknown QMI thread class can match no model state
    return "(mkO %s %d %d %d %s %s %s %s %s %d %d %s %s %s %d %d)" % (
        coq_out(op, o["out"]), o["rpc"] + extra, o["ev"], o["task"], clist([str(x) for x in hk]), clist(om),
        cbool(o["active"]), cbool(o["used"]), cbool(o["listen"]), o["nudp"], o["nconn"], cbool(o["reg"]),
        clist([str(x) for x in o["rel"]]), clist([str(x) for x in o["hruns"]]), o["next"], o["nprox"])


def coq_case(mode, ops, obs):
    return "(%s, %s, %s)" % ("Direct" if mode == "direct" else "Single", clist([coq_op(o) for o in ops]),
                             clist([coq_obs(op, o) for op, o in zip(ops, obs)]))


# ------------------------------------------------------------------------------------------------
# the property oracle (on the implementation's observations only)
# ------------------------------------------------------------------------------------------------
def oracle(mode, ops, res):
    """Returns None or (key, text, step).  Stops at the first failure of a history."""
    if res["status"] == "deadlock":
        return "deadlock", "an operation never returns (scheduler reports a deadlock): %s" % (res.get("info"),), len(res.get("obs") or [])
    if res["status"] in ("hang", "abort", "crash"):
        return res["status"], "history did not finish (%s)" % res["status"], len(res.get("obs") or [])
    if res["status"] != "ok":
        return "error", "scenario error: %s" % (res.get("trace") or res)[-600:], 0
    obs = res["obs"]
    zero = {"rpc": 0, "ev": 0, "task": 0, "handlers": [], "objmap": [], "active": False, "used": False,
            "listen": False, "nudp": 0, "nconn": 0, "reg": False, "rel": [], "hruns": [], "next": 0, "nprox": 0}
    prev = zero
    nh_ctx = 0                 # stop handlers registered on the current context object
    h_base = 0                 # id of the first of them
    stale_below = 0            # proxies with index < this belong to a stopped / replaced context
    dead = False               # the current context object was stopped (or torn down)
    h_total = 0                # stop handlers registered so far (their ids are 0, 1, ...)
    hcls_ctx = []              # fault classes of the stop handlers registered on the current context object
    have_ctx = False
    for i, (op, o) in enumerate(zip(ops, obs)):
        k, out = op[0], o["out"]
        ok, exc = out[0] == "ok", out[0] == "exc"
        live_prev = [n for n, lv in prev["objmap"] if lv]
        live = [n for n, lv in o["objmap"] if lv]

        def bad(key, text):
            return key, "step %d %r -> %r: %s" % (i, tuple(op), tuple(out), text), i
        if out[0] == "weird":
            return bad("weird", "unexpected result")
        if o["other_threads"]:
            return bad("thread-class", "unknown QMI thread classes alive: %r" % (o["other_threads"],))
        # -- at rest the three tables agree: no reservation, handlers = live names, one worker thread per object
        if any(not lv for _, lv in o["objmap"]):
            return bad("reservation-left", "a name stays reserved in the object map: %r" % (o["objmap"],))
        hk = sorted(x for x in o["handlers"] if x != "$pubsub")
        if len(set(live)) != len(live):
            return bad("unique", "a name maps to more than one object")
        if len(set(o["rel"])) != len(o["rel"]):
            return bad("released-twice", "an object was released more than once: log %r" % (o["rel"],))
        if k in ("cstart", "qstart") and exc and out[1] != "QMI_UsageException":
            # ---- a FAILED START (not a usage error): nothing of it may stay behind
            left = []
            if o["reg"]:
                left.append("the singleton variable still holds the context (qmi.start -> 'already started'%s)" % (
                    ", qmi.stop -> 'already inactive'" if not o["active"] else "; only qmi.stop() after the failed start recovers"))
            nrpc_left = o["rpc"] - prev["rpc"] + (len(live_prev) if k == "cstart" else 0)
            if nrpc_left > 0:
                left.append("%d _RpcThread of the context's objects ($context)" % nrpc_left)
            if o["ev"] > prev["ev"]:
                left.append("the router's _EventDrivenThread")
            if o["listen"] and not prev["listen"]:
                left.append("the TCP server socket stays bound to its port (a new context with this configuration cannot bind)")
            if o["nudp"] > prev["nudp"]:
                left.append("the UDP responder socket")
            if o["nconn"] > prev["nconn"]:
                left.append("a peer connection")
            if o["active"]:
                left.append("the context is active although start raised")
            if left:
                return bad("failed-start:%s:%s" % (mode, op[1]), "a failed start leaves behind: " + "; ".join(left))
            dead = True
            stale_below = o["nprox"]
        elif k == "new" and ok:
            have_ctx, dead, nh_ctx, h_base, hcls_ctx = True, False, 0, h_total, []
            stale_below = o["nprox"]
            if o["rpc"] != prev["rpc"] + 1 or hk != ["$context"]:
                return bad("new", "a fresh context does not have exactly its $context object")
        elif k == "qstart" and ok:
            have_ctx, dead, nh_ctx, h_base, hcls_ctx = True, False, 0, h_total, []
            stale_below = prev["nprox"]
            if not (o["active"] and o["reg"] and o["ev"] == prev["ev"] + 1 and o["listen"] and hk == ["$context"]):
                return bad("start", "qmi.start returned but the context is not up")
        elif k == "cstart" and ok:
            if not (o["active"] and o["ev"] == prev["ev"] + 1 and o["listen"]):
                return bad("start", "start returned but the context is not up")
            if dead:
                return bad("restart-accepted", "a stopped context was started again")
        elif k in ("cstart",) and exc and dead and out[1] != "QMI_UsageException":
            return bad("restart-error", "restart of a stopped context must be a usage error")
        elif k in ("cstop", "qstop") and ok:
            # ---- STOP: everything is reclaimed, whatever raised on the way
            if dead:
                return bad("second-stop-accepted", "stop succeeded on a context that was already stopped")
            if len(o["rel"]) - len(prev["rel"]) != len(live_prev):
                return bad("stop-release", "%d objects were live, %d release calls were made" % (
                    len(live_prev), len(o["rel"]) - len(prev["rel"])))
            if o["rpc"] != prev["rpc"] - len(live_prev) or o["ev"] != prev["ev"] - 1 or o["task"] != 0:
                return bad("stop-threads", "QMI threads remain after stop: rpc %d ev %d task %d" % (o["rpc"], o["ev"], o["task"]))
            if o["nconn"] or o["listen"] and not (prev["listen"] and not prev["active"]) or o["nudp"] >= max(1, prev["nudp"]):
                return bad("stop-sockets", "sockets remain after stop: listen %r udp %d conn %d" % (o["listen"], o["nudp"], o["nconn"]))
            if o["active"] or hk or o["objmap"]:
                return bad("stop-tables", "after stop: active %r handlers %r objmap %r" % (o["active"], hk, o["objmap"]))
            if k == "qstop" and o["reg"]:
                return bad("stop-singleton", "qmi.stop returned but the singleton variable is still set")
            want = list(range(h_base, h_base + nh_ctx))
            if o["hruns"][len(prev["hruns"]):] != want:
                return bad("stop-handlers", "stop handlers run %r, registered %r" % (o["hruns"][len(prev["hruns"]):], want))
            dead = True
            stale_below = o["nprox"]
        elif k in ("cstop", "qstop") and exc and have_ctx and not dead and prev["active"]:
            if out[1] in BASE_NAMES and any(h in ("base", "sysexit", "kbint") for h in hcls_ctx):
                return bad("stop-handler-baseexception",
                           "a stop handler raised %s (a BaseException that is not an Exception): stop() was aborted, the context is "
                           "still active=%r with %d objects alive, released so far %r, handlers run %r of %d" % (
                               out[1], o["active"], len(live), o["rel"][len(prev["rel"]):], o["hruns"][len(prev["hruns"]):], nh_ctx))
            return bad("stop-raised", "stop of an active context raised")
        elif k == "make":
            n = op[1]
            if exc:
                # refused or failed: nothing may change (no thread, no handler, no reservation, no release)
                if (o["objmap"], hk, o["rpc"], o["task"], o["rel"]) != (
                        prev["objmap"], sorted(x for x in prev["handlers"] if x != "$pubsub"), prev["rpc"], prev["task"], prev["rel"]):
                    return bad("rollback", "a refused / failed make changed the tables: objmap %r handlers %r rpc %d task %d" % (
                        o["objmap"], hk, o["rpc"], o["task"]))
                if 1 <= n <= NVALID and NAMES[n] in live_prev and prev["active"] and out[1] != "QMI_DuplicateNameException":
                    return bad("duplicate-class", "duplicate name not reported as such")
                if (1 <= n <= NVALID and prev["active"] and NAMES[n] not in [x for x, _ in prev["objmap"]] and fkey(op[3]) is None
                        and (mode == "direct" or prev["reg"])):
                    return bad("free-name-refused", "a free valid name in an active context was refused")
            elif ok:
                if NAMES[n] in live_prev:
                    return bad("duplicate-accepted", "a second object was created under a live name")
                if not (1 <= n <= NVALID) or not prev["active"] or fkey(op[3]) is not None:
                    return bad("make-accepted", "make succeeded with an invalid name / inactive context / failing constructor")
                if live != live_prev + [NAMES[n]] and sorted(live) != sorted(live_prev + [NAMES[n]]):
                    return bad("make-tables", "object map after make: %r" % (o["objmap"],))
                if o["rpc"] != prev["rpc"] + 1 or o["task"] != prev["task"] + (1 if op[2] == "task" else 0):
                    return bad("make-threads", "threads after make: rpc %d task %d" % (o["rpc"], o["task"]))
        elif k == "remove" and ok:
            nm = NAMES[op[1]]
            if nm not in live_prev:
                return bad("remove-accepted", "remove of a name that is not live succeeded")
            if nm in [x for x, _ in o["objmap"]] or nm in hk:
                return bad("remove-tables", "after remove the name is still in the object map / handler map")
            if o["rpc"] != prev["rpc"] - 1 or o["task"] > prev["task"]:
                return bad("remove-threads", "the object's thread did not end")
            if len(o["rel"]) != len(prev["rel"]) + 1:
                return bad("remove-release", "release calls after remove: %d (want exactly one)" % (len(o["rel"]) - len(prev["rel"])))
        elif k == "remove" and exc:
            if NAMES[op[1]] in live_prev:
                return bad("remove-refused", "remove of a live object raised")
        elif k == "call" and out[0] != "skip":
            if o["dt"] > 1e-9:
                return bad("call-slow", "a call through a proxy took %.3f s of virtual time (no prompt failure)" % o["dt"])
            if op[1] < stale_below and not exc:
                return bad("stale-call", "a call through a proxy of a stopped context returned a value")
            if exc and out[1] != "QMI_MessageDeliveryException":
                return bad("call-class", "a call through a stale proxy fails with %s" % out[1])
        elif k == "addh" and ok:
            nh_ctx += 1
            h_total += 1
            hcls_ctx.append(hkey(op[1]))
        # -- table agreement (after the op-specific checks so that their messages win)
        if hk != sorted(live):
            return bad("handlers-vs-objects", "handler map keys %r differ from the live object names %r" % (hk, sorted(live)))
        if o.get("has_ctx") and "$pubsub" not in o["handlers"]:
            return bad("pubsub", "the $pubsub handler disappeared")
        if o["task"] < 0 or o["rpc"] < 0:
            return bad("threads-negative", "thread accounting broke")
        prev = o
    return None


# ------------------------------------------------------------------------------------------------
# histories
# ------------------------------------------------------------------------------------------------
SCRIPTED = [
    ("single", [("qstart", "tcp"), ("qstart", "none"), ("qstop",), ("qstart", "none"), ("make", 1, "obj", True, True, False)]),
    ("single", [("qstart", "udp"), ("qstart", "none"), ("qstop",)]),
    ("single", [("qstart", "peer"), ("qstart", "none"), ("qstop",), ("qstart", "srv"), ("qstop",)]),
    ("single", [("qstart", "none"), ("make", 1, "obj", True, True, False), ("make", 1, "inst", True, True, True),
                ("make", 2, "task", True, False, True), ("make", 3, "inst", False, True, True), ("make", 3, "inst", True, False, True),
                ("get", 1), ("addh", True), ("addh", False), ("call", 0), ("remove", 1), ("call", 0)]),
    ("single", [("qstart", "srv"), ("make", 2, "task", True, False, True), ("make", 4, "inst", True, False, True), ("addh", True),
                ("addh", True), ("qstop",), ("call", 0), ("call", 1), ("qstop",), ("qstart", "none"), ("call", 0), ("qstop",)]),
    ("direct", [("new",), ("make", 1, "obj", True, True, False), ("cstart", "none"), ("cstart", "none"), ("connect", True),
                ("connect", True), ("connect", False), ("make", 1, "task", False, True, False), ("make", 1, "task", True, True, True),
                ("cstop",), ("cstart", "none"), ("cstop",), ("call", 0)]),
    ("direct", [("new",), ("cstart", "tcp"), ("cstart", "none"), ("cstop",), ("new",), ("cstart", "none"), ("cstop",)]),
    ("direct", [("new",), ("cstart", "udp"), ("new",), ("cstart", "none"), ("make", 1, "obj", True, True, False), ("cstop",)]),
    ("direct", [("new",), ("remove", 0), ("cstart", "tcp"), ("new",), ("cstart", "none"), ("cstop",)]),
    # fault classes: a constructor failing with a BaseException that is not an Exception must free the name as well
    ("direct", [("new",), ("cstart", "none"), ("make", 1, "obj", "sysexit", True, False), ("make", 1, "obj", True, "kbint", False),
                ("make", 2, "inst", "base", True, False), ("make", 2, "inst", "kbint", True, False), ("make", 2, "task", "sysexit", True, False),
                ("make", 2, "inst", True, "base", True), ("remove", 2), ("make", 2, "task", True, "sysexit", True), ("addh", "exc"), ("cstop",)]),
    ("single", [("qstart", "none"), ("make", 1, "inst", "kbint", True, False), ("make", 1, "obj", True, "sysexit", False), ("addh", "exc"),
                ("addh", "base"), ("addh", False), ("qstop",), ("qstop",), ("qstart", "none")]),
    ("direct", [("new",), ("cstart", "none"), ("make", 1, "obj", False, True, False), ("make", 1, "obj", True, True, False),
                ("remove", 1), ("make", 1, "inst", True, False, True), ("remove", 1), ("remove", 1), ("make", 1, "task", True, True, True),
                ("get", 1), ("cstop",), ("call", 2)]),
]


FKEYS = ["exc", "exc", "base", "sysexit", "kbint"]


def gen_history(rng):
    mode = rng.choice(["single", "direct"])
    n = rng.randint(3, 12)
    ops = []
    pool = rng.sample([1, 2, 3, 4], rng.choice([1, 2, 2, 3]))
    nprox = 0
    pfault = rng.choice([0.0, 0.15, 0.35])

    def start():
        f = "none"
        if rng.random() < pfault:
            f = rng.choice(["tcp", "udp", "peer"] if mode == "single" else ["tcp", "udp"])
        elif mode == "single" and rng.random() < 0.3:
            f = "srv"
        return ("qstart", f) if mode == "single" else ("cstart", f)
    if mode == "direct":
        ops.append(("new",))
    if rng.random() < 0.9:
        ops.append(start())
    made = []              # names of makes that probably succeeded (bias for remove / get / duplicates)
    while len(ops) < n:
        r = rng.random()
        if r < 0.36:
            nm = rng.choice(pool) if rng.random() < 0.9 else rng.randint(0, len(NAMES) - 1)
            ok = rng.random() < 0.72
            ops.append(("make", nm, rng.choice(KINDS), True if ok else rng.choice(FKEYS), True if rng.random() < 0.7 else rng.choice(FKEYS),
                        rng.random() < 0.7))
            if ok and 1 <= nm <= NVALID:
                made.append(nm)
                nprox += 1
        elif r < 0.50:
            nm = rng.choice(made) if made and rng.random() < 0.7 else rng.choice(pool) if rng.random() < 0.8 else rng.randint(0, len(NAMES) - 1)
            ops.append(("remove", nm))
            if nm in made and rng.random() < 0.8:
                made.remove(nm)
        elif r < 0.57:
            ops.append(("get", rng.choice(made) if made and rng.random() < 0.7 else rng.choice(pool) if rng.random() < 0.7
                        else rng.randint(1, len(NAMES) - 1)))
            nprox += 1
        elif r < 0.67:
            ops.append(("call", rng.randint(0, max(0, nprox - 1)) if rng.random() < 0.9 else nprox + 3))
        elif r < 0.74:
            ops.append(("addh", False if rng.random() < 0.5 else rng.choice(["exc", "exc", "exc", "exc", "base", "sysexit", "kbint"])))
        elif r < 0.79:
            ops.append(("connect", rng.random() < 0.7))
        elif r < 0.89:
            ops.append(("qstop",) if mode == "single" else ("cstop",))
        elif r < 0.96:
            ops.append(start())
        elif mode == "direct":
            ops.append(("new",))
    return mode, ops[:12]


def classify(ck, mode, ops, obs):
    ck.count("mode:" + mode)
    ck.count("len:%s" % ("1-5" if len(ops) <= 5 else "6-9" if len(ops) <= 9 else "10-12"))
    for op, o in zip(ops, obs):
        tag = op[0] + (":" + str(op[1]) if op[0] in ("cstart", "qstart") else "")
        if op[0] == "make":
            tag += ":" + op[2] + ("" if fkey(op[3]) is None else ":ctor-raises-" + fkey(op[3]))
        ck.count("op:%s:%s" % (tag, o["out"][0] if o["out"][0] != "exc" else o["out"][1]))
    stops = [o for op, o in zip(ops, obs) if op[0] in ("cstop", "qstop") and o["out"][0] == "ok"]
    for op, o, p in zip(ops[1:], obs[1:], obs[:-1]):
        if op[0] in ("cstop", "qstop") and o["out"][0] == "ok":
            ck.count("stop-with-%d-live-objects" % min(4, len(p["objmap"])))
            if p["task"]:
                ck.count("stop-with-running-task")
    return bool(stops) or any(op[0] == "make" and o["out"][0] == "ok" for op, o in zip(ops, obs))


def run(ck):
    ck.theory_dir = THEORY
    ck.build_theory(THEORY)
    ck.trusted = [
        "Coq 8.16.1 kernel + vm_compute (model evaluated on every history)",
        "model theories/C12/Model.v: transcription by hand of QMI_Context / context_singleton / RpcObjectManager / MessageRouter "
        "life-cycle steps, tied by step-by-step comparison of 16 observables after every operation of every generated history",
        "dsched deterministic runtime with fake asyncio loop and fake network (defines thread liveness, sockets, virtual time)",
        "interleaving model theories/C12/ConcModel.v of remove/make racing with stop, tied by trace acceptance: the effects on the object map, "
        "the handler map and the worker threads recorded from every concurrent run (logging dict in place of _rpc_object_map, wrapped "
        "register/unregister_message_handler and RpcObjectManager.stop) must be a path of the model ending in the observed outcome",
        "interleaving model theories/C12/CallModel.v of calls racing with remove/stop (hand-over of a request = one region with the running "
        "check), tied by trace acceptance: handler look-ups (logging dict in place of the router's handler table), the regions of the "
        "manager's _stop_lock (logging wrapper), push_rpc_request, replies delivered to the futures, release, unregister and join recorded "
        "from every run with local callers must be a path of the model ending in the observed outcomes",
        "harness stubs: instrumented QMI_RpcObject / QMI_Instrument / QMI_Task / QMI_TaskRunner subclasses, wrapped _ContextRpcObject "
        "__init__/release_rpc_object (id + release counter), helper peer context 'srv'",
    ]
    ck.assumptions = [
        "the operation histories are sequential (one caller thread, 1-3 random schedules each); concurrency is covered for ONE racing "
        "operation: remove_rpc_object or make_rpc_object/make_instrument/make_task in a second thread against stop() in the creating thread "
        "(random + PCT schedules with line-level switch points inside remove_rpc_object, _internal_make_rpc_object, stop, "
        "_stop_rpc_objects, and DFS with <= 2 preemptions at synchronisation granularity on two short scenarios), and for 1-3 "
        "caller threads (blocking / non-blocking call, lock request, local or through a peer context) against remove_rpc_object or "
        "stop() of the called object (line-level switch points inside RpcObjectManager.handle_message / stop, all functions of the "
        "worker thread class and remove_rpc_object; DFS with <= 2 preemptions on the one-caller scenario); other pairs "
        "(make||make, remove||remove, anything racing with start) are not explored",
        "tasks: a task honours stop (woken with its stop flag set it ends) - explicit hypothesis of TaskPop.v, = property C11 + the task "
        "code blocks only in QMI's own stoppable waits; the task shapes of the scenarios do (QMI_Task.sleep, get_next_signal inside a "
        "task with and without timeout, QMI_LoopTask), one shape finishes a 2 s plain sleep first, one raises on stop",
        "the call model (CallModel.v) is proved by reflection for remove and stop with 1 and 2 callers; its trace acceptance is run for "
        "local callers only (runs through the peer context are judged by the oracle alone)",
        "the interleaving model (ConcModel.v) treats each region under _rpc_object_map_lock, each register/unregister and each manager.stop() "
        "as atomic; its theorems are reflection proofs over 32+32 listed finite instances (<= 3 objects), not over arbitrary populations",
        "the CLASS of an injected fault is part of the fault: constructors, release_rpc_object and stop handlers raise RuntimeError, a custom "
        "BaseException subclass, SystemExit or KeyboardInterrupt (sequential histories; constructors and release steps also in the concurrent "
        "scenarios, whose stop handlers raise RuntimeError only because a handler abort happens before any racing region); bind / connect "
        "faults are OSError / ConnectionRefusedError; the model distinguishes Exception-like from BaseException-only exactly where the code's "
        "handlers do (the `except Exception` around stop handlers)",
        "OS-level release of sockets is observed on the fake network, except for ONE bucket of two runs on the REAL loopback stack (a context "
        "with a fixed tcp_server_port stopped with an established peer connection, server closing first / client first, and restarted at once "
        "on the same port); port clashes with other jobs on the FIRST bind are retried 3 times with a fresh port and then give no verdict",
    ]
    _preload()
    rng = ck.rng
    nrand = 900 if ck.tier == "quick" else 4500
    hist = [(m, [tuple(o) for o in ops]) for m, ops in SCRIPTED]
    hist += [gen_history(rng) for _ in range(nrand)]
    jobs, meta = [], []
    for hi, (mode, ops) in enumerate(hist):
        nsched = 2 if hi < len(SCRIPTED) else rng.choice([1, 1, 2, 3])
        for j in range(nsched):
            seed = rng.randrange(1 << 30)
            strat = "pct" if j == 2 else "random"
            jobs.append((scenario, (mode, ops), dict(strategy=strat, seed=seed)))
            meta.append((mode, ops, strat, seed))
    results = dsched.run_forked(jobs, nproc=16, wall_timeout=60.0)
    terms, tmeta, flagged = [], [], {}
    for (mode, ops, strat, seed), res in zip(meta, results):
        obs = res.get("obs") or []
        nontrivial = res["status"] == "ok" and classify(ck, mode, ops, obs)
        ck.note_case((mode, ops, res.get("choices")), nontrivial)
        ck.count("status:" + res["status"])
        rep = {"mode": mode, "ops": [list(o) for o in ops], "strategy": strat, "seed": seed, "schedule": res.get("choices")}
        bad = oracle(mode, ops, res)
        if bad:
            ck.count("oracle-flagged")
            ck.report("oracle:" + bad[0], "C12 fails on the implementation: " + bad[1], dict(rep, status=res["status"], failing_step=bad[2]))
        if res["status"] == "ok" and len(obs) == len(ops):
            flagged[len(terms)] = bad
            terms.append(coq_case(mode, ops, obs))
            tmeta.append((rep, obs))
    for rep, obs in tmeta[:2] + tmeta[-1:]:
        ck.sample({"mode": rep["mode"], "ops": rep["ops"], "outs": [o["out"] for o in obs],
                   "threads_rpc_ev_task": [(o["rpc"], o["ev"], o["task"]) for o in obs]}, 3)
    bad = ck.run_model("C12.Corr", "check_case", terms, "case", shard=100)
    ck.coverage["histories_not_matching_demanded_model"] = len(bad)
    # histories on which the code does not behave as C12 demands: they must be exactly the ones the oracle flagged as the
    # stop-handler-BaseException finding, and they must match the transcription of the tree as it is (variant Tree)
    bad2 = set()
    if bad:
        sub = ck.run_model("C12.Corr", "check_case_tree", [terms[i] for i in bad], "case", shard=100)
        bad2 = set(bad[j] for j in sub)
    ck.coverage["histories_matching_only_the_current_tree_variant"] = len(bad) - len(bad2)
    nrep = 0
    for i in bad:
        rep, obs = tmeta[i]
        fl = flagged.get(i)
        if i not in bad2 and fl and fl[0] == "stop-handler-baseexception":
            continue
        if nrep >= 3:
            break
        nrep += 1
        case = terms[i]
        d = ck.model_eval("C12.Corr", "(diff_at Fixed %s, diff_at Tree %s)" % (case, case))
        ck.report("corr:%s" % ("oracle-fails" if fl else "model-differs"),
                  "implementation and Coq model disagree on a history (first differing step (demanded, current-tree) = %s)%s" % (
                      d[-60:], ": " + fl[1] if fl else " (the property oracle passes on it)"),
                  dict(rep, impl_outs=[o["out"] for o in obs], broken="correspondence C12.Corr.check_case"), found_input=bool(fl))
    run_conc(ck)
    run_call(ck)
    run_tasks(ck)
    run_real(ck)
    return ck.finish("seeded random operation+fault histories (length <= 12, both modes) + %d scripted, each under 1-3 random schedules; "
                     "non-trivial = at least one successful make or stop; distinct by (history, schedule); plus concurrent runs (remove / make "
                     "in a second thread racing with stop) under random, PCT and bounded-DFS schedules, all non-trivial" % len(SCRIPTED),
                     "Sequential clauses: proof over all histories + step-by-step correspondence.  Concurrent clause (an operation of another "
                     "thread racing with stop): proof for every interleaving of the atomic regions on the listed finite instances + trace acceptance "
                     "of sampled real schedules + oracle; weaker than the sequential clauses (finite instances, one racing operation, sampled schedules).  "
                     "Calls through proxies racing with remove/stop: same kind of claim (CallModel.v, 1-2 callers proved, 1-3 sampled).  "
                     "Running tasks at remove/stop: proof for every population and order under the explicit hypothesis that a task honours stop "
                     "(C11) + sampled populations of 1-4 tasks of six shapes, shared receivers in both waiter orders, a plain thread, every "
                     "remove/stop order; a remove/stop that never returns is reported with its schedule.")


def run_conc(ck):
    """Concurrent part: remove_rpc_object / make_* in a second thread while the owner thread stops the context."""
    rng = ck.rng
    nconf = 110 if ck.tier == "quick" else 800
    confs = [([(1, "obj", True, False)], ("remove", 1), 0), ([(1, "task", False, True), (2, "inst", True, True)], ("remove", 1), 1),
             ([(1, "obj", True, False)], ("make", 2, "obj", True, True, False), 0),
             ([(1, "obj", True, False)], ("make", 2, "task", True, False, True), 1)]
    confs += [gen_conc(rng) for _ in range(nconf)]
    jobs, meta = [], []
    for ci, (pop, bop, nh) in enumerate(confs):
        for j in range(6 if ci < 4 else 3):
            strat = "pct" if j % 3 == 2 else "random"
            seed = rng.randrange(1 << 30)
            ly = j != 1 or ci < 4          # one of three without line-level yields (synchronisation-level schedule)
            jobs.append((scenario_conc, (pop, bop, nh, ly), dict(strategy=strat, seed=seed, switch_prob=rng.choice([0.2, 0.35, 0.6]))))
            meta.append((pop, bop, nh, ly, strat, seed))
    results = dsched.run_forked(jobs, nproc=16, wall_timeout=60.0)
    # systematic: all schedules with <= 2 preemptions at synchronisation granularity of two short scenarios
    dfs = []
    for (pop, bop, nh) in confs[:1] + confs[2:3]:
        nmax = 250 if ck.tier == "quick" else 800
        for res in dsched.explore_dfs(scenario_conc, (pop, bop, nh, False), preemption_bound=2, max_runs=nmax, nproc=16, wall_timeout=60.0):
            if res["status"] == "_summary":
                ck.coverage.setdefault("conc_dfs", {})["%s/%s" % (bop[0], len(pop))] = {
                    "runs": res["runs"], "exhausted_within_preemption_bound": res["exhausted"], "bound": 2}
                continue
            dfs.append(((pop, bop, nh, False, "replay", None), res))
    terms, tmeta, flagged = [], [], {}
    for (pop, bop, nh, ly, strat, seed), res in list(zip(meta, results)) + dfs:
        o = res.get("obs") or {}
        ck.note_case(("conc", pop, bop, nh, ly, res.get("choices")), True)
        ck.count("conc:%s:%s" % (bop[0], res["status"]))
        if res["status"] == "ok":
            ck.count("conc:%s:other-thread-outcome:%s" % (bop[0], "/".join(o["b"] or ["?"])))
        bad = oracle_conc(pop, bop, res)
        if bad:
            ck.count("conc-oracle-flagged")
            ck.report(bad[0], "C12 fails on the implementation (concurrent): " + bad[1],
                      {"concurrent": True, "pop": [list(x) for x in pop], "bop": list(bop), "nhandlers": nh, "line_yields": ly,
                       "strategy": strat, "seed": seed, "schedule": res.get("choices"), "status": res["status"],
                       "labels": o.get("labels"), "stop_outcome": o.get("a"), "other_outcome": o.get("b")})
        if res["status"] == "ok":
            flagged[len(terms)] = bad
            terms.append((coq_conc_case(pop, bop, o, True), coq_conc_case(pop, bop, o, False)))
            tmeta.append({"concurrent": True, "pop": [list(x) for x in pop], "bop": list(bop), "nhandlers": nh, "line_yields": ly,
                          "strategy": strat, "seed": seed, "schedule": res.get("choices"), "labels": o.get("labels"),
                          "stop_outcome": o.get("a"), "other_outcome": o.get("b")})
    ck.coverage["concurrent_runs"] = len(meta) + len(dfs)
    # trace acceptance: every run must be a path of the interleaving model with the handler registered inside the
    # publishing region (what C12 needs); runs that are paths only of the model of the tree as it is must be exactly the
    # ones the oracle flagged
    badi = ck.run_model("C12.ConcCorr", "check_case", [t[0] for t in terms], "case", shard=150)
    only_cur = set()
    if badi:
        sub = ck.run_model("C12.ConcCorr", "check_case", [terms[i][1] for i in badi], "case", shard=150)
        only_cur = set(badi) - set(badi[j] for j in sub)
    ck.coverage["concurrent_runs_accepted_by_model"] = len(terms) - len(badi)
    ck.coverage["concurrent_runs_accepted_only_by_current_tree_model"] = len(only_cur)
    nrep = 0
    for i in badi:
        fl = flagged.get(i)
        if i in only_cur and fl and fl[0] == "conc:make:stop-unregisters-before-make-registers":
            continue
        if nrep >= 3:
            break
        nrep += 1
        ck.report("corr-conc:%s:%s" % (tmeta[i]["bop"][0], "oracle-fails" if fl else "model-differs"),
                  "a real schedule of %s racing with stop() is not a path of the interleaving model (or ends in another outcome)%s" % (
                      tmeta[i]["bop"][0], ": " + fl[1] if fl else "; the property oracle passes on it"),
                  dict(tmeta[i], broken="correspondence C12.ConcCorr.check_case (trace acceptance)"), found_input=bool(fl))


def run_call(ck):
    """Calls through a proxy (blocking, non-blocking + wait, lock requests; local proxies and a peer context) racing with
    remove_rpc_object / stop of the object; line-level switch points inside the hand-over and the worker's tail."""
    rng = ck.rng
    nconf = 70 if ck.tier == "quick" else 600
    confs = [("remove", [("block", "ping")], False), ("remove", [("nb", "ping"), ("block", "boom")], False),
             ("stop", [("block", "ping"), ("nb", "islocked")], False), ("remove", [("block", "ping")], True)]
    confs += [gen_call(rng) for _ in range(nconf)]
    jobs, meta = [], []
    for ci, (op, callers, remote) in enumerate(confs):
        for j in range(9 if ci < 4 else 4):
            strat = "pct" if j % 3 == 2 else "random"
            seed = rng.randrange(1 << 30)
            ly = j % 4 != 3
            jobs.append((scenario_call, (op, callers, remote, ly), dict(strategy=strat, seed=seed, switch_prob=rng.choice([0.2, 0.4, 0.7]))))
            meta.append((op, callers, remote, ly, strat, seed))
    results = dsched.run_forked(jobs, nproc=16, wall_timeout=60.0)
    dfs = []
    nmax = 250 if ck.tier == "quick" else 800
    for res in dsched.explore_dfs(scenario_call, ("remove", [("block", "ping")], False, False), preemption_bound=2, max_runs=nmax,
                                  nproc=16, wall_timeout=60.0):
        if res["status"] == "_summary":
            ck.coverage.setdefault("conc_dfs", {})["call-vs-remove/1"] = {
                "runs": res["runs"], "exhausted_within_preemption_bound": res["exhausted"], "bound": 2}
            continue
        dfs.append((("remove", [("block", "ping")], False, False, "replay", None), res))
    terms, tmeta, flagged = [], [], {}
    for (op, callers, remote, ly, strat, seed), res in list(zip(meta, results)) + dfs:
        o = res.get("obs") or {}
        ck.note_case(("call", op, callers, remote, ly, res.get("choices")), True)
        ck.count("call:%s:%s%s" % (op, res["status"], ":remote" if remote else ""))
        for x in (o.get("outcomes") or {}).values():
            ck.count("call:%s:outcome:%s" % (op, x[0] if x[0] == "val" else x[1]))
        rep = {"call": True, "op": op, "callers": [list(c) for c in callers], "remote": remote, "line_yields": ly, "strategy": strat,
               "seed": seed, "schedule": res.get("choices"), "status": res["status"]}
        bad = oracle_call(op, callers, res)
        if bad:
            ck.count("call-oracle-flagged")
            ck.report(bad[0], "C12 fails on the implementation (call racing with %s): %s" % (op, bad[1]),
                      dict(rep, labels=o.get("labels"), outcomes=o.get("outcomes")))
        if res["status"] == "ok" and not remote:
            flagged[len(terms)] = bad
            terms.append(coq_call_case(op, callers, o))
            tmeta.append(dict(rep, labels=o.get("labels"), outcomes=o.get("outcomes")))
    ck.coverage["call_runs"] = len(meta) + len(dfs)
    badi = ck.run_model("C12.CallCorr", "check_case", terms, "case", shard=150)
    ck.coverage["call_runs_accepted_by_model"] = len(terms) - len(badi)
    for i in badi[:3]:
        fl = flagged.get(i)
        ck.report("corr-call:%s:%s" % (tmeta[i]["op"], "oracle-fails" if fl else "model-differs"),
                  "a real schedule of calls racing with %s is not a path of the interleaving model in which the hand-over of a request is one "
                  "region with the running check (or ends in other outcomes)%s" % (tmeta[i]["op"], ": " + fl[1] if fl else "; the property oracle passes on it"),
                  dict(tmeta[i], broken="correspondence C12.CallCorr.check_case (trace acceptance)"), found_input=bool(fl))


def replay_call(c):
    _preload()
    callers = [tuple(x) for x in c["callers"]]
    kw = dict(strategy="replay", schedule=list(c["schedule"])) if c.get("schedule") is not None else dict(strategy=c["strategy"], seed=c["seed"])
    res = dsched.run_forked([(scenario_call, (c["op"], callers, c["remote"], c["line_yields"]), kw)], nproc=1, wall_timeout=60.0)[0]
    o = res.get("obs") or {}
    print("status:", res["status"], res.get("info") or "")
    print("owner thread:", c["op"], "->", o.get("main"), " callers:", callers, "remote" if c["remote"] else "local")
    print("outcomes:", o.get("outcomes"), " phase:", o.get("phase"))
    print("effects in order:", [tuple(x) for x in o.get("labels") or []])
    print("handlers after:", o.get("handlers_after"), "worker alive:", o.get("worker_alive"), "re-use of the name:", o.get("reuse"))
    bad = oracle_call(c["op"], callers, res)
    print("oracle:", bad or "property holds on this schedule")
    acc = True
    if res["status"] == "ok" and not c["remote"]:
        import common
        ck = common.Check("C12")
        out = ck.model_eval("C12.CallCorr", "check_case %s" % coq_call_case(c["op"], callers, o))
        ck.clean_cases()
        acc = "= true" in out
        print("interleaving model (hand-over in one region, sweep reaches every issued call, first outcome kept) accepts the trace:", acc)
    return 1 if (bad or not acc) else 0


def coq_tasks_case(pop, start_order, plain, owner_ops, ok, nrel):
    cvs = [ri if shape in ("getsig", "getsig_timed") and i in start_order else 10 + i for i, (n, shape, ri) in enumerate(pop)]
    ws = []
    for pos in range(len(start_order) + 1):
        if plain is not None and plain[1] == pos:
            ws.append("(%d, None)" % plain[0])
        if pos < len(start_order):
            i = start_order[pos]
            if pop[i][1] in ("getsig", "getsig_timed"):
                ws.append("(%d, Some %d)" % (pop[i][2], i))
    idx = {n: i for i, (n, _, _) in enumerate(pop)}
    order = [idx[op[1]] for op in owner_ops if op[0] == "remove"]
    order += [i for i in range(len(pop)) if i not in order]
    return "(%s, %s, %s, %s, %d)" % (clist([str(x) for x in cvs]), clist(ws), clist([str(x) for x in order]), cbool(ok), nrel)


def run_tasks(ck):
    """Populations of running tasks (sleeping, waiting on an own or a SHARED receiver - in both orders of creation vs. beginning to
    wait -, timed waits, loop tasks, a task that finishes its sleep first, a task raising on stop, a plain thread on the same
    receiver, tasks never started) present at remove_rpc_object / stop, in every order."""
    rng = ck.rng
    nconf = 110 if ck.tier == "quick" else 1200
    confs = [([(1, "getsig", 0), (2, "getsig", 0)], [1, 0], None, [("stop",)]),
             ([(1, "getsig", 0), (2, "getsig", 0)], [0, 1], None, [("stop",)]),
             ([(1, "getsig", 0), (2, "getsig", 0), (3, "getsig", 0)], [2, 0, 1], None, [("remove", 2), ("stop",)]),
             ([(1, "getsig", 0)], [0], (0, 0), [("stop",)]),
             ([(1, "getsig", 0)], [0], (0, 1), [("remove", 1), ("stop",)]),
             ([(1, "sleep", 0), (2, "getsig_timed", 1), (3, "loop", 0), (4, "slow", 0)], [0, 1, 2, 3], None, [("remove", 3), ("stop",)]),
             ([(1, "raises", 0), (2, "getsig", 2), (3, "getsig", 2)], [0, 2, 1], None, [("remove", 2), ("remove", 1), ("stop",)])]
    confs += [gen_tasks(rng) for _ in range(nconf)]
    jobs, meta = [], []
    for ci, (pop, so, plain, oo) in enumerate(confs):
        for j in range(3):
            strat = "pct" if j == 2 else "random"
            seed = rng.randrange(1 << 30)
            ly = j != 1
            jobs.append((scenario_tasks, (pop, so, plain, oo, ly), dict(strategy=strat, seed=seed, max_steps=30000,
                                                                        switch_prob=rng.choice([0.2, 0.4, 0.7]))))
            meta.append((pop, so, plain, oo, ly, strat, seed))
    results = dsched.run_forked(jobs, nproc=16, wall_timeout=60.0)
    terms, tmeta, flagged = [], [], {}
    for (pop, so, plain, oo, ly, strat, seed), res in zip(meta, results):
        o = res.get("obs") or {}
        ck.note_case(("tasks", pop, so, plain, oo, ly, res.get("choices")), True)
        ck.count("tasks:%s" % res["status"])
        for (_, shape, _) in pop:
            ck.count("tasks:shape:" + shape)
        shared = [ri for (_, sh, ri) in pop if sh in ("getsig", "getsig_timed")]
        if len(shared) != len(set(shared)) or (plain is not None and plain[0] in shared):
            ck.count("tasks:several-waiters-on-one-receiver")
        rep = {"tasks": True, "pop": [list(x) for x in pop], "start_order": so, "plain": plain, "owner_ops": [list(x) for x in oo],
               "line_yields": ly, "strategy": strat, "seed": seed, "schedule": res.get("choices"), "status": res["status"]}
        bad = oracle_tasks(pop, oo, res)
        if bad:
            ck.count("tasks-oracle-flagged")
            ck.report(bad[0], "C12 fails on the implementation (running tasks at remove/stop): " + bad[1], rep)
        returned = res["status"] == "ok" and all(x == ["ok"] for x in o.get("ops", []))
        if res["status"] in ("ok", "deadlock", "abort", "hang"):
            flagged[len(terms)] = bad
            terms.append(coq_tasks_case(pop, so, plain, oo, returned, len(o.get("rel") or [])))
            tmeta.append(rep)
    ck.coverage["task_population_runs"] = len(meta)
    badi = ck.run_model("C12.TaskCorr", "check_case", terms, "case", shard=200)
    ck.coverage["task_population_runs_agreeing_with_model"] = len(terms) - len(badi)
    for i in badi[:3]:
        fl = flagged.get(i)
        one = ck.model_eval("C12.TaskCorr", "check_case_notify_one %s" % terms[i])
        ck.report("corr-tasks:%s" % ("oracle-fails" if fl else "model-differs"),
                  "the model says every release step of this task population returns, the real remove/stop did not agree%s "
                  "(the model of a wake-up of only ONE waiter predicts for this case: returns = %s)" % (
                      ": " + fl[1] if fl else "; the property oracle passes on it", one[-40:]),
                  dict(tmeta[i], broken="correspondence C12.TaskCorr.check_case"), found_input=bool(fl))


def replay_tasks(c):
    _preload()
    pop = [tuple(x) for x in c["pop"]]
    oo = [tuple(x) for x in c["owner_ops"]]
    plain = tuple(c["plain"]) if c.get("plain") else None
    kw = dict(strategy="replay", schedule=list(c["schedule"]), max_steps=30000) if c.get("schedule") is not None \
        else dict(strategy=c["strategy"], seed=c["seed"], max_steps=30000)
    res = dsched.run_forked([(scenario_tasks, (pop, list(c["start_order"]), plain, oo, c["line_yields"]), kw)], nproc=1, wall_timeout=60.0)[0]
    o = res.get("obs") or {}
    print("status:", res["status"], res.get("info") or "")
    print("tasks (name, shape, receiver):", [(NAMES[n], sh, ri) for n, sh, ri in pop], " started in order:", c["start_order"], " plain thread:", plain)
    print("owner operations:", oo, "->", o.get("ops"), " blocked in:", o.get("current_op") if res["status"] != "ok" else None)
    print("threads before:", o.get("threads_before"), " after:", o.get("threads"), " released:", o.get("rel"), " new context:", o.get("new_context"))
    bad = oracle_tasks(pop, oo, res)
    print("oracle:", bad or "property holds on this schedule")
    return 1 if bad else 0


# ------------------------------------------------------------------------------------------------
# real loopback sockets (no dsched): restart of a context on its fixed TCP port right after stop
# ------------------------------------------------------------------------------------------------
def _real_restart(order):
    """Runs in a forked child with the REAL threading / socket modules.  order: "server-first" (the server context is stopped
    while the client is still connected: its side closes first and leaves TIME_WAIT sockets on the port) or "client-first"."""
    import socket
    import threading
    import qmi.core.context as C
    import qmi.core.rpc as R
    from qmi.core.thread import QMI_Thread
    from qmi.core.config_defs import CfgQmi, CfgContext
    logging.disable(logging.CRITICAL)

    class Obj(R.QMI_RpcObject):
        @R.rpc_method
        def ping(self):
            return 41

    sk = socket.socket(socket.AF_INET, socket.SOCK_STREAM)
    sk.bind(("127.0.0.1", 0))
    port = sk.getsockname()[1]
    sk.close()
    cfg = CfgQmi(contexts={"c12srv": CfgContext(host="127.0.0.1", tcp_server_port=port)})
    out = {"order": order, "port": "fixed", "steps": []}

    def round_(tag, first):
        srv = C.QMI_Context("c12srv", cfg)
        try:
            srv.start()
        except OSError as e:
            out["steps"].append([tag + ":server-start", "OSError", e.errno])
            return "clash" if first else "restart-failed"
        srv.make_rpc_object("o1", Obj)
        cl = C.QMI_Context("c12cl", CfgQmi())
        cl.start()
        cl.connect_to_peer("c12srv", "127.0.0.1:%d" % port)
        r = cl.get_rpc_object_by_name("c12srv.o1").ping(rpc_timeout=10.0)
        out["steps"].append([tag + ":call", r])
        for c in ((srv, cl) if order == "server-first" else (cl, srv)):
            c.stop()
        left = sorted(type(t).__name__ for t in threading.enumerate() if isinstance(t, QMI_Thread) and t.is_alive())
        out["steps"].append([tag + ":threads-left", left])
        return "ok" if (r == 41 and not left) else "bad"
    st = round_("first", True)
    if st == "ok":
        st = round_("restart", False)          # at once, same configuration, same port
    out["status"] = st
    return out


def _fork_real(fn, args, wall=40.0):
    import json as _json
    import select
    import signal
    import time as _time
    r, w = os.pipe()
    sys.stdout.flush()
    pid = os.fork()
    if pid == 0:
        os.close(r)
        try:
            dn = os.open(os.devnull, os.O_WRONLY)
            os.dup2(dn, 2)
            res = fn(*args)
        except BaseException as e:          # noqa
            res = {"status": "error", "error": "%s: %s" % (type(e).__name__, e)}
        os.write(w, _json.dumps(res).encode())
        os._exit(0)
    os.close(w)
    data, t0 = b"", _time.monotonic()
    while _time.monotonic() - t0 < wall:
        if select.select([r], [], [], 0.2)[0]:
            chunk = os.read(r, 1 << 16)
            if not chunk:
                break
            data += chunk
    os.close(r)
    try:
        os.kill(pid, signal.SIGKILL)
    except OSError:
        pass
    os.waitpid(pid, 0)
    try:
        return _json.loads(data.decode())
    except ValueError:
        return {"status": "hang"}


def run_real(ck):
    """ONE small bucket on the real loopback stack: what the fake network cannot show (TIME_WAIT on the server port)."""
    for order in ("server-first", "client-first"):
        res = None
        for attempt in range(3):               # another job on the machine may take the port between our probe and the bind
            res = _fork_real(_real_restart, (order,))
            if res.get("status") != "clash":
                break
        ck.note_case(("real-restart", order), True)
        ck.count("real-restart:%s:%s" % (order, res.get("status")))
        if res.get("status") == "clash":
            continue                            # three clashes on the FIRST bind: no verdict from this bucket
        if res.get("status") == "restart-failed":
            ck.report("real:restart-refused:%s" % order,
                      "C12 fails on the implementation (real loopback sockets): a context with a fixed tcp_server_port was stopped (%s: %s) "
                      "and a NEW context with the same configuration started at once fails to bind its port: %r" % (
                          order, "the server closed the established peer connection first" if order == "server-first" else "the client disconnected first",
                          res.get("steps")), {"real_socket": True, "order": order, "steps": res.get("steps")})
        elif res.get("status") != "ok":
            ck.report("real:%s:%s" % (res.get("status"), order), "real-socket restart scenario (%s) did not behave: %r" % (order, res),
                      {"real_socket": True, "order": order, "result": res})


def replay_real(c):
    res = _fork_real(_real_restart, (c["order"],))
    print("real loopback sockets, order:", c["order"])
    for st in res.get("steps", []):
        print("  ", st)
    print("status:", res.get("status"), res.get("error") or "")
    print("oracle:", "property holds (restart on the same port succeeded)" if res.get("status") == "ok" else
          "inconclusive (the port was taken by another job)" if res.get("status") == "clash" else "VIOLATED: " + str(res.get("status")))
    return 0 if res.get("status") in ("ok", "clash") else 1


def replay_conc(c):
    _preload()
    pop = [tuple(x) for x in c["pop"]]
    bop = tuple(c["bop"])
    kw = dict(strategy="replay", schedule=list(c["schedule"])) if c.get("schedule") is not None else dict(strategy=c["strategy"], seed=c["seed"])
    res = dsched.run_forked([(scenario_conc, (pop, bop, c["nhandlers"], c["line_yields"]), kw)], nproc=1, wall_timeout=60.0)[0]
    o = res.get("obs") or {}
    print("status:", res["status"], res.get("info") or "")
    print("population:", pop, " other thread:", bop)
    print("stop() ->", o.get("a"), "  other thread ->", o.get("b"))
    print("effects in order:", [tuple(x) for x in o.get("labels") or []])
    print("released:", o.get("rel"), "constructed:", o.get("born"), "threads left:", o.get("threads"), "handlers:", o.get("handlers"),
          "objmap:", o.get("objmap"))
    bad = oracle_conc(pop, bop, res)
    print("oracle:", bad or "property holds on this schedule")
    return 1 if bad else 0


def replay(rep):
    c = rep["case"]
    if c.get("concurrent"):
        return replay_conc(c)
    if c.get("call"):
        return replay_call(c)
    if c.get("tasks"):
        return replay_tasks(c)
    if c.get("real_socket"):
        return replay_real(c)
    _preload()
    ops = [tuple(o) for o in c["ops"]]
    kw = dict(strategy="replay", schedule=list(c["schedule"])) if c.get("schedule") else dict(strategy=c.get("strategy", "random"), seed=c.get("seed", 0))
    res = dsched.run_forked([(scenario, (c["mode"], ops), kw)], nproc=1, wall_timeout=60.0)[0]
    print("status:", res["status"])
    for op, o in zip(ops, res.get("obs") or []):
        print(" ", op, "->", o["out"], "threads rpc/ev/task", (o["rpc"], o["ev"], o["task"]), "handlers", o["handlers"],
              "objmap", o["objmap"], "active", o["active"], "reg", o["reg"], "listen/udp/conn", (o["listen"], o["nudp"], o["nconn"]),
              "released", o["rel"], "hruns", o["hruns"], "dt", o["dt"])
    bad = oracle(c["mode"], ops, res)
    print("oracle:", bad or "property holds on this history")
    return 1 if bad else 0
