"""C01 (and the shared machinery of C02, C03) — every RPC call completes exactly once.

H3: real QMI contexts (server + client over the fake network), real proxies, worker and socket
threads run under the deterministic scheduler; caller threads issue blocking / non-blocking calls
(values, exceptions, BaseException, unpicklable arguments and results) while the main thread
removes the object, stops a context or disconnects.  The recorded event trace must be a run of the
Coq model (theories/C01/Model.v) and end in the same outcomes and the same execution log.
Independent oracle: every call ends with exactly one outcome of an allowed class, no deadlock,
no second assignment, a surviving object still serves.
"""
import dsched
import rpcsim
from common import cbool, clist, cnat

THEORY = "C01"
ALLOWED = {  # kind -> allowed result classes (without fault) ; delivery_error always allowed under a fault
    "ok": "value", "exc": "exception", "baseexc": "exception", "badres": "delivery_error", "badarg": "delivery_error",
    "slow_to": "timeout", "islocked": "value", "getname": "value", "getsignals": "value", "selfcall": "value", "selfnested": "timeout", "huge": "value", "big": "value", "badload_arg": "delivery_error", "badload_res": "delivery_error"}


def to_labels(obs, spec):
    """events -> (labels, info table, observed classes per rid, execlog as rids) or raises ValueError."""
    rid_of, info, labels = {}, [], []
    tag_rid = {}
    callers = {}
    srv_open, cli_open, cli_exists = True, True, False
    srv_peer, cli_peer = True, True
    for e in obs["trace"]:
        k = e[0]
        if k == "Issue":
            _, key, ok, local, tag = e
            rid = len(info)
            rid_of[key] = rid
            tag_rid[tag] = rid
            c = obs["calls"][tag]
            cid = callers.setdefault(c["caller"], len(callers))
            kind = c["kind"]
            body = {"huge": "OValue %d" % rid, "big": "OValue %d" % rid, "selfcall": "OValue %d" % rid, "selfnested": "OValue %d" % rid, "getname": "OValue %d" % rid, "getsignals": "OValue %d" % rid, "badload_arg": "OValue %d" % rid, "badload_res": "OValue %d" % rid, "ok": "OValue %d" % rid, "badres": "OValue %d" % rid, "badarg": "OValue %d" % rid, "slow_to": "OValue %d" % rid, "islocked": "OValue %d" % rid,
                    "exc": "OExc %d" % rid, "baseexc": "OExc %d" % rid}[kind]
            info.append("mkInfo %s %s %s %s (%s)" % (cbool(c["remote"]), cnat(cid), cbool(kind != "badarg"),
                                                     cbool(kind != "badres"), body))
            labels.append("LIssue %d %s" % (rid, cbool(ok)))
            if c["remote"]:
                cli_exists = True
        elif k == "Handoff":
            labels.append("LHandoff %d %s" % (rid_of[e[1]], cbool(e[2])))
        elif k == "SockSend":
            labels.append("LSockSend %d %s" % (rid_of[e[1]], cbool(e[2])))
        elif k == "NetC2S":
            labels.append("LNetC2S %d %s" % (rid_of[e[1]], cbool(e[2])))
        elif k == "Exec":
            labels += ["LPop", "LExec"]
        elif k == "Reply":
            labels.append("LReply %s" % cbool(e[2]))
        elif k == "Reject":
            labels.append("LReject %s" % cbool(e[2]))
        elif k == "SrvSend":
            labels.append("LSrvSend %d %s" % (rid_of[e[1]], {"sent": "Sent", "sent_error": "SentError", "dropped": "Dropped"}[e[2]]))
        elif k == "NetS2C":
            labels.append("LNetS2C %d" % rid_of[e[1]])
        elif k in ("Unregister", "StopFlag", "Shutdown", "WorkerExit"):
            labels.append("L" + k)
        elif k == "PeerGone":
            if e[1] == "srv" and srv_peer:
                labels.append("LSrvPeerGone")
                srv_peer = False
            elif e[1] != "srv" and cli_peer:
                labels.append("LCliPeerGone")
                cli_peer = False
        elif k == "Close":
            if e[1] == "srv" and srv_open:
                if srv_peer:
                    labels.append("LSrvPeerGone")
                    srv_peer = False
                labels.append("LSrvClose")
                srv_open = False
            elif e[1] != "srv" and cli_open:
                if cli_peer:
                    labels.append("LCliPeerGone")
                    cli_peer = False
                labels.append("LCliClose")
                cli_open = False
        elif k == "RouterOff":
            labels.append("LSrvRouterOff" if e[1] == "srv" else "LCliRouterOff")
        elif k == "LoopStop":
            if e[1] == "srv":
                if srv_peer:
                    labels.append("LSrvPeerGone")
                    srv_peer = False
                if srv_open:          # no connection ever existed / already gone: vacuous close
                    labels.append("LSrvClose")
                    srv_open = False
                labels.append("LSrvLoopStop")
            else:
                if cli_peer:
                    labels.append("LCliPeerGone")
                    cli_peer = False
                if cli_open:
                    labels.append("LCliClose")
                    cli_open = False
                labels.append("LCliLoopStop")
        elif k == "Sweep":
            if e[1] != "srv":
                labels.append("LCliSweep")
        elif k in ("Set", "Wire"):
            pass
        else:
            raise ValueError("unknown event %r" % (e,))
    cls = []
    by_rid = {r: t for t, r in tag_rid.items()}
    for rid in range(len(info)):
        res = obs["calls"][by_rid[rid]]["result"]
        if res is None:
            cls.append("CNone")
        else:
            cls.append({"value": "CValue", "exception": "CExc", "delivery_error": "CDelivery", "timeout": "CTimeout"}[res[0]])
    # execution order as observed at the worker (method calls and lock-control requests alike)
    xlog = [rid_of[e[1]] for e in obs["trace"] if e[0] == "Exec" and e[1] in rid_of]
    # ... which, restricted to method calls, must be the order in which the method bodies were entered
    bodies = [tag_rid[x[1]] for x in obs["execlog"] if x[0] == "enter" and x[1] in tag_rid]
    lockreq = {tag_rid[t] for t, c in obs["calls"].items() if c["kind"] in ("islocked", "getname", "getsignals") and t in tag_rid}
    if [r for r in xlog if r not in lockreq] != bodies:
        raise ValueError("worker dispatch order %r differs from the order of method-body entries %r" % (xlog, bodies))
    return labels, info, cls, xlog


def coq_case(fx, labels, info, cls, xlog):
    return "(%s, %s, %s, %s, %s)" % (cbool(fx), clist(info), clist(labels), clist(cls), clist([cnat(x) for x in xlog]))


def oracle(spec, res):
    """C01 on the implementation's observations. Returns None or (key, text)."""
    if res["status"] == "deadlock":
        stuck = [t for t, c in (res.get("obs") or {}).get("calls", {}).items() if not c["done"]]
        return "hang", "a call never completes (scheduler reports a deadlock); unfinished calls: %s" % stuck
    if res["status"] in ("hang", "abort"):
        return "hang", "schedule did not finish (%s)" % res["status"]
    if res["status"] != "ok":
        return "error", "scenario error: %s" % str(res.get("trace") or res)[:500]
    o = res["obs"]
    fault = spec["fault"]
    if fault == "none" and any(k.startswith("badload") for ks in spec["remote"] for k in ks):
        fault = "connection-lost-by-undecodable-message"     # the receiving end gives up the connection: other remote calls may fail
    sets = {}
    for e in o["trace"]:
        if e[0] == "Set" and e[2]:
            sets[e[1]] = sets.get(e[1], 0) + 1
    if any(v > 1 for v in sets.values()):
        return "double", "a future was assigned twice: %s" % sets
    for tag, c in o["calls"].items():
        if not c["done"] or c["result"] is None:
            return "nooutcome", "call %s ended without an outcome" % tag
        cls = c["result"][0]
        want = ALLOWED[c["kind"]]
        if c["kind"] in ("badres", "badarg", "badload_arg", "badload_res") and not c["remote"]:
            want = "value"            # local calls are not pickled
        if c["kind"] == "selfnested":
            continue          # a call of the object to itself: one outcome is all C01 asks (C03 judges when it may execute)
        if cls == "timeout" and c["kind"] != "slow_to":
            return "timeout", "call %s timed out" % tag
        if cls != want:
            if cls == "delivery_error" and fault != "none":
                continue
            return "wrong-outcome", "call %s (%s, %s) ended with %s %s, expected %s" % (
                tag, c["kind"], "remote" if c["remote"] else "local", cls, c["result"][1], want)
        if cls == "value" and c["kind"] in ("ok", "huge", "big") and tag not in c["result"][1]:
            return "foreign-outcome", "call %s received another call's value %s" % (tag, c["result"][1])
    if "later_call" in o and "later" not in o["later_call"]:
        return "object-dead", "the surviving object does not serve a later call: %s" % o["later_call"]
    # serial execution: enter/exit never nest
    for x in o["execlog"]:
        if x[2] != 1:
            return "overlap", "two method bodies of one object overlap: %s" % (o["execlog"],)
    return None


def gen_specs(ck, n):
    rng = ck.rng
    specs = []
    for _ in range(n):
        nl, nr = rng.choice([(1, 1), (2, 1), (1, 2), (0, 2), (2, 0), (1, 0), (0, 1), (2, 2)])
        pool = rng.choice([rpcsim.KINDS, ["ok", "ok", "exc"], rpcsim.KINDS_TIMEOUT, rpcsim.KINDS_LOCKQ, rpcsim.KINDS_BADLOAD, rpcsim.KINDS_SELF])
        mk = lambda: [rng.choice(pool) for _ in range(rng.randint(1, 3))]
        specs.append(dict(local=[mk() for _ in range(nl)], remote=[mk() for _ in range(nr)],
                          fault=rng.choice(rpcsim.FAULTS), nb=[rng.random() < 0.5 for _ in range(3)],
                          fault_delay=(rng.choice([0, 0, 1.5, 3.0, 5.5]) if pool is rpcsim.KINDS_TIMEOUT else 0),
                          lines=rng.random() < 0.35))
    return specs


def fixed_specs():
    """scenario shapes that run on every run whatever the seed (the circumstances earlier seeded regressions needed)"""
    out = []
    for fault in ("stop_server", "disconnect", "stop_client", "remove_then_stop", "remove"):
        for delay in (1.5, 3.0):
            # calls abandoned after rpc_timeout stay in the connection's pending table, ahead of calls that still wait
            out.append(dict(local=[], remote=[["slow_to", "ok"], ["slow_to", "exc"]], fault=fault, nb=[False, True, False],
                            fault_delay=delay))
        out.append(dict(local=[["ok", "exc"]], remote=[["ok", "badres", "ok"], ["badarg", "ok"]], fault=fault,
                        nb=[True, False, True], fault_delay=0))
        # unpicklable values whose exception carries an empty message (second / odd positions)
        out.append(dict(local=[["ok"]], remote=[["ok", "badarg", "ok"], ["badres", "badres", "badres"]], fault=fault,
                        nb=[False, False, False], fault_delay=0))
    for fault in ("remove", "stop_server", "remove_then_stop"):
        for nb in ([False, False, False], [True, False, True]):
            # line-level switch points inside handle_message / stop / the queue hand-over while the object goes away
            out.append(dict(local=[["ok", "ok"], ["ok"]], remote=[["ok", "ok"]], fault=fault, nb=nb, fault_delay=0, lines=True))
    for nb in ([False, False, False], [True, True, False]):
        # a value the receiver cannot unpickle: the connection is given up, every pending call must still end
        out.append(dict(local=[["ok"]], remote=[["badload_arg", "ok"], ["ok", "ok"]], fault="none", nb=nb, fault_delay=0))
        out.append(dict(local=[["ok"]], remote=[["ok", "badload_res"], ["ok", "ok"]], fault="none", nb=nb, fault_delay=0))
        out.append(dict(local=[["badload_arg", "badload_res"]], remote=[["islocked", "ok"]], fault="none", nb=nb, fault_delay=0))
    return out


def run_specs(ck, specs, schedules_per_spec, fx=True):
    import qmi.core.context, qmi.core.rpc, qmi.core.messaging, qmi.core.pubsub, qmi.core.task, qmi.core.config_defs  # noqa
    jobs, meta = [], []
    for si, sp in enumerate(specs):
        for j in range(schedules_per_spec):
            strat = "random" if j % 3 else "pct"
            jobs.append((rpcsim.scenario, (sp,), dict(strategy=strat, seed=ck.seed * 100003 + si * 131 + j,
                                                      switch_prob=ck.rng.choice([0.15, 0.35, 0.6]))))
            meta.append(sp)
    results = dsched.run_forked(jobs, nproc=16, wall_timeout=40.0)
    return list(zip(meta, results))


def run(ck, pid="C01"):
    ck.theory_dir = THEORY
    ck.build_theory(THEORY)
    ck.trusted = [
        "Coq 8.16.1 kernel + vm_compute (model evaluated on recorded traces)",
        "model theories/C01/Model.v (hand-written transition system, one label per atomic region of the real code), tied by trace acceptance",
        "dsched deterministic scheduler, fake asyncio loop and fake network (define what a schedule / an orderly connection loss is)",
        "probes in harness/rpcsim.py (wrappers around QMI methods, installed from outside in the forked child)",
        "CPython pickle on picklable values; method bodies terminate",
    ]
    ck.assumptions = ["one server object, one client connection (connections are independent; shared parts are modelled)",
                      "sending on a connection whose peer has closed fails at once (fake network); orderly loss only",
                      "calls are made without rpc_timeout; a hang is detected by the scheduler as a deadlock"]
    nspec, per = (70, 6) if ck.tier == "quick" else (600, 12)
    specs = fixed_specs() + gen_specs(ck, nspec)
    terms, metas = [], []
    for sp, res in run_specs(ck, specs, per):
        ck.note_case((repr(sp), tuple(res.get("choices") or ())), True)
        ck.count("fault:" + sp["fault"])
        ck.count("status:" + res["status"])
        bad = oracle(sp, res)
        if bad:
            ck.report("oracle:%s:%s" % (bad[0], sp["fault"]), "C01 fails on the implementation (fault=%s): %s" % (sp["fault"], bad[1]),
                      {"spec": sp, "schedule": res.get("choices"), "status": res["status"]})
            continue
        try:
            labels, info, cls, xlog = to_labels(res["obs"], sp)
        except Exception as e:  # noqa
            ck.report("harness:trace", "could not translate a trace: %r" % (e,), {"spec": sp}, found_input=False)
            continue
        for c in cls:
            ck.count("outcome:" + c)
        terms.append(coq_case(True, labels, info, cls, xlog))
        metas.append((sp, res.get("choices"), labels, cls))
    for m in metas[:1] + metas[-2:]:
        ck.sample({"spec": m[0], "schedule_len": len(m[1] or []), "labels": m[2], "outcomes": m[3]}, 3)
    bad = ck.run_model("C01.Corr", "check_case", terms, "case", shard=60)
    ck.coverage["correspondence_disagreements"] = len(bad)
    for i in bad[:3]:
        sp, sched, labels, cls = metas[i]
        mo = ck.model_eval("C01.Corr", "model_out %s" % terms[i])
        ck.report("corr:%s" % sp["fault"], "a real execution is not a run of the Coq model or ends in other outcomes "
                  "(the property oracle passed on it); model says: %s" % mo[:300],
                  {"spec": sp, "schedule": sched, "labels": labels, "outcomes": cls,
                   "broken": "correspondence C01.Corr.check_case (trace acceptance)"}, found_input=False)
    return ck.finish("random scenario shapes (callers x call kinds x fault) x seeded random/PCT schedules; every schedule distinct; all non-trivial")


def replay(rep):
    c = rep["case"]
    import qmi.core.context, qmi.core.rpc, qmi.core.messaging, qmi.core.pubsub, qmi.core.task, qmi.core.config_defs  # noqa
    res = dsched.run_forked([(rpcsim.scenario, (c["spec"],), dict(strategy="replay", schedule=list(c.get("schedule") or [])))],
                            nproc=1, wall_timeout=60)[0]
    print("status:", res["status"])
    print("calls:", (res.get("obs") or {}).get("calls"))
    bad = oracle(c["spec"], res)
    print("oracle:", bad or "property holds on this schedule")
    return 1 if bad else 0
