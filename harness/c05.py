"""C05 — only methods declared RPC-callable can be invoked through messages.

What runs (H1, no threads are started):
  * translators/t_c05_classes.py imports every module of the qmi package of the tree under test, collects
    QMI_RpcObject and all its subclasses, and writes their member tables to coq/gen/C05Classes.v together
    with one obligation `class_ok <class> = true` per class (vm_compute) and the instantiation of the
    generic theorem C05_advertised_eq_dispatchable on all of them.
  * ~200 generated classes per quick run (marked / unmarked / inherited / overridden either way / static /
    class / property / data / lambda / callable objects / instance attributes shadowing class members /
    protected names / constants / signals) are pushed through the same translator (coq/gen/C05GenClasses.v).
  * dynamic validation of the translator and property oracle: every class that can be instantiated with a
    stub context (and a fake transport substituted for the driver module's create_transport) gets hand-built
    QMI_MethodRpcRequestMessage objects for every name in dir(obj) + advertised + names visible on the
    metaclass + junk (dunder, private, data, nonexistent, unicode, empty, near-misses of real names):
      route A: the real _RpcThread._check_and_get_method on the real, untouched object, under
               sys.setprofile so that any code of the object's classes that runs is seen;
      route B: the real _RpcThread._handle_method_rpc_request; for shipped classes every callable
               attribute is first shielded by a recording stub carrying the same marker (no real driver
               body runs); generated classes run unshielded (their bodies only log);
    the real make_interface_descriptor, a real QMI_RpcProxy / QMI_RpcNonBlockingProxy built from it, and
    every forwarding method of the proxy sent back through the real handler.
  * the Coq model (C05.Corr.check_case) is evaluated on the same tables/names and must agree on every
    verdict, on the descriptor and on the proxy's method set.
Classes that cannot be instantiated are still covered statically (table + class_ok + descriptor + proxy).
"""
import functools
import importlib
import inspect
import os
import random
import sys
import time
import types
from common import poke  # noqa: E402

import common
from common import cN, cbool

sys.path.insert(0, os.path.join(os.path.dirname(os.path.abspath(__file__)), "translators"))
import t_c05_classes as T  # noqa: E402

THEORY = "C05"
GEN = os.path.join(common.COQ, "gen", "C05Classes.v")
GEN2 = os.path.join(common.COQ, "gen", "C05GenClasses.v")
CORR = "C05.Corr.\nRequire Import QVgen.C05Classes QVgen.C05GenClasses"   # see run_model's header
PROTECTED = ("lock", "unlock", "force_unlock", "is_locked")


def _rpc():
    import qmi.core.rpc as rpc
    from qmi.core.messaging import QMI_MessageHandlerAddress as Addr
    from qmi.core.exceptions import QMI_UnknownRpcException, QMI_UsageException
    return rpc, Addr, QMI_UnknownRpcException, QMI_UsageException


# ---------------------------------------------------------------------------------------------
# stubs
# ---------------------------------------------------------------------------------------------

class StubCtx:
    def __init__(self, name="srv"):
        self.name = name
        self.sent = []
        self.handlers = []
        self._n = 0

    def send_message(self, m):
        self.sent.append(m)

    def make_unique_address(self, prefix):
        _, Addr, _, _ = _rpc()
        self._n += 1
        return Addr(self.name, "%s%d" % (prefix, self._n))

    def register_message_handler(self, h):
        self.handlers.append(h)

    def unregister_message_handler(self, h):
        pass


class FakeTransport:
    """Plain object standing for a transport: never opened, never used (no method body of a driver runs)."""

    def open(self):
        raise AssertionError("C05 harness: transport used")

    close = write = read = read_until = read_until_timeout = discard_read = open


def fake_create_transport(*a, **k):
    return FakeTransport()


def patch_create_transport():
    n = 0
    for name, mod in list(sys.modules.items()):
        if name.startswith("qmi.instruments") and mod is not None and hasattr(mod, "create_transport"):
            setattr(mod, "create_transport", fake_create_transport)
            n += 1
    return n


class FakeVendor:
    """Stands for any object of a vendor library that is not installed (ADwin.ADwin(...), a ctypes library
    handle, uldaq, zhinst, Aravis ...).  Calling it or reading an attribute gives another FakeVendor; it never
    touches hardware.  Like the real vendor objects it has no `_rpc_*` and no invented dunder attributes (a
    catch-all __getattr__ answering `_rpc_method` would make the object look RPC-callable, which no real vendor
    object does — assumption A2 is about the real ones)."""

    def __init__(self, *a, **k):
        pass

    def __call__(self, *a, **k):
        return FakeVendor()

    def __getattr__(self, n):
        if n.startswith("__") or n.startswith("_rpc"):
            raise AttributeError(n)
        return FakeVendor()


class FakeModule(types.ModuleType):
    def __getattr__(self, n):
        if n.startswith("__") or n.startswith("_rpc"):
            raise AttributeError(n)
        return FakeVendor()


FAKE_VENDOR_MODULES = ["ADwin", "uldaq", "mcculw", "mcculw.ul", "mcculw.enums", "RPi", "RPi.GPIO", "zhinst",
                       "zhinst.ziPython", "zhinst.utils", "zhinst.core", "gi", "gi.repository",
                       "gi.repository.Aravis", "pyvisa", "visa", "PySpin", "usb", "usb.core", "vxi11"]


def install_fake_vendor():
    """sys.modules stubs for vendor libraries that are not installed (a library that IS installed is left
    alone).  -> names installed"""
    import importlib.util
    done = []
    for name in FAKE_VENDOR_MODULES:
        if name in sys.modules:
            continue
        top = name.split(".")[0]
        if top not in done and "." not in name:
            try:
                if importlib.util.find_spec(name) is not None:
                    continue
            except (ImportError, ValueError):
                pass
        elif top not in done:
            continue                       # the real top-level package exists: leave its sub-modules alone
        m = FakeModule(name)
        m.__path__ = []
        sys.modules[name] = m
        if "." in name:
            parent, leaf = name.rsplit(".", 1)
            types.ModuleType.__setattr__(sys.modules[parent], leaf, m)
        else:
            done.append(name)
    return [n for n in FAKE_VENDOR_MODULES if isinstance(sys.modules.get(n), FakeModule)]


class _WinSys:
    """`sys` as seen by a driver module that refuses to construct off Windows"""
    platform = "win32"

    def __getattr__(self, n):
        return getattr(sys, n)


EXISTING_DIR = os.environ.get("VERIF_SCRATCH", "/var/tmp")


def _arg_for(p, variant):
    nm = p.name.lower()
    ann = p.annotation
    anns = ann if isinstance(ann, str) else getattr(ann, "__name__", str(ann))
    if "transport" in nm:
        return "tcp:localhost:5000"
    if variant == 1:
        return "x"
    if variant == 2:
        return 1
    if "dir" in nm:
        return EXISTING_DIR
    if variant == 3:
        return "1234"
    if variant == 4:
        return "12345678901"
    if "Optional" in str(ann) or "None" in str(ann):
        return None
    if anns in ("str",) or "str" in anns:
        return "1234" if ("serial" in nm or "number" in nm or "id" in nm) else "x"
    if anns == "int":
        return 1
    if anns == "float":
        return 1.0
    if anns == "bool":
        return False
    if "host" in nm or "addr" in nm:
        return "localhost"
    return "x"


def try_instantiate(cls):
    """-> (obj, None) or (None, reason).  No thread may start inside a constructor (Bristol_871A starts its
    reader thread there when given a serial transport)."""
    import threading
    orig = threading.Thread.start
    if cls.__module__ == "qmi.core.task":
        return _try_instantiate(cls)      # the runner's constructor waits for its (idle) task thread
    threading.Thread.start = lambda self: None
    try:
        obj, why = _try_instantiate(cls)
        if obj is not None:
            return obj, None
        # second attempt with environment shims: shared-library loaders give a FakeVendor handle, and a driver
        # module that only constructs on Windows sees sys.platform == "win32"
        import ctypes
        mod = sys.modules.get(cls.__module__)
        saved = [(ctypes.cdll, "LoadLibrary", ctypes.cdll.__dict__.get("LoadLibrary", None)),
                 (ctypes, "WinDLL", ctypes.__dict__.get("WinDLL", None)),
                 (ctypes, "CDLL", ctypes.__dict__.get("CDLL", None))]
        mods = [m for m in sys.modules.values() if m is not None and getattr(m, "__name__", "").startswith(
            cls.__module__.rsplit(".", 1)[0]) and getattr(m, "ctypes", None) is ctypes]
        ctypes.cdll.LoadLibrary = lambda *a, **k: FakeVendor()
        ctypes.WinDLL = lambda *a, **k: FakeVendor()
        ctypes.CDLL = lambda *a, **k: FakeVendor()
        swapped_sys = False
        if mod is not None and getattr(mod, "sys", None) is sys and "Windows" in (why or ""):
            mod.sys = _WinSys()
            swapped_sys = True
        try:
            obj, why2 = _try_instantiate(cls)
        finally:
            for o, n, v in saved:
                if v is None:
                    try:
                        delattr(o, n)
                    except AttributeError:
                        pass
                else:
                    setattr(o, n, v)
            if swapped_sys:
                mod.sys = sys
            del mods
        if obj is not None:
            SHIMMED.append(cls.__qualname__)
            return obj, None
        return None, "%s || with loader/platform shims: %s" % (why, why2)
    finally:
        threading.Thread.start = orig


SHIMMED = []


def _try_instantiate(cls):
    """-> (obj, None) or (None, reason).  Stub context, synthesized constructor arguments."""
    rpc = _rpc()[0]
    if cls.__module__ == "qmi.core.task" and cls.__name__ == "QMI_TaskRunner":
        from qmi.core.task import QMI_Task

        class _T(QMI_Task):
            def run(self):
                pass
        try:
            return cls(StubCtx(), "obj", _T, (), {}), None
        except BaseException as e:  # noqa
            return None, "%s: %s" % (type(e).__name__, str(e)[:100])
    try:
        sig = inspect.signature(cls.__init__)
    except (TypeError, ValueError) as e:
        return None, "no signature: %s" % e
    params = list(sig.parameters.values())[1:]
    errors = []
    for transport in ("tcp:localhost:5000", "serial:/dev/ttyS0", "udp:localhost:5000"):
        for variant in (0, 1, 2, 3, 4):
            args, kwargs = [], {}
            for i, p in enumerate(params):
                if p.kind in (p.VAR_POSITIONAL, p.VAR_KEYWORD):
                    continue
                if i == 0:
                    v = StubCtx()
                elif i == 1:
                    v = "obj"
                elif p.default is not p.empty and not (variant >= 3 and (p.default is None or "dir" in p.name.lower())):
                    continue
                elif "transport" in p.name.lower():
                    v = transport
                else:
                    v = _arg_for(p, variant)
                if p.kind == p.KEYWORD_ONLY:
                    kwargs[p.name] = v
                else:
                    args.append(v)
            try:
                obj = cls(*args, **kwargs)
                if not isinstance(obj, rpc.QMI_RpcObject):
                    return None, "constructor returned %r" % type(obj)
                return obj, None
            except BaseException as e:  # noqa
                msg = "%s: %s" % (type(e).__name__, str(e)[:100])
                if msg not in errors:
                    errors.append(msg)
        if not any("transport" in p.name.lower() for p in params):
            break
    return None, " | ".join(errors[:3])


# ---------------------------------------------------------------------------------------------
# observing the implementation
# ---------------------------------------------------------------------------------------------

def owned_codes(cls):
    """code objects of every python function reachable from the class dictionaries of the MRO"""
    out = {}
    for K in cls.__mro__:
        if K is object:
            continue
        for nm, v in vars(K).items():
            fs = []
            if isinstance(v, types.FunctionType):
                fs = [v]
            elif isinstance(v, (staticmethod, classmethod)):
                fs = [v.__func__] if isinstance(v.__func__, types.FunctionType) else []
            elif isinstance(v, property):
                fs = [f for f in (v.fget, v.fset, v.fdel) if isinstance(f, types.FunctionType)]
            elif isinstance(v, functools.cached_property):
                fs = [v.func] if isinstance(v.func, types.FunctionType) else []
            for f in fs:
                out[f.__code__] = "%s.%s" % (K.__name__, nm)
    return out


class Watch:
    """Records python-level calls into `codes` (code object -> label) while active.  Uses sys.monitoring
    (PY_START armed on exactly these code objects; no overhead elsewhere), else sys.setprofile."""
    _tool = None
    _current = None
    _armed = set()

    def __init__(self, codes):
        self.codes = codes
        self.hits = []
        mon = getattr(sys, "monitoring", None)
        if mon is not None:
            if Watch._tool is None:
                for tid in (4, 3, 5):
                    try:
                        mon.use_tool_id(tid, "c05-watch")
                        Watch._tool = tid
                        break
                    except ValueError:
                        continue
                if Watch._tool is not None:
                    mon.register_callback(Watch._tool, mon.events.PY_START, Watch._cb)
            if Watch._tool is not None:
                for code in codes:
                    if code not in Watch._armed:
                        mon.set_local_events(Watch._tool, code, mon.events.PY_START)
                        Watch._armed.add(code)

    @staticmethod
    def _cb(code, offset):
        w = Watch._current
        if w is not None:
            label = w.codes.get(code)
            if label is not None:
                w.hits.append(label)

    def __enter__(self):
        self.hits = []
        if Watch._tool is not None:
            Watch._current = self
            return self

        def prof(frame, event, arg):
            if event == "call" and frame.f_code in self.codes:
                self.hits.append(self.codes[frame.f_code])
        self._old = sys.getprofile()
        sys.setprofile(prof)
        return self

    def __exit__(self, *a):
        if Watch._tool is not None:
            Watch._current = None
        else:
            sys.setprofile(self._old)


def make_thread(obj):
    rpc = _rpc()[0]
    th = rpc._RpcThread(StubCtx(), lambda: None)
    poke(th, '_rpc_object', obj)
    return th


def request(name, args=(), kwargs=None, token=None):
    rpc, Addr, _, _ = _rpc()
    return rpc.QMI_MethodRpcRequestMessage(Addr("cl", "$f1"), Addr("srv", "obj"), name, tuple(args),
                                           dict(kwargs or {}), token)


def route_a(th, name, watch):
    """_check_and_get_method on the untouched object. -> (kind, detail, executed)"""
    _, _, Unknown, _ = _rpc()
    req = request(name)
    with watch:
        try:
            m = th._check_and_get_method(req)
            r = ("accept", m)
        except Unknown as e:
            msg = str(e)
            r = ("unknown", 1 if msg.startswith("Object ") else 2 if msg.startswith("Method ") else 3)
        except BaseException as e:  # noqa
            r = ("other", type(e).__name__)
    return r[0], r[1], list(watch.hits)


def route_b(th, name, watch, args=(41,), kwargs=None, token=None):
    """_handle_method_rpc_request. -> (kind, detail, executed)   kind: value|unknown|exception|locked|raised|weird"""
    rpc, _, Unknown, _ = _rpc()
    req = request(name, args, {"kw": 1} if kwargs is None else kwargs, token)
    with watch:
        try:
            rep = th._handle_method_rpc_request(req)
        except BaseException as e:  # noqa
            return "raised", type(e).__name__, list(watch.hits)
    hits = list(watch.hits)
    if not (type(rep) is rpc.QMI_MethodRpcReplyMessage and rep.request_id == req.request_id
            and rep.source_address == req.destination_address and rep.destination_address == req.source_address):
        return "weird", repr(rep)[:100], hits
    S = rpc.QMI_RpcFutureState
    if rep.state == S.RESULT_IS_VALUE:
        return "value", rep.result, hits
    if rep.state == S.OBJECT_IS_LOCKED:
        return "locked", None, hits
    if rep.state == S.RESULT_IS_EXCEPTION:
        if type(rep.result) is Unknown:
            return "unknown", str(rep.result)[:60], hits
        return "exception", type(rep.result).__name__, hits
    return "weird", repr(rep.state), hits


CALLS = []


def make_stub(name, is_marked, tag=None):
    def stub(*a, **k):
        CALLS.append((name, a, k, tag))
        return ("stub", name)
    if is_marked:
        stub._rpc_method = True
    return stub


def shield(obj, names, keep_module=None, tag=None):
    """replace every callable attribute by a recording stub carrying the same marker (attributes defined in
    `keep_module` — the generated module, whose bodies only log — are left alone)"""
    n = 0
    for nm in names:
        try:
            v = getattr(obj, nm)
        except BaseException:  # noqa
            continue
        if not callable(v):
            continue
        st = inspect.getattr_static(type(obj), nm, None)
        if isinstance(st, T.DATA_DESCR):
            continue
        if keep_module is not None:
            f = st.__func__ if isinstance(st, (staticmethod, classmethod)) else st
            if isinstance(f, functools.partial):
                f = f.func
            m = getattr(f, "__module__", None)
            if not isinstance(f, (types.FunctionType, type)):
                m = type(f).__module__ if m is None or not isinstance(m, str) else m
            if m == keep_module:
                continue
        try:
            obj.__dict__[nm] = make_stub(nm, bool(getattr(v, "_rpc_method", False)), tag)
            n += 1
        except BaseException:  # noqa
            pass
    return n


def static_marked(obj_or_cls, name):
    """independent reading of `explicitly marked RPC-callable`: the statically resolved attribute (no
    descriptor protocol, no getters) is a function / staticmethod / classmethod / object carrying a truthy
    marker put there by rpc_method"""
    try:
        v = inspect.getattr_static(obj_or_cls, name)
    except AttributeError:
        return False
    except TypeError:
        return False
    if isinstance(v, (staticmethod, classmethod)):
        v = v.__func__
    try:
        return bool(inspect.getattr_static(v, "_rpc_method", False))
    except Exception:  # noqa
        return False


def describe(cls):
    """real make_interface_descriptor -> (code, methods, consts, signals, interface or None)"""
    rpc, _, _, Usage = _rpc()
    try:
        d = rpc.make_interface_descriptor(cls)
    except Usage:
        return 1, [], [], [], None
    except AssertionError:
        return 2, [], [], [], None
    return 0, [m.name for m in d.methods], [c.name for c in d.constants], [s.name for s in d.signals], d


def build_proxy(cls, iface):
    """real QMI_RpcProxy from the real descriptor -> (proxy, ctx) or (None, reason)"""
    rpc, Addr, _, _ = _rpc()
    ctx = StubCtx("cl")
    desc = rpc.RpcObjectDescriptor(address=Addr("srv", "obj"), category=None, interface=iface)
    try:
        return rpc.QMI_RpcProxy(ctx, desc), ctx
    except BaseException as e:  # noqa
        return None, "%s: %s" % (type(e).__name__, str(e)[:80])


def proxy_forwarders(proxy):
    out = []
    for nm, v in vars(proxy).items():
        f = getattr(v, "__func__", None)
        if isinstance(v, types.MethodType) and v.__self__ is proxy and getattr(f, "__code__", None) is not None \
                and f.__code__.co_name == "<lambda>" and f.__code__.co_filename.endswith("rpc.py"):
            out.append(nm)
    return out


def proxy_intact(proxy):
    rpc = _rpc()[0]
    for nm in PROTECTED:
        if nm in vars(proxy):
            return False
        if getattr(type(proxy), nm, None) is not getattr(rpc.QMI_RpcProxy, nm):
            return False
    return True


# ---------------------------------------------------------------------------------------------
# names
# ---------------------------------------------------------------------------------------------

JUNK = ["", " ", "\t", "nonexistent", "no_such_method", "__init__", "__class__", "__dict__", "__del__", "__new__",
        "__getattribute__", "__getattr__", "__setattr__", "__reduce__", "__reduce_ex__", "__call__", "__doc__",
        "__module__", "__weakref__", "__repr__", "__sizeof__", "__subclasshook__", "__init_subclass__",
        "_context", "_name", "rpc_object_descriptor", "_rpc_method", "_rpc_constants", "_qmi_signals",
        "_abc_impl", "__abstractmethods__", "get_category", "release_rpc_object", "_check_is_open",
        "_check_is_closed", "_is_open", "_transport", "_scpi_protocol", "_thread",
        "lock", "unlock", "force_unlock", "is_locked", "get_name", "get_signals",
        "get_name ", " get_name", "GET_NAME", "get_name\x00", "get_name()", "get_name.__call__", "get_name\n",
        "__enter__", "__exit__", "is_open", "open", "close",
        "m\u00e9thode", "\u540d\u524d", "\u0000", "\U0001f600", "\ud800", "a" * 300, "self", "0", "1abc", "a-b", "a.b",
        "mro", "__name__", "__qualname__", "__mro__", "__bases__", "__base__", "__subclasses__", "register",
        "_abc_registry", "__instancecheck__", "__subclasscheck__", "__prepare__", "__text_signature__",
        "__annotations__", "__basicsize__", "__flags__", "_dump_registry"]
class StrSub(str):
    """a str subclass is a string: same outcome as the plain name"""


NONSTRING = [None, 5, 0, True, b"get_name", b"", bytearray(b"open"), ("get_name",), 1.5, float("nan"), ["get_name"],
             {"get_name": 1}, object(), Ellipsis, frozenset(["get_name"])]
EXOTIC_STR = ["x" * 100000, "get_name\x00", "\x00get_name", "\x00", "get\x00name", "__class__", "__dict__", "__init__",
              "__init_subclass__", "__subclasshook__", "__getattribute__", "__setattr__", "__delattr__",
              "__reduce_ex__", "__sizeof__", "__dir__", "__format__", "__new__", "__del__", "__weakref__",
              "__module__", "__doc__", "__slots__", "__mro__", "__bases__", "__globals__", "__code__", "__func__",
              "__self__", "__wrapped__", "get_name.__func__", "get_name.__self__", StrSub("get_name"),
              StrSub("_name"), StrSub("nonexistent")]


def exotic_bucket(ck, th, obj, fq, origin, watch, rep, collect):
    """Fixed bucket: non-string and exotic method names.  Expected outcome, from the property: the unknown-RPC
    error and nothing executed (for a string: unless the name is statically marked on the object)."""
    glog = collect.get("gen_log")
    for ns in NONSTRING + EXOTIC_STR:
        is_str = isinstance(ns, str)
        tname = type(ns).__name__
        shown = repr(ns) if len(repr(ns)) < 60 else repr(ns)[:40] + "...(%d chars)" % len(ns)
        for route in ("A", "B"):
            del CALLS[:]
            if glog is not None:
                del glog[:]
            if route == "A":
                kind, det, ran = route_a(th, ns, watch)
                kind = {"accept": "value", "other": "exception"}.get(kind, kind)
            else:
                kind, det, ran = route_b(th, ns, watch, args=(), kwargs={})
            executed = list(CALLS) + (list(glog) if glog is not None else [])
            ran = [x for x in ran if not x.endswith(".__getattr__")]
            expect_accept = is_str and static_marked(obj, ns)
            ck.count("exotic:%s:%s" % ("str" if is_str else "nonstr", kind))
            ck.note_case((fq, "exotic", shown, route), True)
            if expect_accept:
                if kind != "value":
                    ck.report("exotic-marked-refused:%s" % origin,
                              "request naming %s (a string naming a marked method) on %s gives %s %r"
                              % (shown, fq, kind, det), rep({"name": shown, "route": route}))
                continue
            if kind == "value" or (route == "B" and executed) or ran:
                ck.report("exotic-executes:%s:%s" % (origin, tname),
                          "request with method_name=%s (%s) on %s: %s, executed %r %r" % (shown, tname, fq, kind, executed[:2], ran),
                          rep({"name": shown, "route": route}))
            elif kind in ("raised", "weird", "locked"):
                ck.report("exotic-no-error-reply:%s:%s" % (origin, tname),
                          "request with method_name=%s (%s) on %s gets no proper error reply: %s %r (an exception "
                          "escaping the handler kills the object's worker thread)" % (shown, tname, fq, kind, det),
                          rep({"name": shown, "route": route}))
            elif kind == "exception" and not is_str:
                # outside the property's quantifier ("for all method-name strings"): a name that is not a string is
                # refused, nothing executes, a reply is sent; the class of the refusal (TypeError from hasattr) is an
                # observation only (fixes/C05_nonstring_method_name.diff shows how it could be made uniform)
                ck.count("exotic:nonstr-refused-with:%s" % det)
            elif kind == "exception":
                # rejected, nothing executed, but the caller sees another exception class than unknown-RPC
                ck.report("exotic-wrong-error:%s:%s" % ("str" if is_str else "nonstring", det),
                          "request with method_name=%s (%s) on %s is answered with %s instead of the unknown-RPC "
                          "error (nothing executed)" % (shown, tname, fq, det),
                          rep({"name": shown, "route": route, "error": det}))


def probe_names(ck, cls, obj, advertised_names, rng):
    names = []
    seen = set()

    def add(n):
        if isinstance(n, str) and n not in seen:
            seen.add(n)
            names.append(n)
    src = obj if obj is not None else cls
    try:
        d = list(dir(src))
    except BaseException:  # noqa
        d = []
    for n in d:
        add(n)
    if obj is not None:
        for n in list(vars(obj)):
            add(n)
    for n in advertised_names:
        add(n)
    for n in dir(type(cls)):
        add(n)
    for n in JUNK:
        add(n)
    real = [n for n in d if not n.startswith("__")]
    for n in rng.sample(real, min(8, len(real))):
        for m in (n + " ", n.upper(), "_" + n, n[:-1], n + "_", "__" + n, n + "\u200b", n.lstrip("_")):
            add(m)
    return names


# ---------------------------------------------------------------------------------------------
# one class: run the implementation, the oracle, build the Coq case
# ---------------------------------------------------------------------------------------------

def check_class(ck, tab, cache, origin, rng, demand_equal, collect):
    """origin: 'shipped' | 'generated'.  demand_equal: the oracle demands advertised == accepted.
    Returns the Coq case term and a meta dict (for reports)."""
    cls = tab["cls"]
    fq = "%s.%s" % (cls.__module__, cls.__qualname__)
    dcode, methods, consts, signals, iface = describe(cls)
    meta = {"class": fq, "origin": origin, "desc_code": dcode, "methods": sorted(methods),
            "demand_equal": bool(demand_equal)}

    def rep(extra):
        r = dict(meta)
        r.update(extra)
        if origin == "generated":
            r["gen"] = collect["gen_params"]
        return r

    # -- protected names / descriptor ---------------------------------------------------------
    for p in PROTECTED:
        if p in methods:
            ck.report("protected-advertised:%s:%s" % (origin, p),
                      "the interface descriptor of %s lists the protected name %r as an RPC method" % (fq, p),
                      rep({"name": p}))
    prot_marked = [p for p in PROTECTED if static_marked(cls, p) and
                   isinstance(inspect.getattr_static(cls, p), (types.FunctionType, staticmethod))]
    if prot_marked and dcode == 0:
        ck.report("protected-not-refused:%s:%s" % (origin, prot_marked[0]),
                  "%s marks the protected name %r as rpc_method but make_interface_descriptor does not refuse it"
                  % (fq, prot_marked[0]), rep({"name": prot_marked[0]}))
    if dcode == 1 and not prot_marked:
        ck.report("descriptor-refused-without-cause:%s" % origin,
                  "make_interface_descriptor refuses %s with the protected-name error although the class marks none of "
                  "lock/unlock/force_unlock/is_locked (no object of the class can be created)" % fq, rep({}))
    for nm in methods:
        if not (static_marked(cls, nm) and isinstance(inspect.getattr_static(cls, nm), (types.FunctionType, staticmethod))):
            k = T.resolve(tab, cache, nm)
            ck.report("advertised-unmarked:%s:%s" % (origin, k[0] if k else "nonmember"),
                      "the interface descriptor of %s advertises %r, which is not a function marked with rpc_method "
                      "(kind %s)" % (fq, nm, T.kind_term(k) if k else "not a class member"), rep({"name": nm}))
    # -- proxy ---------------------------------------------------------------------------------
    kproxy = "None"
    if iface is not None:
        proxy, pctx = build_proxy(cls, iface)
        if proxy is None:
            meta["proxy_error"] = pctx
            ck.count("proxy:construction-fails")
        else:
            fw = proxy_forwarders(proxy)
            intact = proxy_intact(proxy)
            kproxy = "(Some (%s, %s))" % (T.coq_names(sorted(fw)), cbool(intact))
            over = [p for p in PROTECTED if p in vars(proxy)]
            if [p for p in over if p in fw]:
                ck.report("proxy-lock-control-overwritten:%s" % origin,
                          "a proxy built from the descriptor of %s has its own lock control %r replaced by forwarding "
                          "RPC methods" % (fq, [p for p in over if p in fw]),
                          rep({"proxy_attrs": sorted(vars(proxy))[:80]}))
            elif over:
                # a constant or a signal carrying a protected name: not an RPC method, outside the statement of
                # C05 (class_ok excludes it for every shipped class); compared with the model, and counted
                ck.count("proxy:lock-control-shadowed-by-constant-or-signal")
            if demand_equal and set(fw) != set(methods):
                ck.report("proxy-methods-differ:%s" % origin,
                          "the proxy of %s forwards %r but the descriptor advertises %r"
                          % (fq, sorted(set(fw) ^ set(methods)), sorted(methods)[:10]), rep({}))
            meta["proxy"] = proxy
            meta["proxy_ctx"] = pctx
    # -- instance -------------------------------------------------------------------------------
    obj, why = try_instantiate(cls)
    if obj is None:
        meta["not_instantiated"] = why
        if dcode == 0:
            collect["not_instantiable"].append((fq, why))
        names = []
    inst_names = []
    probes = []
    if obj is not None:
        collect["instantiated"] += 1
        th = make_thread(obj)
        codes = owned_codes(cls)
        watch = Watch(codes)
        names = probe_names(ck, cls, obj, methods, rng)
        inst_names = [n for n in vars(obj) if isinstance(n, str)]
        extra = sorted(set(inst_names) - T.scanned(tab, cache))
        if extra:
            collect["unscanned_instance_attrs"][fq] = extra
        accepted = []
        for nm in names:
            kind, det, ran = route_a(th, nm, watch)
            ran_f = [x for x in ran if not x.endswith(".__getattr__")]
            k = T.resolve(tab, cache, nm)
            is_prop = k is not None and k[0] in ("KProperty", "KOther")
            ck.count("verdict:" + (kind if kind != "unknown" else "unknown-%s" % {1: "noattr", 2: "notmarked"}.get(det, "?")))
            ck.note_case((fq, nm), kind == "accept" or (k is not None))
            if kind == "accept":
                accepted.append(nm)
                code = 0
                if not static_marked(obj, nm):
                    ck.report("unmarked-accepted:%s:%s" % (origin, k[0] if k else "nonmember"),
                              "request naming %r on %s is accepted although the attribute was never marked with "
                              "rpc_method (kind %s)" % (nm, fq, T.kind_term(k) if k else "not a class member"),
                              rep({"name": nm, "route": "A"}))
                else:
                    try:
                        same = det == getattr(obj, nm)
                    except BaseException:  # noqa
                        same = False
                    if not same:
                        ck.report("wrong-callable:%s" % origin,
                                  "request naming %r on %s would call %r, which is not the object's own attribute"
                                  % (nm, fq, det), rep({"name": nm, "route": "A"}))
            elif kind == "unknown":
                code = 4 if is_prop else det
            else:
                code = 4 if is_prop else 9
                where = (ran_f[0] if (ran_f and origin == "shipped") else "%s:%s" % (origin, k[0] if k else "nonmember"))
                ck.report("wrong-error:%s:%s" % (where, det),
                          "request naming %r on %s is answered with %s instead of the unknown-RPC error%s"
                          % (nm, fq, det, " (hasattr() ran the property getter %s, which raised)" % ran_f[0] if ran_f else ""),
                          rep({"name": nm, "route": "A", "error": det, "executed": ran_f}))
            if ran_f and kind != "other":
                ck.report("getter-runs:%s" % (ran_f[0] if origin == "shipped" else "generated"),
                          "request naming %r on %s runs code of the object although the name is not RPC-callable: "
                          "hasattr()/getattr() in _check_and_get_method evaluate the property getter %s"
                          % (nm, fq, ran_f[0]), rep({"name": nm, "route": "A", "executed": ran_f}))
            probes.append((nm, code))
        # advertised == accepted
        if demand_equal and dcode == 0 and set(accepted) != set(methods):
            diff = sorted(set(accepted) ^ set(methods))
            ck.report("advertised-ne-invocable:%s:%s" % (origin, (T.resolve(tab, cache, diff[0]) or ("nonmember",))[0]),
                      "%s: advertised but not invocable %r; invocable but not advertised %r"
                      % (fq, sorted(set(methods) - set(accepted)), sorted(set(accepted) - set(methods))),
                      rep({"advertised": sorted(methods), "accepted": sorted(accepted)}))
        meta["accepted"] = sorted(accepted)
        # ---- route B --------------------------------------------------------------------------
        acc = set(accepted)
        shield(obj, names, None if origin == "shipped" else cls.__module__)
        glog = collect.get("gen_log")
        for nm in names:
            del CALLS[:]
            if glog is not None:
                del glog[:]
            kind, det, ran = route_b(th, nm, watch)
            executed = list(CALLS) + (list(glog) if glog is not None else [])
            k = T.resolve(tab, cache, nm)
            is_getter_only = bool(ran) and not executed and k is not None and k[0] in ("KProperty", "KOther")
            if nm in acc:
                good = kind in ("value",) and len(executed) == 1 and executed[0][0] == nm
                if origin == "shipped" or (CALLS and good):
                    good = good and det == ("stub", nm) and executed[0][1] == (41,) and executed[0][2] == {"kw": 1}
                if not good:
                    ck.report("handler-accept:%s" % origin,
                              "handler on the accepted name %r of %s: reply %s %r, executed %r (expected exactly one "
                              "call of that method)" % (nm, fq, kind, det, executed[:3]),
                              rep({"name": nm, "route": "B"}))
            else:
                if executed:
                    ck.report("rejected-but-executed:%s:%s" % (origin, k[0] if k else "nonmember"),
                              "request naming %r on %s (not RPC-callable) executed %r" % (nm, fq, executed[:3]),
                              rep({"name": nm, "route": "B"}))
                elif kind != "unknown" and not is_getter_only and not (k is not None and k[0] in ("KProperty", "KOther")):
                    ck.report("handler-reject:%s:%s:%s" % (origin, k[0] if k else "nonmember", kind),
                              "request naming %r on %s (not RPC-callable) is answered with %s %r instead of the "
                              "unknown-RPC error" % (nm, fq, kind, det), rep({"name": nm, "route": "B"}))
        if origin == "shipped" or not (cls.__name__[:1] == "G" and cls.__name__[1:].isdigit()):
            exotic_bucket(ck, th, obj, fq, origin, watch, rep, collect)   # fixed bucket: shipped + fixed classes
        # locked object: nothing runs whatever the name
        rpc = _rpc()[0]
        poke(th, "_locking_token", rpc.QMI_LockTokenDescriptor("other", "tok"))
        for nm in (accepted[:3] + ["nonexistent", "_name"]):
            del CALLS[:]
            if glog is not None:
                del glog[:]
            kind, det, ran = route_b(th, nm, watch)
            if kind != "locked" or CALLS or (glog is not None and glog):
                ck.report("locked-executes:%s" % origin, "locked %s: request %r without token gives %s and executes %r"
                          % (fq, nm, kind, CALLS[:2]), rep({"name": nm, "route": "B-locked"}))
        poke(th, '_locking_token', None)
        # ---- every forwarding method of the real proxy, back through the real handler ---------------
        proxy = meta.get("proxy")
        if proxy is not None:
            pctx = meta["proxy_ctx"]
            for nm in proxy_forwarders(proxy):
                del pctx.sent[:]
                try:
                    getattr(proxy.rpc_nonblocking, nm)(41, kw=1)
                except BaseException as e:  # noqa
                    ck.report("proxy-forward:%s" % origin, "non-blocking proxy call %s.%s raised %r" % (fq, nm, e),
                              rep({"name": nm}))
                    continue
                reqs = [m for m in pctx.sent if type(m) is rpc.QMI_MethodRpcRequestMessage]
                del CALLS[:]
                if glog is not None:
                    del glog[:]
                ok = len(reqs) == 1 and reqs[0].method_name == nm
                if ok:
                    with watch:
                        replym = th._handle_method_rpc_request(reqs[0])
                    executed = list(CALLS) + (list(glog) if glog is not None else [])
                    ok = replym.state == rpc.QMI_RpcFutureState.RESULT_IS_VALUE and len(executed) == 1 \
                        and executed[0][0] == nm
                if not ok and demand_equal:
                    ck.report("proxy-roundtrip:%s" % origin,
                              "calling %s through the real proxy of %s does not execute exactly that method"
                              % (nm, fq), rep({"name": nm}))
                ck.count("proxy-roundtrip")
    else:
        ck.note_case((fq, "static"), True)
    meta.pop("proxy", None)
    meta.pop("proxy_ctx", None)
    ck.count("%s:%s" % (origin, "instantiated" if obj is not None else "static-only"))
    ck.count("descriptor:%s" % {0: "ok", 1: "protected-refused", 2: "assertion"}[dcode])
    term = "(mkCase %s %s [%s] %s %s %s %s %s)" % (
        tab["ident"], T.coq_names(inst_names),
        "; ".join("(%s, %s)" % (T.coq_name(n), cN(c)) for n, c in probes),
        cN(dcode), T.coq_names(methods), T.coq_names(consts), T.coq_names(signals), kproxy)
    meta["n_probes"] = len(probes)
    meta["probes"] = probes
    return term, meta


def _nk(name, k, origin="shipped"):
    """stable key part: the member kind (+ the name for shipped classes) for class members"""
    if k is not None:
        if origin != "shipped":
            return k[0]
        return "%s:%s" % (k[0], name if len(name) < 40 else "long")
    return "nonmember"


# ---------------------------------------------------------------------------------------------
# generated classes
# ---------------------------------------------------------------------------------------------

GEN_PRELUDE = '''# generated by harness/c05.py (seed %(seed)d, %(n)d classes)
import functools
from qmi.core.rpc import QMI_RpcObject, rpc_method
from qmi.core.instrument import QMI_Instrument
from qmi.core.pubsub import QMI_Signal
from qmi.core.task import QMI_Task, QMI_TaskRunner
LOG = []


class R_Task(QMI_Task):
    def run(self):
        pass


class MarkedCallable:
    _rpc_method = True

    def __init__(self, c, n):
        self.c, self.n = c, n

    def __call__(self, *a, **k):
        LOG.append((self.n, self.c))
        return ("ret", self.n)


def _pf(c, n, *a, **k):
    LOG.append((n, c))
    return ("ret", n)


class Mixin:
    def mixed_unmarked(self, *a, **k):
        LOG.append(("mixed_unmarked", "Mixin"))

    @rpc_method
    def mixed_marked(self, *a, **k):
        LOG.append(("mixed_marked", "Mixin"))
        return ("ret", "mixed_marked")

    MIXCONST = 7

'''


# ---------------------------------------------------------------------------------------------
# fixed classes (same in every run): history scenario, protected names through inheritance, mix-ins
# ---------------------------------------------------------------------------------------------
# (class name, bases, [(member, kind)], [instance attributes assigned in __init__])
FIXED_SPEC = [
    # plain mix-ins (not RPC objects themselves)
    ("PMixLock", "", [("lock", "fm"), ("helper_of_mixin", "fu")], []),
    ("PMixForce", "", [("force_unlock", "fm")], []),
    ("MMix", "", [("mixed", "fm"), ("plain", "fu"), ("get_name", "fm"), ("_mixpriv", "fm")], []),
    ("MMix2", "", [("mixed", "fu"), ("plain", "fm")], []),
    # one name, every status: marked / unmarked / property / absent / data / overridden either way / shadowed
    ("H_marked", "QMI_RpcObject", [("ping", "fm"), ("_ping", "fu")], []),
    ("H_unmarked", "QMI_RpcObject", [("ping", "fu"), ("_ping", "fm")], []),
    ("H_property", "QMI_RpcObject", [("ping", "prop"), ("_ping", "prop")], []),
    ("H_absent", "QMI_RpcObject", [], []),
    ("H_data", "QMI_RpcObject", [("ping", "data_int"), ("_ping", "data_none")], []),
    ("H_over_unmarked", "H_marked", [("ping", "fu")], []),
    ("H_over_marked", "H_unmarked", [("ping", "fm")], []),
    ("H_shadow", "H_marked", [], ["ping"]),
    ("H_static", "QMI_RpcObject", [("ping", "sm_in")], []),
    ("H_classm", "QMI_RpcObject", [("ping", "cm_in")], []),
    ("H_instr", "QMI_Instrument", [("ping", "fm"), ("start", "fu")], []),
    # a marked protected name reaching the class through inheritance
    ("P_base", "QMI_RpcObject", [("unlock", "fm"), ("fine", "fm")], []),
    ("P_child", "P_base", [("other", "fm")], []),
    ("P_grandchild", "P_child", [], []),
    ("P_greatgrand", "P_grandchild", [("something", "fu")], []),
    ("P_override_clean", "P_base", [("unlock", "fu")], []),
    ("P_override_clean_child", "P_override_clean", [], []),
    ("P_remarked", "P_override_clean", [("unlock", "fm")], []),
    ("P_clean", "QMI_RpcObject", [("fine", "fm")], []),
    ("P_mix_before", "PMixLock, QMI_RpcObject", [], []),
    ("P_mix_after", "QMI_RpcObject, PMixLock", [], []),
    ("P_mix_before_child", "P_mix_before", [("fine", "fm")], []),
    ("P_mix_mid", "PMixLock, P_clean", [], []),
    ("P_mix_instr", "PMixForce, QMI_Instrument", [], []),
    ("P_mix_instr_after", "QMI_Instrument, PMixForce", [], []),
    ("P_islocked_static", "QMI_RpcObject", [("is_locked", "sm_in")], []),
    ("P_islocked_grand", "P_islocked_static", [("fine", "fm")], []),
    ("P_islocked_classm", "QMI_RpcObject", [("is_locked", "cm_in")], []),
    ("P_lock_lambda_child", "P_clean", [("lock", "lam_m")], []),
    # marked methods coming from mix-ins placed before / after the RPC base
    ("M_before", "MMix, QMI_RpcObject", [], []),
    ("M_after", "QMI_RpcObject, MMix", [], []),
    ("M_before_instr", "MMix, QMI_Instrument", [], []),
    ("M_after_instr", "QMI_Instrument, MMix", [], []),
    ("M_child_over", "M_before", [("mixed", "fu")], []),
    ("M_two", "MMix, MMix2, QMI_RpcObject", [], []),
    ("M_two_rev", "MMix2, MMix, QMI_RpcObject", [], []),
    ("M_after_child_marks", "M_after", [("plain", "fm")], []),
    # classes a context binds to one object name one after the other (proxy acquisition routes)
    ("R_v1", "QMI_RpcObject", [("measure", "fm"), ("reset", "fm"), ("status", "fm"), ("info", "fm"), ("_helper", "fu")], []),
    ("R_v2", "QMI_RpcObject", [("measure", "fm"), ("calibrate", "fm"), ("reset", "fu"), ("status", "prop"),
                               ("info", "data_int"), ("_helper", "fu")], []),
    ("R_v3", "R_v1", [("reset", "fu"), ("extra", "fm")], []),
    ("R_other", "QMI_RpcObject", [("ping", "fm"), ("measure", "fu")], []),
    ("R_i1", "QMI_Instrument", [("read", "fm"), ("zero", "fm")], []),
    ("R_i2", "QMI_Instrument", [("read", "fm"), ("zero", "fu"), ("tune", "fm")], []),
    ("R_t1", "QMI_TaskRunner", [("poke", "fm"), ("nudge", "fu")], []),
    ("R_t2", "QMI_TaskRunner", [("poke", "fu"), ("nudge", "fm")], []),
]


def fixed_source():
    out = []
    names = []
    for C, bases, members, inst in FIXED_SPEC:
        body = [member_src(C, n, k) for n, k in members]
        if inst:
            body.append("    def __init__(self, context, name):\n        super().__init__(context, name)\n%s"
                        % "".join("        self.%s = %d\n" % (x, j + 7) for j, x in enumerate(inst)))
        out.append("class %s%s:\n%s\n" % (C, "(%s)" % bases if bases else "", "".join(body) or "    pass\n"))
        if bases:
            names.append(C)
    out.append("FIXED = [%s]\n\n" % ", ".join(names))
    return "\n".join(out)

MEMBER_NAMES = ["alpha", "beta", "gamma", "delta", "eps", "zeta", "eta", "theta", "iota", "kappa",
                "_priv", "_helper", "__mang", "m\u00e9thode", "open", "close", "get_name", "get_signals",
                "is_open", "measure", "CONST", "sig_a", "sig_b", "__call__", "__enter__", "release_rpc_object"]
RARE_NAMES = ["lock", "unlock", "force_unlock", "is_locked", "address", "rpc_nonblocking", "_lock_token",
              "__getattr__", "get_category", "_name", "__doc__x", "mro", "__name__"]
KINDS = [("fm", 22), ("fu", 16), ("sm_in", 4), ("sm_out", 2), ("su", 3), ("cm_in", 3), ("cm_out", 2), ("cu", 3),
         ("prop", 5), ("data_int", 6), ("data_none", 2), ("lam_u", 2), ("lam_m", 3), ("callobj", 2),
         ("partial", 2), ("nested", 2), ("signal", 3), ("cached", 1)]


def member_src(C, n, kind):
    ln = "_" + C.lstrip("_") + n if (n.startswith("__") and not n.endswith("__")) else n   # name mangling
    body = "        LOG.append((%r, %r))\n        return ('ret', %r)\n" % (ln, C, ln)
    sbody = body
    if kind == "fm":
        # marked methods carry a docstring (as QMI's own do), unmarked ones do not: an override of a documented marked
        # method by an undocumented unmarked one is the shape that docstring / attribute inheritance helpers act on
        return "    @rpc_method\n    def %s(self, *a, **k):\n        \"\"\"Documented RPC method %s of %s.\"\"\"\n%s" % (n, n, C, body)
    if kind == "fu":
        return "    def %s(self, *a, **k):\n%s" % (n, body)
    if kind == "sm_in":
        return "    @staticmethod\n    @rpc_method\n    def %s(*a, **k):\n%s" % (n, sbody)
    if kind == "sm_out":
        return "    @rpc_method\n    @staticmethod\n    def %s(*a, **k):\n%s" % (n, sbody)
    if kind == "su":
        return "    @staticmethod\n    def %s(*a, **k):\n%s" % (n, sbody)
    if kind == "cm_in":
        return "    @classmethod\n    @rpc_method\n    def %s(cls, *a, **k):\n%s" % (n, body)
    if kind == "cm_out":
        return "    @rpc_method\n    @classmethod\n    def %s(cls, *a, **k):\n%s" % (n, body)
    if kind == "cu":
        return "    @classmethod\n    def %s(cls, *a, **k):\n%s" % (n, body)
    if kind == "prop":
        return "    @property\n    def %s(self):\n        return 5\n" % n
    if kind == "data_int":
        return "    %s = 5\n" % n
    if kind == "data_none":
        return "    %s = None\n" % n
    if kind == "lam_u":
        return "    %s = lambda self, *a, **k: LOG.append((%r, %r))\n" % (n, ln, C)
    if kind == "lam_m":
        return "    %s = rpc_method(lambda self, *a, **k: LOG.append((%r, %r)))\n" % (n, ln, C)
    if kind == "callobj":
        return "    %s = MarkedCallable(%r, %r)\n" % (n, C, ln)
    if kind == "partial":
        return "    %s = functools.partial(_pf, %r, %r)\n" % (n, C, ln)
    if kind == "nested":
        return "    class %s:\n        pass\n" % n
    if kind == "signal":
        return "    %s = QMI_Signal([int])\n" % n
    if kind == "cached":
        return "    @functools.cached_property\n    def %s(self):\n        return 7\n" % n
    if kind == "getattr":
        return "    def __getattr__(self, item):\n        raise AttributeError(item)\n"
    raise ValueError(kind)


def gen_source(seed, n):
    rng = random.Random(seed)
    src = [GEN_PRELUDE % {"seed": seed, "n": n}, fixed_source()]
    names = []
    kinds, weights = zip(*KINDS)
    for i in range(n):
        C = "G%d" % i
        r = rng.random()
        if names and r < 0.62:
            base = rng.choice(names[-12:] if rng.random() < 0.7 else names)
        elif r < 0.88:
            base = "QMI_RpcObject"
        else:
            base = "QMI_Instrument"
        bases = base
        if rng.random() < 0.06:
            bases = base + ", Mixin"
        body = []
        used = set()
        nmem = rng.choice([0, 1, 1, 2, 2, 3, 3, 4, 5, 7])
        for _ in range(nmem):
            nm = rng.choice(RARE_NAMES) if rng.random() < 0.07 else rng.choice(MEMBER_NAMES)
            if nm in used:
                continue
            used.add(nm)
            kd = rng.choices(kinds, weights)[0]
            if nm == "__getattr__":
                kd = "getattr"
            if kd == "signal" and not nm.isidentifier():
                kd = "data_int"
            if kd == "signal" and (not nm.isascii() or nm.startswith("__")):
                kd = "data_int"
            if nm in ("__doc__x",):
                nm = "doc_x"
            body.append(member_src(C, nm, kd))
        # instance attributes: assigned in __init__ (present) or in a helper that is never called (absent)
        if rng.random() < 0.35:
            k = rng.choice([1, 1, 2, 3])
            ia = [rng.choice(MEMBER_NAMES[:22] + ["_state", "_cache"]) for _ in range(k)]
            ia = [x for x in ia if not x.startswith("__")]
            lines = "".join("        self.%s = %d\n" % (x, j) for j, x in enumerate(ia))
            body.append("    def __init__(self, context, name):\n        super().__init__(context, name)\n%s" % (lines or "        pass\n"))
        if rng.random() < 0.15:
            x = rng.choice(MEMBER_NAMES[:12])
            body.append("    def _later_%d(self):\n        self.%s = 1\n        self._tmp, self.%s_t = 1, 2\n" % (i, x, x))
        if rng.random() < 0.10:
            cn = rng.choice(["CONST", "CONST", "alpha", "lock", "MISSING"])
            body.append("    _rpc_constants = [%r]\n" % cn)
            if cn == "CONST" and "CONST" not in used:
                body.append("    CONST = 3\n")
        src.append("class %s(%s):\n%s\n" % (C, bases, "".join(body) or "    pass\n"))
        names.append(C)
    src.append("CLASSES = [%s]\n" % ", ".join(names))
    return "".join(src)


UNMARKED_KINDS = ("fu", "su", "cu", "lam_u")


def source_truth_bucket(ck, gmod):
    """'declared RPC-callable' is a fact of the SOURCE: for the fixed classes the harness wrote, a member written without
    rpc_method must not carry the marker once the class exists (the member tables of the model are read from the live
    classes, so a marker that class creation copies onto an unmarked override would otherwise pass as declared)."""
    n = 0
    for C, bases, members, inst in FIXED_SPEC:
        cls = getattr(gmod, C, None)
        if cls is None:
            continue
        for nm, kind in members:
            if kind not in UNMARKED_KINDS:
                continue
            ln = "_" + C.lstrip("_") + nm if (nm.startswith("__") and not nm.endswith("__")) else nm
            if ln not in vars(cls):
                continue
            n += 1
            raw = vars(cls)[ln]
            f = raw.__func__ if isinstance(raw, (staticmethod, classmethod)) else raw
            if bool(getattr(f, "_rpc_method", False)):
                accepted = None
                try:
                    import qmi.core.rpc as R
                    accepted = bool(R.is_rpc_method(getattr(cls, ln)))
                except Exception:  # noqa
                    pass
                ck.report("unmarked-in-source-carries-marker:%s" % kind,
                          "C05 fails on the implementation: %s.%s is written WITHOUT rpc_method in the class body (kind %s, bases %r) "
                          "but carries the RPC marker once the class is created (is_rpc_method=%r): requests naming it are "
                          "executed and it is advertised in the interface descriptor" % (C, ln, kind, bases, accepted),
                          {"class": C, "name": ln, "kind": kind, "bases": bases, "source_truth": True})
    ck.coverage["source_truth_members_checked"] = n


def load_generated(ck_scratch, seed, n):
    modname = "c05gen_%d_%d" % (seed, os.getpid())
    path = os.path.join(ck_scratch, modname + ".py")
    with open(path, "w") as f:
        f.write(gen_source(seed, n))
    if ck_scratch not in sys.path:
        sys.path.insert(0, ck_scratch)
    importlib.invalidate_caches()
    errors = []
    try:
        mod = importlib.import_module(modname)
        return mod, list(mod.FIXED) + list(mod.CLASSES), errors
    except BaseException:  # noqa
        pass
    # some class statement fails (e.g. invalid signal name): build the module class by class
    text = gen_source(seed, n)
    chunks = text.split("\nclass G")
    head = chunks[0]
    glb = {"__name__": modname}
    import linecache
    good_src = head
    classes = []
    for ch in chunks[1:]:
        piece = "\nclass G" + ch
        if piece.lstrip().startswith("class G") and "CLASSES = [" in piece:
            piece = piece[:piece.index("CLASSES = [")]
        trial = good_src + piece
        try:
            code = compile(trial, path, "exec")
            g = {"__name__": modname}
            exec(code, g)
            good_src = trial
            glb = g
        except BaseException as e:  # noqa
            errors.append("%s: %s" % (piece.strip().split("(")[0], "%s: %s" % (type(e).__name__, str(e)[:80])))
    with open(path, "w") as f:
        f.write(good_src)
    linecache.checkcache(path)
    code = compile(good_src, path, "exec")
    mod = types.ModuleType(modname)
    mod.__file__ = path
    sys.modules[modname] = mod
    exec(code, mod.__dict__)
    classes = [v for k, v in mod.__dict__.items() if isinstance(v, type) and k.startswith("G") and k[1:].isdigit()]
    classes.sort(key=lambda c: int(c.__name__[1:]))
    return mod, list(mod.FIXED) + classes, errors



# ---------------------------------------------------------------------------------------------
# fixed bucket: histories over several objects of different classes in one process
# ---------------------------------------------------------------------------------------------
HIST_NAMES = ["ping", "_ping", "get_version", "open", "start", "get_name", "nonexistent", "__class__", "lock"]
HIST_SHIPPED = ["qmi.core.context._ContextRpcObject", "qmi.instruments.dummy.noisy_sine_generator.NoisySineGenerator",
                "qmi.core.task.QMI_TaskRunner"]


def history_bucket(ck, tabs, gtabs, cache, gmod, gen_params=None):
    """Requests to several live objects, interleaved: for every name and every ordered pair of objects (P, Q):
    P, Q, P (marked on one / unmarked, private, property, data, absent, shadowed on the other, both orders;
    refused then asked again; accepted then asked on another object), and for every object and ordered pair of
    names: n1, n2, n1.  The oracle is per request and knows nothing of the history: accepted iff the name is
    statically marked on the target object; exactly that object's method runs, once; otherwise unknown-RPC and
    nothing runs.  -> (Coq hcase terms, number of requests)"""
    LOG = gmod.LOG
    objs = []
    for t in gtabs + tabs:
        cls = t["cls"]
        fq = "%s.%s" % (cls.__module__, cls.__qualname__)
        if not ((cls.__module__ == gmod.__name__ and cls.__name__.startswith("H_")) or fq in HIST_SHIPPED):
            continue
        obj, why = try_instantiate(cls)
        if obj is None:
            # every class of this bucket is constructible on a correct tree
            ck.report("history:object-cannot-be-created", "history bucket: %s cannot be instantiated: %s" % (fq, why),
                      {"origin": "history", "gen": gen_params, "class": fq, "error": why})
            continue
        i = len(objs)
        exp, defcls = {}, {}
        for nm in HIST_NAMES:
            exp[nm] = static_marked(obj, nm)
            st = inspect.getattr_static(obj, nm, None)
            f = st.__func__ if isinstance(st, (staticmethod, classmethod)) else st
            defcls[nm] = getattr(f, "__qualname__", "").split(".")[0]
        inst0 = [n for n in vars(obj) if isinstance(n, str)]
        shipped = cls.__module__ != gmod.__name__
        shield(obj, dir(obj), None if shipped else gmod.__name__, tag=i)
        objs.append({"tab": t, "obj": obj, "fq": fq, "th": make_thread(obj), "watch": Watch(owned_codes(cls)),
                     "exp": exp, "defcls": defcls, "inst0": inst0})
    n = len(objs)
    chunks = []
    for nm in HIST_NAMES:
        seq = []
        for i in range(n):
            for j in range(n):
                if i != j:
                    seq += [(i, nm), (j, nm), (i, nm)]
        chunks.append(seq)
    seq = []
    for i in range(n):
        for n1 in HIST_NAMES:
            for n2 in HIST_NAMES:
                if n1 != n2:
                    seq += [(i, n1), (i, n2), (i, n1)]
    chunks.append(seq)
    terms = []
    total = 0
    recent = []
    ctr = 0
    for seq in chunks:
        observed = []
        for (i, nm) in seq:
            o = objs[i]
            ctr += 1
            del CALLS[:]
            del LOG[:]
            kind, det, ran = route_b(o["th"], nm, o["watch"], args=(ctr,), kwargs={})
            executed = list(CALLS) + list(LOG)
            total += 1
            k = T.resolve(o["tab"], cache, nm)
            ck.note_case(("history", ctr), True)
            ck.count("history:%s" % ("accepted" if kind == "value" else kind))
            here = {"origin": "history", "gen": gen_params, "request": [o["fq"], nm], "position": ctr,
                    "preceding_requests": list(recent[-6:]), "reply": kind, "executed": repr(executed[:3])}
            if o["exp"][nm]:
                ok = kind == "value" and len(executed) == 1 and executed[0][0] == nm
                if ok and len(executed[0]) == 4:
                    ok = executed[0][3] == i and executed[0][1] == (ctr,)
                elif ok:
                    ok = executed[0][1] == o["defcls"][nm]
                if not ok:
                    ck.report("history:marked-name:%s" % ("refused" if kind != "value" else "wrong-execution"),
                              "request %d of a history over %d objects: %r on %s (marked there) gives %s %r and executes "
                              "%r; the same request on a fresh process is accepted and runs exactly that method once"
                              % (ctr, n, nm, o["fq"], kind, det, executed[:3]), here)
                observed.append(0)
            else:
                if kind == "value" or executed or ran:
                    ck.report("history:unmarked-name:%s" % ("accepted" if kind == "value" else "executes"),
                              "request %d of a history over %d objects: %r on %s (not RPC-callable there: %s) gives %s "
                              "and executes %r %r; earlier requests: %r"
                              % (ctr, n, nm, o["fq"], T.kind_term(k) if k else "no such attribute", kind,
                                 executed[:3], ran, recent[-3:]), here)
                    observed.append(0 if kind == "value" else 9)
                elif kind != "unknown":
                    ck.report("history:unmarked-name:%s" % kind,
                              "request %d of a history: %r on %s is answered with %s %r instead of the unknown-RPC "
                              "error" % (ctr, nm, o["fq"], kind, det), here)
                    observed.append(9)
                else:
                    code = 1 if str(det).startswith("Object ") else 2 if str(det).startswith("Method ") else 9
                    observed.append(4 if (k is not None and k[0] in ("KProperty", "KOther")) else code)
            recent.append([o["fq"].split(".")[-1], nm, kind])
        terms.append("(mkHCase [%s] [%s] [%s])" % (
            "; ".join("(%s, %s)" % (o["tab"]["ident"], T.coq_names(o["inst0"])) for o in objs),
            "; ".join("(%d, %s)" % (i, T.coq_name(nm)) for i, nm in seq),
            "; ".join(cN(c) for c in observed)))
    return terms, total, [o["fq"] for o in objs]


# ---------------------------------------------------------------------------------------------
# fixed + seeded bucket: the routes by which a proxy reaches a client, along histories (H3: dsched)
# ---------------------------------------------------------------------------------------------
ROUTE_FAMILIES = {"dev": ["R_v1", "R_v2", "R_v3", "R_other"], "aux": ["R_other", "R_v2", "R_v1"],
                  "ins": ["R_i1", "R_i2"], "tsk": ["R_t1", "R_t2"]}
ROUTE_POOL = ["measure", "reset", "status", "info", "_helper", "calibrate", "extra", "ping", "read", "zero", "tune",
              "poke", "nudge", "get_name", "get_signals", "lock", "unlock", "is_locked", "force_unlock",
              "nonexistent", "__init__", "_name", "rpc_object_descriptor", "release_rpc_object", "get_category"]

ROUTE_FIXED = [
    # the object is replaced by one of another class while the peer connection stays up
    [("create", "dev", "R_v1"), ("lookup", "cli", "by_name", "dev"), ("remove", "dev"), ("create", "dev", "R_v2"),
     ("lookup", "cli", "by_name", "dev"), ("lookup", "srv", "by_name", "dev"), ("served", "cli", "dev"),
     ("served", "srv", "dev"), ("list", "cli"), ("list", "srv")],
    # ... with a disconnect / reconnect in between
    [("create", "dev", "R_v1"), ("lookup", "cli", "by_name", "dev"), ("remove", "dev"), ("reconnect",),
     ("create", "dev", "R_v2"), ("lookup", "cli", "by_name", "dev"), ("reconnect",), ("lookup", "cli", "by_name", "dev")],
    # interleaved with lookups of other names; lookup before the name exists; lookup while it is absent
    [("lookup", "cli", "by_name", "dev"), ("create", "aux", "R_other"), ("create", "dev", "R_v1"),
     ("lookup", "cli", "by_name", "aux"), ("lookup", "cli", "by_name", "dev"), ("remove", "dev"),
     ("lookup", "cli", "by_name", "dev"), ("lookup", "cli", "by_name", "aux"), ("create", "dev", "R_v3"),
     ("lookup", "cli", "by_name", "aux"), ("lookup", "cli", "instrument", "dev"), ("remove", "aux"),
     ("create", "aux", "R_v2"), ("lookup", "cli", "task", "aux"), ("lookup", "cli", "by_name", "dev"),
     ("create", "dev", "R_v2"), ("lookup", "srv", "by_name", "dev"), ("list", "cli")],
    # instruments through get_instrument, tasks through get_task
    [("create", "ins", "R_i1"), ("lookup", "cli", "instrument", "ins"), ("lookup", "srv", "instrument", "ins"),
     ("remove", "ins"), ("create", "ins", "R_i2"), ("lookup", "cli", "instrument", "ins"),
     ("lookup", "srv", "instrument", "ins"), ("served", "cli", "ins"),
     ("create", "tsk", "R_t1"), ("lookup", "cli", "task", "tsk"), ("remove", "tsk"), ("create", "tsk", "R_t2"),
     ("lookup", "cli", "task", "tsk"), ("lookup", "srv", "task", "tsk"), ("list", "cli")],
    # back to the first class; same class again
    [("create", "dev", "R_v1"), ("lookup", "cli", "by_name", "dev"), ("remove", "dev"), ("create", "dev", "R_v2"),
     ("lookup", "cli", "by_name", "dev"), ("remove", "dev"), ("create", "dev", "R_v1"),
     ("lookup", "cli", "by_name", "dev"), ("remove", "dev"), ("create", "dev", "R_v1"),
     ("lookup", "cli", "by_name", "dev"), ("served", "cli", "dev")],
]


def gen_route_history(seed, n):
    rng = random.Random(seed)
    ops = []
    bound = {}
    for _ in range(n):
        k = rng.choices(["create", "remove", "lookup", "served", "list", "reconnect", "swap"],
                        [3, 2, 7, 2, 1, 1, 3])[0]
        name = rng.choice(list(ROUTE_FAMILIES))
        if k == "create":
            ops.append(("create", name, rng.choice(ROUTE_FAMILIES[name])))       # may be a duplicate name: refused
            bound.setdefault(name, ops[-1][2])
        elif k == "remove":
            if name in bound:
                ops.append(("remove", name))
                del bound[name]
        elif k == "swap":
            if name in bound:
                new = rng.choice([c for c in ROUTE_FAMILIES[name] if c != bound[name]] or ROUTE_FAMILIES[name])
                ops.append(("remove", name))
                if rng.random() < 0.3:
                    ops.append(("reconnect",))
                ops.append(("create", name, new))
                bound[name] = new
                ops.append(("lookup", "cli", rng.choice(["by_name", "instrument", "task"]), name))
        elif k == "lookup":
            ops.append(("lookup", rng.choice(["cli", "cli", "srv"]), rng.choice(["by_name", "instrument", "task"]), name))
        elif k == "served":
            ops.append(("served", rng.choice(["cli", "srv"]), name))
        elif k == "list":
            ops.append(("list", rng.choice(["cli", "srv"])))
        else:
            ops.append(("reconnect",))
    return ops


def scenario_routes(s, gmodname, ops):
    """Two real contexts over the fake network (srv hosts the objects, cli is connected to it).  Every proxy is
    checked at the moment it is obtained.  Returns the list of observations, one per op."""
    import logging
    logging.disable(logging.CRITICAL)
    from qmi.core.context import QMI_Context
    from qmi.core.config_defs import CfgQmi, CfgContext
    from qmi.core.rpc import non_blocking_rpc_method_call, make_interface_descriptor, QMI_RpcProxy
    from qmi.core.task import QMI_TaskRunner
    from qmi.core.exceptions import QMI_UnknownRpcException
    from qmi.core.messaging import QMI_MessageHandlerAddress as Addr
    gm = sys.modules[gmodname]
    LOG = gm.LOG
    cfg = CfgQmi(contexts={"srv": CfgContext(tcp_server_port=5001), "cli": CfgContext(tcp_server_port=5002)})
    ctx = {"srv": QMI_Context("srv", cfg), "cli": QMI_Context("cli", cfg)}
    ctx["srv"].start()
    ctx["cli"].start()
    ctx["cli"].connect_to_peer("srv", "127.0.0.1:5001")
    never_probe = {m.name for m in make_interface_descriptor(QMI_TaskRunner).methods} - {"get_name", "get_signals"}
    made = {}        # name -> (proxy returned by make_*, class name)
    obs = []

    def forwarders(px):
        return sorted(n for n, v in vars(px).items() if isinstance(v, types.MethodType) and v.__self__ is px)

    def check_proxy(who, px, name, route):
        """-> dict(forwarders, nonblocking, accepted, pool, problems)"""
        cur = made.get(name)
        fw = forwarders(px)
        fwnb = forwarders(px.rpc_nonblocking)
        pool = [n for n in sorted(set(ROUTE_POOL) | set(fw)) if n not in never_probe]
        accepted, executed_on_reject = [], []
        for nm in pool:
            del LOG[:]
            fut = non_blocking_rpc_method_call(ctx[who], Addr("srv", name), nm, None)
            try:
                fut.wait(timeout=20)
                accepted.append(nm)
            except QMI_UnknownRpcException:
                if LOG:
                    executed_on_reject.append((nm, list(LOG)))
            except BaseException:  # noqa   (the method was found and ran)
                accepted.append(nm)
        direct = None
        if cur is not None:
            direct = sorted(m.name for m in make_interface_descriptor(getattr(gm, cur[1])).methods)
        problems = []
        if fw != fwnb:
            problems.append("blocking and non-blocking proxy differ: %r" % sorted(set(fw) ^ set(fwnb)))
        offered = sorted(set(fw) - never_probe)
        if offered != sorted(accepted):
            problems.append("the proxy offers %r which the object now bound to the name rejects; the object accepts %r "
                            "which the proxy does not offer" % (sorted(set(offered) - set(accepted)),
                                                               sorted(set(accepted) - set(offered))))
        if direct is not None and fw != direct:
            problems.append("the proxy's method list differs from the interface of the current class %s by %r"
                            % (cur[1], sorted(set(fw) ^ set(direct))))
        if executed_on_reject:
            problems.append("rejected names executed: %r" % executed_on_reject[:2])
        if cur is None:
            problems.append("a proxy was handed out for a name that is not bound")
        return {"forwarders": fw, "accepted": accepted, "current": cur[1] if cur else None, "route": route,
                "problems": problems}

    try:
        for op in ops:
            kind = op[0]
            o = {"op": list(op)}
            if kind == "create":
                _, name, cname = op
                K = getattr(gm, cname)
                try:
                    if issubclass(K, QMI_TaskRunner):
                        px = ctx["srv"].make_task(name, gm.R_Task, task_runner=K)
                    elif cname.startswith("R_i"):
                        px = ctx["srv"].make_instrument(name, K)
                    else:
                        px = ctx["srv"].make_rpc_object(name, K)
                    if name in made:
                        o["problems"] = ["a second object was created under a name in use"]
                    made[name] = (px, cname)
                    o["created"] = True
                    o.update(check_proxy("srv", px, name, "make"))           # route 1
                except BaseException as e:  # noqa
                    o["created"] = False
                    o["error"] = type(e).__name__
                    if name not in made:
                        o["problems"] = ["creation of %s as %s failed: %r" % (name, cname, e)]
            elif kind == "remove":
                name = op[1]
                if name in made:
                    ctx["srv"].remove_rpc_object(made.pop(name)[0])
                    o["removed"] = True
            elif kind == "lookup":
                _, who, how, name = op
                f = {"by_name": ctx[who].get_rpc_object_by_name, "instrument": ctx[who].get_instrument,
                     "task": ctx[who].get_task}[how]
                try:
                    px = f("srv." + name)
                except ValueError:
                    px = None
                if px is None:
                    o["found"] = False
                    if name in made:
                        o["problems"] = ["lookup of srv.%s says unknown although the object exists" % name]
                else:
                    o["found"] = True
                    o.update(check_proxy(who, px, name, "%s:%s" % ("local" if who == "srv" else "peer", how)))
            elif kind == "served":
                _, who, name = op
                cp = ctx[who].make_peer_context_proxy("srv")
                d = cp.get_rpc_object_descriptor(name)
                if d is None:
                    o["found"] = False
                    if name in made:
                        o["problems"] = ["$context serves no descriptor for the existing object %s" % name]
                else:
                    o["found"] = True
                    o.update(check_proxy(who, ctx[who].make_proxy(d), name, "served-descriptor:" + who))
            elif kind == "list":
                who = op[1]
                listed = sorted((a, c) for a, c in ctx[who].list_rpc_objects() if a.startswith("srv.") and "$" not in a)
                want = sorted(("srv." + n, c) for n, (_, c) in made.items())
                o["listed"] = listed
                probs = []
                if listed != want:
                    probs.append("list_rpc_objects shows %r, the objects are %r" % (listed, want))
                cp = ctx[who].make_peer_context_proxy("srv")
                for d in cp.get_rpc_object_descriptors():
                    n = d.address.object_id
                    if n.startswith("$"):
                        continue
                    r = check_proxy(who, ctx[who].make_proxy(d), n, "served-descriptors:" + who)
                    probs += ["%s: %s" % (n, p) for p in r["problems"]]
                o["problems"] = probs
            elif kind == "reconnect":
                ctx["cli"].disconnect_from_peer("srv")
                ctx["cli"].connect_to_peer("srv", "127.0.0.1:5001")
            o.setdefault("problems", [])
            obs.append(o)
            s.obs = obs
    finally:
        for c in (ctx["cli"], ctx["srv"]):
            try:
                c.stop()
            except BaseException:  # noqa
                pass
    return obs


def routes_bucket(ck, gmod, gtabs, gen_params, histories):
    """run the histories under dsched (one forked child each); oracle per proxy; -> Coq rcase terms"""
    import dsched
    ident = {t["cls"].__name__: t["ident"] for t in gtabs if t["cls"].__module__ == gmod.__name__}
    jobs = [(scenario_routes, (gmod.__name__, h), dict(strategy="fifo")) for h in histories]
    terms = []
    nprox = 0
    for i, res in enumerate(dsched.run_forked(jobs, nproc=16, wall_timeout=120, extra_modules=(gmod.__name__,))):
        h = histories[i]
        case = {"origin": "routes", "gen": gen_params, "history": [list(o) for o in h]}
        ck.count("routes:history:%s" % res["status"])
        if res["status"] != "ok":
            ck.report("routes:%s" % res["status"],
                      "history of create/remove/lookup over two real contexts does not complete (%s): %s"
                      % (res["status"], str(res.get("trace") or res.get("info"))[-600:]), case)
            continue
        rc = []
        for j, o in enumerate(res["obs"]):
            op = o["op"]
            ck.note_case(("routes", i, j), op[0] in ("lookup", "served", "list", "create"))
            if "forwarders" in o:
                nprox += 1
                ck.count("routes:proxy:%s" % o["route"].split(":")[0])
            if o["problems"]:
                key = "routes:%s:%s" % (op[0], (o.get("route") or "").replace("srv", "").replace("cli", "").strip(":") or "x")
                ck.report(key, "step %d of a history (%s): %s; history so far: %r"
                          % (j, " ".join(map(str, op)), o["problems"][0], [tuple(x) for x in h[:j + 1]][-8:]),
                          dict(case, step=j, observation=o))
            if op[0] == "create":
                rc.append("KCreate %s %s %s" % (T.coq_name(op[1]), ident[op[2]], cbool(o.get("created", False))))
                if o.get("created") and "forwarders" in o:
                    rc.append("KLookup %s (Some %s)" % (T.coq_name(op[1]), T.coq_names(o["forwarders"])))
            elif op[0] == "remove" and o.get("removed"):
                rc.append("KRemove %s" % T.coq_name(op[1]))
            elif op[0] in ("lookup", "served"):
                nm = op[3] if op[0] == "lookup" else op[2]
                rc.append("KLookup %s %s" % (T.coq_name(nm), "(Some %s)" % T.coq_names(o["forwarders"])
                                             if o.get("found") else "None"))
        terms.append("[" + "; ".join(rc) + "]")
    return terms, nprox

# ---------------------------------------------------------------------------------------------
# run
# ---------------------------------------------------------------------------------------------

def parse_bools(txt):
    import re
    m = re.search(r"=\s*\[(.*?)\]\s*:\s*list bool", txt, re.S)
    if not m:
        return None
    return [t == "true" for t in re.findall(r"true|false", m.group(1))]


def run(ck):
    ck.theory_dir = THEORY
    t_start = time.time()
    import logging
    logging.getLogger("qmi").setLevel(logging.CRITICAL)
    ck.trusted = [
        "Coq 8.16.1 kernel (vm_compute for the per-class obligations and for evaluating the model on cases)",
        "hand-written model theories/C05/Model.v (class = MRO of member tables; type/object attribute lookup; "
        "make_interface_descriptor; _check_and_get_method; worker step; proxy construction), tied to /repo by this "
        "run's correspondence on every shipped and generated class",
        "translator harness/translators/t_c05_classes.py (live class objects + python ast scan of method bodies, "
        "fail-closed), validated dynamically against the real handlers on every instantiable class",
        "python harness c05.py: stub context, fake create_transport, synthesized constructor arguments, fake vendor "
        "modules (sys.modules stubs for libraries that are not installed; shared-library loader and "
        "sys.platform shims for two drivers), recording stubs that shield driver method bodies, sys.monitoring "
        "watcher of the code objects of the target's classes",
        "deterministic runtime harness/dsched.py (fake network, cooperative threads) for the proxy acquisition "
        "histories over two real QMI_Context objects",
        "CPython attribute lookup (object.__getattribute__, type.__getattribute__, descriptor protocol), "
        "inspect.getmembers / inspect.isfunction",
    ]
    ck.assumptions = [
        "A1: a property/slot value read on the instance carries no truthy `_rpc_method` attribute (class_ok checks "
        "that no attribute is called `_rpc_method`); A2: values stored in the instance dictionary carry no truthy "
        "`_rpc_method`; A3: instance dictionary names are among the scanned `self.<name> = ...` names plus declared "
        "signals.  All three are checked dynamically on every instantiable class (any accepted name must be "
        "statically marked; vars(obj) is compared with the scan).",
        "the model's names are strings; requests whose method_name is not a str are covered by the fixed "
        "exotic-name bucket only (oracle: unknown-RPC error, nothing executed)",
        "objects of vendor libraries that are not installed are stood in for by FakeVendor objects that, like the "
        "real ones, have no `_rpc_method` attribute",
        "what an accepted method does (its body, its effect on instance attributes within the scanned names) is "
        "outside C05",
    ]
    # ---- translate -------------------------------------------------------------------------------------
    nmod, not_covered = T.walk_qmi()
    ck.coverage["modules_imported"] = nmod
    ck.coverage["modules_not_covered"] = ["%s (%s)" % x for x in not_covered]
    fakes = install_fake_vendor()
    retried = []
    for mname, why in not_covered:
        try:
            importlib.import_module(mname)
            retried.append("%s: imports with fake vendor modules" % mname)
        except BaseException as e:  # noqa
            retried.append("%s: still not importable (%s: %s)" % (mname, type(e).__name__, str(e)[:80]))
    ck.coverage["fake_vendor_modules_installed"] = fakes
    ck.coverage["modules_not_covered_retry_with_fakes"] = retried
    npatched = patch_create_transport()
    shipped = T.shipped_classes()
    cache = {}
    tabs, errs, cache = T.translate(shipped, cache)
    for c, e in errs:
        ck.report("tie:translator:%s" % c.__qualname__,
                  "t_c05_classes cannot translate %s.%s (broken tie): %s" % (c.__module__, c.__qualname__, e),
                  {"broken": "translator t_c05_classes", "class": c.__qualname__, "error": e}, found_input=False)
    os.makedirs(os.path.dirname(GEN), exist_ok=True)
    obligations = T.emit(GEN, tabs, cache, "shipped", True, header="shipped QMI_RpcObject classes")
    ngen = 200 if ck.tier == "quick" else 4000
    gseed = ck.rng.randrange(1 << 30)
    scratch = ck.scratch_dir()
    gmod, gclasses, gerrs = load_generated(scratch, gseed, ngen)
    source_truth_bucket(ck, gmod)
    gtabs, gterrs, cache = T.translate(gclasses, cache)
    T.emit(GEN2, gtabs, cache, "generated", False, header="generated classes, seed %d" % gseed)
    ck.coverage["generated_classes"] = {"seed": gseed, "requested": ngen, "defined": len(gclasses),
                                        "class_statement_failed": gerrs[:10], "translated": len(gtabs),
                                        "translator_refused": ["%s: %s" % (c.__name__, e) for c, e in gterrs][:10]}
    # ---- proofs ------------------------------------------------------------------------------------------
    t0 = time.time()
    ck.build_theory(THEORY, extra_gen=[GEN, GEN2])
    gen_ok = os.path.exists(GEN + "o") and os.path.getmtime(GEN + "o") >= t0 - 1 and \
        "generated obligation file %s" % GEN not in ck.proof_log
    shipped_ok = [True] * len(tabs)
    if not gen_ok:
        T.emit(GEN, tabs, cache, "shipped", False, header="shipped classes (definitions only: an obligation failed)")
        rc, out = common.sh(["timeout", "600", "coqc", "-Q", "theories", "QV", "-Q", "gen", "QVgen", GEN],
                            cwd=common.COQ, env=ck.coq_env())
        vals = parse_bools(ck.model_eval(CORR, "map class_ok shipped")) if rc == 0 else None
        if vals is not None and len(vals) == len(tabs):
            shipped_ok = vals
        else:
            shipped_ok = [False] * len(tabs)
    failing = [t["ident"] for t, ok in zip(tabs, shipped_ok) if not ok]
    ck.add_generated_obligations(len(obligations), sum(shipped_ok), failing)
    ck.coverage["class_ok_obligations"] = {"classes": len(obligations), "discharged": sum(shipped_ok),
                                           "failing": failing,
                                           "class_list": ["%s.%s" % (t["cls"].__module__, t["cls"].__qualname__)
                                                          for t in tabs]}
    if not os.path.exists(GEN2 + "o"):
        raise RuntimeError("generated class tables do not compile:\n" + ck.proof_log[-2000:])
    gok = parse_bools(ck.model_eval(CORR, "map class_ok generated"))
    if gok is None or len(gok) != len(gtabs):
        raise RuntimeError("could not evaluate class_ok on the generated classes")
    ck.coverage["generated_class_ok"] = {"true": sum(gok), "false": len(gok) - sum(gok)}
    ck.coverage["member_kinds_shipped"] = _kind_totals(tabs, cache)
    ck.coverage["member_kinds_generated"] = _kind_totals(gtabs, cache)
    # ---- proxy acquisition routes along histories (two real contexts under dsched; before any thread exists) ----
    gen_params = {"seed": gseed, "n": ngen}
    nrand = 10 if ck.tier == "quick" else 300
    histories = [list(h) for h in ROUTE_FIXED] + [gen_route_history(ck.seed * 131 + i, 22) for i in range(nrand)]
    rterms, nprox = routes_bucket(ck, gmod, gtabs, gen_params, histories)
    ck.coverage["acquisition_routes"] = {"histories": len(histories), "fixed": len(ROUTE_FIXED),
                                         "operations": sum(len(h) for h in histories), "proxies_checked": nprox,
                                         "routes": ["make_rpc_object/make_instrument/make_task return value",
                                                    "get_rpc_object_by_name/get_instrument/get_task local",
                                                    "the same from a peer context over the fake network",
                                                    "$context.get_rpc_object_descriptor(s), list_rpc_objects"]}
    rbad = ck.run_model(CORR, "check_rcase", rterms, "list rcop", shard=8) if rterms else []
    ck.coverage["routes_correspondence_disagreements"] = len(rbad)
    for i in rbad[:2]:
        where = ck.model_eval(CORR, "rc_first_bad [] %s 0" % rterms[i])
        ck.report("corr:routes", "implementation and Coq model (rrun / rlookup) disagree on a history of "
                  "create/remove/lookup: first differing observation %s" % where[:120],
                  {"origin": "routes", "gen": gen_params, "rcase": rterms[i][:3000],
                   "broken": "correspondence C05.Corr.check_rcase"}, found_input=False)
    # ---- implementation runs ---------------------------------------------------------------------------------
    collect = {"instantiated": 0, "not_instantiable": [], "unscanned_instance_attrs": {},
               "gen_params": gen_params, "gen_log": None}
    terms, metas = [], []
    for t, ok in zip(tabs, shipped_ok):
        term, meta = check_class(ck, t, cache, "shipped", ck.rng, True, collect)
        if not ok:
            # the obligation of this class failed: make sure a concrete mismatch, if any, is reported
            meta["class_ok"] = False
        terms.append(term)
        metas.append(meta)
    n_ship_inst = collect["instantiated"]
    ck.coverage["shipped_classes"] = {"total": len(tabs), "instantiated_and_probed": n_ship_inst,
                                      "static_only": len(tabs) - n_ship_inst,
                                      "create_transport_patched_in_modules": npatched,
                                      "static_only_reasons": dict(collect["not_instantiable"]),
                                      "instantiated_with_loader_or_platform_shim": list(SHIMMED)}
    collect["gen_log"] = gmod.LOG
    collect["not_instantiable"] = []
    for t, ok in zip(gtabs, gok):
        term, meta = check_class(ck, t, cache, "generated", ck.rng, ok, collect)
        meta["class_ok"] = ok
        terms.append(term)
        metas.append(meta)
    ck.coverage["generated_instantiated"] = collect["instantiated"] - n_ship_inst
    ck.coverage["instance_attrs_outside_scan"] = collect["unscanned_instance_attrs"]
    for m in (metas[1], metas[len(tabs) // 2], metas[-1]):
        ck.sample({"class": m["class"], "origin": m["origin"], "advertised": m["methods"][:8],
                   "accepted": m.get("accepted", "(not instantiated)")[:8], "probes": m["n_probes"]}, 3)
    # ---- fixed bucket: histories over several objects --------------------------------------------------------
    hterms, nreq, hobjs = history_bucket(ck, tabs, gtabs, cache, gmod, collect["gen_params"])
    ck.coverage["history_bucket"] = {"objects": hobjs, "names": HIST_NAMES, "requests": nreq}
    hbad = ck.run_model(CORR, "check_hcase", hterms, "hcase", shard=2)
    ck.coverage["history_correspondence_disagreements"] = len(hbad)
    for i in hbad[:2]:
        ck.report("corr:history", "implementation and Coq model (sys_run) disagree on a history over several objects "
                  "(chunk %d: %s)" % (i, (HIST_NAMES + ["name pairs"])[i]),
                  {"origin": "history", "chunk": i, "gen": collect["gen_params"],
                   "broken": "correspondence C05.Corr.check_hcase"}, found_input=False)
    # ---- model ---------------------------------------------------------------------------------------------------
    bad = ck.run_model(CORR, "check_case", terms, "case", shard=12)
    ck.coverage["correspondence_disagreements"] = len(bad)
    for i in bad[:3] + bad[-3:]:
        m = metas[i]
        parts = ck.model_eval(CORR, "(check_parts %s, bad_probes %s)" % (terms[i], terms[i]))
        ck.report("corr:%s:%s" % (m["origin"], "-".join(x for x, t in zip(("probes", "descriptor", "proxy"),
                                                                         __import__("re").findall(r"true|false", parts)[:3])
                                                  if t == "false") or "x"),
                  "implementation and Coq model disagree on class %s (probes/descriptor/proxy agree = %s)"
                  % (m["class"], parts[:300]),
                  {"class": m["class"], "origin": m["origin"], "gen": collect["gen_params"], "model": parts[:2000],
                   "broken": "correspondence C05.Corr.check_case", "descriptor": m["methods"],
                   "accepted": m.get("accepted")}, found_input=False)
    ck.coverage["python_s"] = round(time.time() - t_start, 1)
    return ck.finish("one case per (class, name in request); non-trivial = the name is accepted or is a member of "
                     "the class (as opposed to junk that resolves nowhere); distinct by (class, name)",
                     "Theorems are about Model.v for every class table; class_ok is discharged by vm_compute for each "
                     "of the %d shipped QMI_RpcObject classes (tables regenerated from the live classes this run). "
                     "%d shipped classes were instantiated (fake vendor modules where a library is missing) and probed "
                     "through the real _check_and_get_method / _handle_method_rpc_request with every name of dir(obj), "
                     "the metaclass, the descriptor and junk; %d are covered statically only. %d generated + fixed "
                     "classes (%d inside class_ok) went through the same translator and checks. Fixed buckets: "
                     "histories over 14 live objects of different classes (C05_history_independent), marked protected "
                     "names reaching a class through an intermediate base / grandparent / mix-in, marked methods from "
                     "mix-ins before/after the RPC base, non-string and exotic method names; proxy acquisition routes "
                     "(make_* return value, local and peer get_rpc_object_by_name/get_instrument/get_task, descriptors "
                     "served by $context, list_rpc_objects) along create/remove/re-create/reconnect histories over two "
                     "real contexts (C05_lookup_advertises_current, C05_lookup_after_recreate). "
                     % (len(tabs), n_ship_inst, len(tabs) - n_ship_inst, len(gtabs), sum(gok)))


def _kind_totals(tabs, cache):
    tot = {}
    for c, cnt in T.summary(tabs, cache).items():
        for k, v in cnt.items():
            tot[k] = tot.get(k, 0) + v
    return tot


# ---------------------------------------------------------------------------------------------
# replay
# ---------------------------------------------------------------------------------------------

class _Collector:
    """stands for common.Check when a single case is replayed: prints what the oracle reports"""

    def __init__(self):
        self.rng = random.Random(0)
        self.keys = []

    def report(self, key, what, obj, found_input=True):
        import re
        key = re.sub(r"-?\d+", "N", key)
        if key not in self.keys:
            self.keys.append(key)
            print("oracle: [%s] %s" % (key, what))

    def count(self, *a, **k):
        pass

    def note_case(self, *a, **k):
        pass

    def sample(self, *a, **k):
        pass


def replay(rep):
    """Re-run the oracle on the class (or the history bucket) of the stored case, on the tree under test.
    Exit status 1 iff the stored violation key is reported again."""
    import logging
    import shutil
    logging.getLogger("qmi").setLevel(logging.CRITICAL)
    c = rep["case"]
    T.walk_qmi()
    install_fake_vendor()
    patch_create_transport()
    col = _Collector()
    collect = {"instantiated": 0, "not_instantiable": [], "unscanned_instance_attrs": {},
               "gen_params": c.get("gen"), "gen_log": None}
    scratch = os.path.join(os.environ.get("VERIF_SCRATCH", "/var/tmp"), "qmi-verif.C05replay.%d" % os.getpid())
    try:
        cache = {}
        origin = c.get("origin")
        if c.get("source_truth"):
            os.makedirs(scratch, exist_ok=True)
            gmod, classes, _ = load_generated(scratch, 1, 1)
            cls = getattr(gmod, c["class"])
            raw = vars(cls)[c["name"]]
            f = raw.__func__ if isinstance(raw, (staticmethod, classmethod)) else raw
            marked = bool(getattr(f, "_rpc_method", False))
            print("%s.%s (written without rpc_method) carries the marker: %r" % (c["class"], c["name"], marked))
            return 1 if marked else 0
        if origin in ("generated", "history", "routes"):
            os.makedirs(scratch, exist_ok=True)
            gmod, classes, _ = load_generated(scratch, c["gen"]["seed"], c["gen"]["n"])
            collect["gen_log"] = gmod.LOG
        if origin == "routes":
            import dsched
            res = dsched.run_forked([(scenario_routes, (gmod.__name__, [tuple(o) for o in c["history"]]),
                                      dict(strategy="fifo"))], nproc=1, wall_timeout=120,
                                    extra_modules=(gmod.__name__,))[0]
            print("status:", res["status"])
            bad = res["status"] != "ok"
            for j, o in enumerate(res.get("obs") or []):
                line = "%2d %-40s" % (j, " ".join(map(str, o["op"])))
                if "forwarders" in o:
                    line += " bound class %s; proxy offers %r; object accepts %r" % (o["current"], o["forwarders"], o["accepted"])
                elif "found" in o:
                    line += " not found"
                print(line)
                for pr in o["problems"]:
                    bad = True
                    print("     oracle: " + pr)
            if not bad:
                print("oracle: the property holds on this history")
            return 1 if bad else 0
        if origin == "history":
            tabs, _, cache = T.translate(T.shipped_classes(), cache)
            gtabs, _, cache = T.translate([k for k in classes if k.__name__.startswith("H_")], cache)
            for t in tabs + gtabs:
                t["ident"] = "X"
            print("stored case: request %r after %r" % (c.get("request"), c.get("preceding_requests")))
            history_bucket(col, tabs, gtabs, cache, gmod, c.get("gen"))
        else:
            if origin == "generated":
                cls = [k for k in classes if k.__qualname__ == c["class"].split(".")[-1]]
            else:
                cls = [k for k in T.shipped_classes() if "%s.%s" % (k.__module__, k.__qualname__) == c["class"]]
            if not cls:
                print("class %s not found in the tree under test" % c["class"])
                return 2
            _replay_one(cls[0], c, collect["gen_log"])
            tabs, errs, cache = T.translate(cls, cache)
            if errs:
                print("translator refuses the class:", errs[0][1])
                return 1
            tabs[0]["ident"] = "X"
            check_class(col, tabs[0], cache, origin or "shipped", col.rng, c.get("demand_equal", True), collect)
    finally:
        shutil.rmtree(scratch, ignore_errors=True)
    if not col.keys:
        print("oracle: the property holds on this case")
    return 1 if rep.get("key") in col.keys else 0


def _replay_one(cls, c, glog):
    dcode, methods, consts, signals, iface = describe(cls)
    print("class:", c["class"])
    print("make_interface_descriptor:", {0: "ok", 1: "QMI_UsageException (protected name)", 2: "AssertionError"}[dcode])
    print("advertised:", sorted(methods))
    obj, why = try_instantiate(cls)
    if obj is None:
        print("not instantiable:", why)
        return 1 if any(p in methods for p in PROTECTED) else 0
    th = make_thread(obj)
    watch = Watch(owned_codes(cls))
    rc = 0
    names = [c["name"]] if isinstance(c.get("name"), str) else []
    acc = [n for n in dir(obj) if route_a(th, n, watch)[0] == "accept"]
    print("accepted by _check_and_get_method:", sorted(acc))
    if set(acc) != set(methods):
        print("advertised != invocable:", sorted(set(acc) ^ set(methods)))
        if c.get("demand_equal", True):
            rc = 1
        else:
            print("  (generated class outside the side condition class_ok: equality is not demanded)")
    for nm in names:
        kind, det, ran = route_a(th, nm, watch)
        print("request %r -> %s %r; code of the object that ran: %r; statically marked: %s"
              % (nm, kind, det, ran, static_marked(obj, nm)))
        if (kind == "accept" and not static_marked(obj, nm)) or kind == "other" or ran:
            rc = 1
    return rc
