"""C13 — instrument transports never lose, duplicate or reorder bytes.

Correspondence: the real qmi.core.transport.QMI_TcpTransport / QMI_UdpTransport /
QMI_SerialTransport are driven through open / close / read / read_until / read_until_timeout /
discard_read / write with a scripted socket / serial.Serial stand-in and a virtual time.monotonic (only the
names `socket`, `serial`, `time` as seen from qmi.core.transport are replaced).  The Coq model
(theories/C13/Model.v) gets the same device script and call sequence and must produce, per call,
the same bytes / exception class and the same calls on the stand-in (including the settimeout
arguments, i.e. the deadline arithmetic) as SOME policy of the model does (Model.pol: the choices the
property leaves open - returning or timing out when the data is complete but the deadline has
passed, < or <= at the deadline, discard polling once or until empty, open check before or after
the buffer search); the tuning constants (MIN/MAX_PACKET_SIZE per class, serial poll interval) are
read from the live classes on every run and handed to the model.  The property oracle below re-states C13 directly on
the implementation's observations (independent of the model).

Device script = list of events, one consumed per device access:
  ("C", bytes, dt)  bytes arrive after the clock advanced by dt
  ("T", dt)         nothing arrives for dt (socket call times out)
  ("E",)            end of stream (sticky)
Exhausted script = silent device: socket call with timeout t advances the clock by t and times
out, without timeout it never returns (Hang); a short Serial.read takes the fixed 40 ticks.
"""
import itertools
import json
import os
import socket as real_socket

from common import cZ, cN, clist, cbytes, copt

THEORY = "C13"
SER_TICK = 40       # default only; the stand-in uses the timeout the code hands to serial.Serial
T0 = 1000



class Hang(BaseException):
    """The call under test would never return (blocking call on a silent device)."""


class Dev:
    """Script, virtual clock, call log and ground truth shared by the stand-ins."""
    fail_open = None                 # exception the next link establishment (connect / bind / serial.Serial) raises

    def take_open_fault(self):
        e, self.fail_open = self.fail_open, None
        if e is not None:
            self.log.append(("open-failed",))
            raise e

    def __init__(self, events, stream_mode, t0=T0):
        self.ev = [tuple(e) for e in events]
        self.pos = 0
        self.front = None            # remainder of a partially received stream chunk
        self.stream_mode = stream_mode
        self.clock = t0
        self.log = []
        self.handed = bytearray()    # bytes that reached the transport, in order
        self.pend = bytearray()      # serial: arrived at the port, not yet read
        self.blocking = False        # serial: current API call has timeout None
        self.deadline = None         # clock value at which the current API call's timeout expires
        self.marks = []              # "at" / "after": data handed over exactly at / after the deadline
        self.kind = "tcp" if stream_mode else "udp"
        self.ser_tick = None         # ticks a short Serial.read lasts (from serial.Serial(timeout=...))

    def mark(self, data):
        if data and self.deadline is not None:
            if self.clock == self.deadline:
                self.marks.append("at")
            elif self.clock > self.deadline:
                self.marks.append("after")

    def next_event(self, tmo=None):
        if self.front is not None:
            e, self.front = self.front, None
            return e
        if self.pos < len(self.ev):
            e = self.ev[self.pos]
            if e[0] == "E":
                return e            # sticky
            self.pos += 1
            return e
        return None



class LazyDev(Dev):
    """Realistic schedule: packets with absolute arrival times.  Each device access is answered the
    way an OS would (a recv waits at most its timeout; Serial.read(k) waits for k bytes at most
    SER_TICK) and the answer is RECORDED as a plain event, so the run can be replayed from the
    recorded script (self.ev) by the ordinary scripted Dev and by the model."""

    def __init__(self, packets, eof, stream_mode, t0=T0):
        Dev.__init__(self, [], stream_mode, t0)
        self.pk = [(t0 + a, bytes(b)) for a, b in packets]
        self.eof = eof
        self.eof_recorded = False

    def _record(self, e):
        self.ev.append(e)
        self.pos = len(self.ev)
        return e

    def next_event(self, tmo=None):
        if self.front is not None:
            e, self.front = self.front, None
            return e
        if not self.pk:
            if self.eof:
                if not self.eof_recorded:
                    self.ev.append(("E",))
                    self.eof_recorded = True
                return ("E",)
            return None
        a, bs = self.pk[0]
        wait = max(a - self.clock, 0)
        if tmo is None or wait <= tmo:
            self.pk.pop(0)
            return self._record(("C", list(bs), wait))
        return self._record(("T", tmo))

    def serial_event(self, access, k):
        """Bytes reaching the port during this access, as one recorded event (None = exhausted)."""
        if not self.pk:
            return None
        if access != "read" or len(self.pend) >= k:
            horizon = self.clock
        else:
            horizon = self.clock + (self.ser_tick or SER_TICK)
        got, last = bytearray(), self.clock
        while self.pk and self.pk[0][0] <= horizon and (access != "read" or len(self.pend) + len(got) < k
                                                         or self.pk[0][0] <= self.clock):
            a, bs = self.pk.pop(0)
            got += bs
            last = max(last, a)
        if got:
            full = access != "read" or len(self.pend) + len(got) >= k
            return self._record(("C", list(got), (last if full else horizon) - self.clock))
        return self._record(("T", horizon - self.clock))


class FakeSocket:
    def __init__(self, dev, *a):
        self.dev = dev
        self.up = False
        self.tmo = None

    # set-up calls (before connect/bind) are not part of the observed device traffic
    def setsockopt(self, *a):
        pass

    def connect(self, addr):
        self.dev.take_open_fault()
        self.up = True
        self.dev.log.append(("open",))

    def bind(self, addr):
        self.dev.take_open_fault()
        self.up = True
        self.dev.log.append(("open",))

    def settimeout(self, t):
        if not self.up:
            return
        if t is not None:
            if float(t) != int(t):
                raise AssertionError("harness: non-integral timeout %r" % (t,))
            t = int(t)
        self.dev.log.append(("settimeout", t))
        if t is not None and t < 0:
            raise ValueError("Timeout value out of range")
        self.tmo = t

    def setblocking(self, flag):
        self.settimeout(None if flag else 0)

    def close(self):
        self.dev.log.append(("close",))

    def _recv(self, size):
        d = self.dev
        e = d.next_event(self.tmo)
        if e is None:
            if self.tmo is None:
                raise Hang()
            d.clock += max(self.tmo, 0)
            raise (BlockingIOError() if self.tmo == 0 else real_socket.timeout())
        if e[0] == "E":
            return b""
        if e[0] == "T":
            d.clock += e[1]
            raise (BlockingIOError() if self.tmo == 0 else real_socket.timeout())
        bs, dt = bytes(e[1]), e[2]
        d.clock += dt
        if d.stream_mode:
            out, rest = bs[:size], bs[size:]
            if rest:
                d.front = ("C", rest, 0)
            d.handed += out
            d.mark(out)
            return out
        if len(bs) <= size:
            d.handed += bs
            d.mark(bs)
            return bs
        raise OSError("datagram larger than buffer")   # the datagram is lost

    # sending: sendall is the TCP call, sendto(data, transport address) the UDP call
    def sendall(self, data):
        self.dev.log.append(("send", list(data)) if self.dev.kind == "tcp" else ("wrong-send-call", "sendall"))

    def sendto(self, data, addr):
        ok = self.dev.kind == "udp" and tuple(addr) == ("10.0.0.1", 5000)
        self.dev.log.append(("send", list(data)) if ok else ("wrong-send-call", "sendto %r" % (addr,)))
        return len(data)

    def send(self, data):
        part = bytes(data)[:max(1, len(data) // 2)]      # a plain send() may be partial
        self.dev.log.append(("send", list(part)))
        return len(part)

    def recvfrom(self, size):
        self.dev.log.append(("recvfrom", size))
        return self._recv(size), ("10.0.0.1", 5000)

    def recv(self, size):
        self.dev.log.append(("recvfrom", size))          # recv / recvfrom: same observation
        return self._recv(size)


class FakeSerial:
    def __init__(self, dev, *a, **kw):
        self.dev = dev
        dev.take_open_fault()
        tmo = kw.get("timeout")
        if tmo is None or tmo <= 0:
            raise AssertionError("harness: serial.Serial opened without a positive read timeout (%r)" % (tmo,))
        dev.ser_tick = max(1, int(round(1000 * tmo)))     # seconds -> clock ticks of 1 ms
        dev.log.append(("open",))

    def _arrive(self, access="poll", k=0):
        d = self.dev
        if isinstance(d, LazyDev):
            e = d.serial_event(access, k)
            if e is None:
                return
        else:
            if d.pos >= len(d.ev):
                return
            e = d.ev[d.pos]
            d.pos += 1
        if e[0] == "C":
            d.pend += bytes(e[1])
            d.clock += e[2]
        elif e[0] == "T":
            d.clock += e[1]
        # ("E",): serial ports have no end of stream; the event is skipped

    @property
    def in_waiting(self):
        self._arrive()
        self.dev.log.append(("in_waiting",))
        return len(self.dev.pend)

    def read(self, k=1):
        d = self.dev
        silent = (not d.pk if isinstance(d, LazyDev) else d.pos >= len(d.ev)) and len(d.pend) < k
        self._arrive("read", k)
        d.log.append(("read", k))
        if silent:
            d.clock += d.ser_tick
            if d.blocking:
                raise Hang()        # timeout None on a silent port: the read loop never ends
        out = bytes(d.pend[:k])
        del d.pend[:k]
        d.handed += out
        d.mark(out)
        return out

    def reset_input_buffer(self):
        self._arrive()
        self.dev.log.append(("reset",))
        del self.dev.pend[:]

    def close(self):
        self.dev.log.append(("close",))

    def write(self, data):
        self.dev.log.append(("send", list(data)))
        return len(data)


class _Patched:
    """Replace socket / serial / time as seen from qmi.core.transport only."""

    def __init__(self, dev):
        self.dev = dev

    def __enter__(self):
        import qmi.core.transport as tr
        dev = self.dev
        self.tr = tr
        self.saved = (tr.socket, tr.serial, tr.time)

        class SockMod:
            timeout = real_socket.timeout
            def __getattr__(self, name):
                return getattr(real_socket, name)
            def socket(self, *a, **kw):
                return FakeSocket(dev, *a)
            def gethostbyname(self, h):
                return h

        class SerMod:
            def Serial(self, *a, **kw):
                return FakeSerial(dev, *a, **kw)

        class TimeMod:
            def monotonic(self):
                return float(dev.clock)

        tr.socket, tr.serial, tr.time = SockMod(), SerMod(), TimeMod()
        return tr

    def __exit__(self, *a):
        self.tr.socket, self.tr.serial, self.tr.time = self.saved


OPEN_FAULTS = {
    "refused": lambda: ConnectionRefusedError(111, "Connection refused"),
    "unreachable": lambda: OSError(113, "No route to host"),
    "timeout": lambda: real_socket.timeout("timed out"),
    "inuse": lambda: OSError(98, "Address already in use"),
    "ioerror": lambda: OSError(5, "Input/output error"),
    "value": lambda: ValueError("bad port parameter"),
}

EXC = {"QMI_InvalidOperationException": "invalid", "QMI_TimeoutException": "timeout",
       "QMI_EndOfInputException": "eof", "QMI_RuntimeException": "runtime", "ValueError": "value",
       "Hang": "hang"}


def live_constants(tr, kind, dev):
    """The tuning constants of the class under test, read from the live code (never hard-coded)."""
    if kind == "serial":
        tk = dev.ser_tick if dev.ser_tick is not None else max(1, int(round(1000 * tr.QMI_SerialTransport.SERIAL_READ_TIMEOUT)))
        return {"tick": int(tk)}
    cls = tr.QMI_TcpTransport if kind == "tcp" else tr.QMI_UdpTransport
    return {"min": int(cls.MIN_PACKET_SIZE), "max": int(cls.MAX_PACKET_SIZE)}


def class_constants():
    import qmi.core.transport as tr
    return {"tcp": live_constants(tr, "tcp", None), "udp": live_constants(tr, "udp", None),
            "serial": {"tick": max(1, int(round(1000 * tr.QMI_SerialTransport.SERIAL_READ_TIMEOUT)))}}


def impl_run(kind, events, ops, t0=T0, dev=None):
    """Drive the real transport class.  Returns per call:
    (result, calls on the stand-in, transport buffer after the call, #bytes handed so far,
    deadline marks)."""
    if dev is None:
        dev = Dev(events, stream_mode=(kind == "tcp"), t0=t0)
    dev.kind = kind
    obs = []
    with _Patched(dev) as tr:
        if kind == "tcp":
            t = tr.QMI_TcpTransport("10.0.0.1", 5000)
        elif kind == "udp":
            t = tr.QMI_UdpTransport("10.0.0.1", 5000)
        else:
            t = tr.QMI_SerialTransport("/dev/ttyS0", 9600)
        for o in ops:
            dev.log = []
            dev.marks = []
            dev.blocking = (len(o) > 2 and o[2] is None)
            tmo = None if (len(o) < 3 or o[2] is None) else float(o[2])
            dev.deadline = None if tmo is None else dev.clock + int(tmo)
            try:
                if o[0] == "open":
                    r = t.open()
                elif o[0] == "open_fail":
                    dev.fail_open = OPEN_FAULTS[o[1]]()
                    try:
                        r = t.open()
                    finally:
                        dev.fail_open = None
                elif o[0] == "close":
                    r = t.close()
                elif o[0] == "read":
                    r = t.read(o[1], tmo)
                elif o[0] == "read_until":
                    r = t.read_until(bytes(o[1]), tmo)
                elif o[0] == "rut":
                    r = t.read_until_timeout(o[1], tmo)
                elif o[0] == "discard":
                    r = t.discard_read()
                elif o[0] == "write":
                    r = t.write(bytes(o[1]))
                else:
                    raise AssertionError(o)
                if r is None:
                    res = ("none",)
                elif isinstance(r, (bytes, bytearray)):
                    res = ("bytes", list(r))
                else:
                    res = ("other", "returned " + type(r).__name__)
            except Hang:
                res = ("hang",)
            except Exception as e:  # noqa
                n = type(e).__name__
                if o[0] == "open_fail" and ("open-failed",) in dev.log:
                    res = ("openfail", n)       # the class with which a failed link establishment is reported is open
                else:
                    res = (EXC[n],) if n in EXC else ("other", n)
            log = list(dev.log)
            if o[0] == "write":
                # how the socket is put into blocking mode and whether the data goes out in one or several
                # send calls is not the property's business: the observation is the bytes sent, in order
                sends = [c for c in log if c[0] == "send"]
                rest = [c for c in log if c[0] not in ("send", "settimeout")]
                if sends or res == ("none",):      # an accepted write of b"" may legitimately send nothing
                    log = rest + [("send", [b for c in sends for b in c[1]])]
                else:
                    log = rest
            obs.append((res, log, list(bytes(t._read_buffer)), len(dev.handed), list(dev.marks)))
            if res[0] == "hang":
                break
        live = live_constants(tr, kind, dev)
    return obs, bytes(dev.handed), live


# ------------------------------------------------------------------------------------------------
# property oracle on the implementation's observations (does not use the model)
# ------------------------------------------------------------------------------------------------

def oracle(kind, events, ops, obs, handed):
    """Return a list of (key, description); empty = C13 holds on this history."""
    bad = []
    acct = 0          # bytes of `handed` already returned to the caller or discarded
    is_open = False
    sent, accepted = [], []
    for i, (o, (res, calls, bufafter, nh, _marks)) in enumerate(zip(ops, obs)):
        name = {"rut": "read_until_timeout", "discard": "discard_read"}.get(o[0], o[0])

        def flag(what, detail=""):
            bad.append(("oracle:%s:%s:%s" % (kind, name, what),
                        "%s call #%d %r: %s %s" % (kind, i, o, what, detail)))
        if res[0] == "other":
            flag("unexpected outcome", res[1])
            break
        # write path: only write sends, exactly once, exactly the caller's bytes
        sends = [c for c in calls if c[0] in ("send", "wrong-send-call")]
        sent += sends
        if o[0] == "write":
            if res == ("none",):
                accepted.append(("send", list(o[1])))
                if sends != [("send", list(o[1]))]:
                    flag("written bytes did not reach the device unchanged", repr(sends))
            elif sends:
                flag("refused write reached the device", repr(sends))
        elif sends:
            flag("an operation other than write sent data to the device", repr(sends))
        avail = bytes(handed[acct:nh])          # what the transport holds if nothing was lost
        before = bytes(handed[acct:obs[i - 1][3]]) if i > 0 else b""
        if o[0] == "open_fail":
            # an attempt to open while the link cannot be established (refused, unreachable, port in use, ...)
            if is_open:
                if res != ("invalid",) or calls:
                    flag("open of an open transport not refused", repr((res, calls)))
            elif res[0] != "openfail":
                flag("open reported %r although the link could not be established" % (res,), repr(calls))
            elif not bufafter:
                acct = nh   # an attempt to open may already have emptied the buffer (as a successful open does)
            continue        # the transport stays as it was: closed after a failed open
        if not is_open:
            if calls and o[0] != "open":
                flag("closed transport touched the device", repr(calls))
            if o[0] == "open":
                if res != ("none",):
                    flag("open of a closed transport failed", repr(res))
                else:
                    is_open = True
                    if kind != "serial":
                        acct = nh           # _open_transport starts with an empty buffer
            elif o[0] == "close":
                if res != ("invalid",):
                    flag("close of a closed transport not refused", repr(res))
            elif o[0] == "read_until" and res[0] == "bytes":
                pass                        # served from the buffer without the device (allowed)
            elif res != ("invalid",):
                flag("operation on a closed transport not refused", repr(res))
        else:
            if o[0] == "open":
                if res != ("invalid",) or calls:
                    flag("open of an open transport not refused", repr((res, calls)))
            elif o[0] == "close":
                if res != ("none",):
                    flag("close of an open transport failed", repr(res))
                is_open = False
            elif res == ("invalid",):
                flag("operation on an open transport refused")
            elif o[0] == "write" and res != ("none",):
                flag("write on an open transport failed", repr(res))
        if res[0] == "bytes":
            r = bytes(res[1])
            if bytes(handed[acct:acct + len(r)]) != r:
                flag("returned bytes are not the next bytes of the stream",
                     "got %r expected %r" % (list(r), list(handed[acct:acct + len(r)])))
                break
            acct += len(r)
            if o[0] == "read" and len(r) != o[1]:
                flag("read returned a different number of bytes than requested", "%d" % len(r))
            if o[0] == "rut" and len(r) > o[1]:
                flag("returned more bytes than requested", "%d > %d" % (len(r), o[1]))
            if o[0] == "read_until":
                tm = bytes(o[1])
                if len(tm) >= 1 and not (r.endswith(tm) and r.find(tm) == len(r) - len(tm)):
                    flag("result is not the shortest data ending with the terminator", repr(list(r)))
        elif o[0] == "discard" and res == ("none",):
            acct = nh
        # a terminator / byte count already buffered must be served
        if is_open and res[0] in ("timeout", "eof"):
            if o[0] == "read_until" and len(o[1]) >= 1 and bytes(o[1]) in before:
                flag("terminator already buffered but not returned")
            if o[0] == "read" and len(before) >= o[1]:
                flag("enough bytes already buffered but not returned")
        # the buffer holds exactly the bytes handed over and not yet returned (nothing lost,
        # duplicated or reordered; in particular a timed-out call consumed nothing)
        if bytes(bufafter) != bytes(handed[acct:nh]):
            flag("buffer differs from the bytes received and not yet returned",
                 "buffer %r expected %r" % (bufafter, list(handed[acct:nh])))
            break
    if sent != accepted and not any("write" in k or "sent data" in k for k, _ in bad):
        bad.append(("oracle:%s:write:device did not receive exactly the accepted writes in order" % kind,
                    "%s: sent %r, accepted writes %r" % (kind, sent, accepted)))
    return bad


# ------------------------------------------------------------------------------------------------
# Coq terms
# ------------------------------------------------------------------------------------------------

def c_ev(e):
    if e[0] == "C":
        return "Chunk %s %s" % (cbytes(e[1]), cZ(e[2]))
    if e[0] == "T":
        return "TimeoutEv %s" % cZ(e[1])
    return "Eof"


def c_tmo(t):
    return copt(t, cZ)


def c_op(o):
    if o[0] == "open":
        return "OpOpen"
    if o[0] == "close":
        return "OpClose"
    if o[0] == "read":
        return "OpRead %s %s" % (cN(o[1]), c_tmo(o[2]))
    if o[0] == "read_until":
        return "OpReadUntil %s %s" % (cbytes(o[1]), c_tmo(o[2]))
    if o[0] == "rut":
        return "OpRut %s %s" % (cN(o[1]), c_tmo(o[2]))
    if o[0] == "write":
        return "OpWrite %s" % cbytes(o[1])
    return "OpDiscard"


def c_res(r):
    if r[0] == "bytes":
        return "RBytes %s" % cbytes(r[1])
    return {"none": "RNone", "invalid": "RInvalid", "timeout": "RTimeout", "eof": "REof",
            "runtime": "RRuntime", "value": "RValue", "hang": "RHang"}.get(r[0], "RBytes [99999]%N")  # 'other': matches nothing


def c_call(c):
    if c[0] == "settimeout":
        return "DSetTmo %s" % c_tmo(c[1])
    if c[0] == "send":
        return "DSend %s" % cbytes(c[1])
    if c[0] in ("recvfrom", "read"):
        return "%s %s" % ({"recvfrom": "DRecvFrom", "read": "DRead"}[c[0]], cN(c[1]))
    return {"open": "DOpen", "close": "DClose", "in_waiting": "DInWaiting", "reset": "DReset"}.get(c[0], "DRead 99999%N")


def coq_case(kcode, events, ops, obs, t0=T0):
    ops2, obs2 = [], []
    for i, o in enumerate(ops):
        if o[0] == "open_fail":
            if i < len(obs) and obs[i][0] == ("invalid",):
                ops2.append(("open",))
                obs2.append(obs[i])
            elif i >= len(obs):
                ops2.append(("open",))
            continue
        ops2.append(o)
        if i < len(obs):
            obs2.append(obs[i])
    ops, obs = ops2, obs2
    return "(%s, %s, %s, %s, %s)" % (
        kcode, cZ(t0), clist([c_ev(e) for e in events]), clist([c_op(o) for o in ops]),
        clist(["(%s, %s)" % (c_res(x[0]), clist([c_call(c) for c in x[1]])) for x in obs]))


# ------------------------------------------------------------------------------------------------
# generators
# ------------------------------------------------------------------------------------------------

ALPHA = [10, 13, 65, 66, 67]
TMOS = [None, 0, 0, 1, 3, 5, 10, 10, 50, 100]


def gen_stream(rng, n):
    return bytes(rng.choice(ALPHA) for _ in range(n))


def packetise(rng, data, mode):
    if not data:
        return []
    if mode == "whole":
        return [data]
    if mode == "single":
        return [data[i:i + 1] for i in range(len(data))]
    cuts = sorted(set(rng.randint(1, len(data)) for _ in range(rng.randint(1, max(1, len(data) // 3)))))
    out, p = [], 0
    for c in cuts + [len(data)]:
        if c > p:
            out.append(data[p:c])
            p = c
    return out


def gen_events(rng, kind, data, mode):
    ev = []
    for pk in packetise(rng, data, mode):
        if rng.random() < 0.25:
            ev.append(("T", rng.choice([0, 1, 5, 10, 40, 100])))
        ev.append(("C", list(pk), rng.choice([0, 0, 0, 1, 2, 5, 10, 40, 60])))
    if kind == "udp" and ev and rng.random() < 0.08:
        ev.insert(rng.randrange(len(ev) + 1), ("C", [], 0))      # empty datagram
    r = rng.random()
    if kind == "tcp" and r < 0.3:
        ev.append(("E",))
    elif r < 0.6:
        ev.append(("T", rng.choice([0, 5, 100])))
    return ev


def gen_term(rng, data):
    k = rng.choice([1, 1, 2, 2, 3])
    if data and len(data) >= k and rng.random() < 0.8:
        p = rng.randrange(len(data) - k + 1)
        return list(data[p:p + k])
    return [rng.choice(ALPHA + [59]) for _ in range(k)]


def gen_ops(rng, data, nops, wild):
    ops = []
    if rng.random() < 0.93:
        ops.append(("open",))
    approx = max(1, len(data) // max(1, nops))
    for _ in range(nops):
        k = rng.choices(["read", "read_until", "rut", "discard", "close", "open", "write"],
                        weights=[5, 6, 4, 1, 0.6 if not wild else 2, 0.4 if not wild else 2, 1.5])[0]
        tmo = rng.choice(TMOS)
        if rng.random() < 0.02:
            tmo = -1
        if k in ("read", "rut"):
            n = rng.choice([0, 1, 2, 3, approx, approx + 1, 2 * approx, rng.randint(0, max(1, len(data))),
                            len(data) + 5])
            ops.append((k, n, tmo))
        elif k == "read_until":
            ops.append((k, gen_term(rng, data), tmo))
        elif k == "write":
            ops.append((k, [rng.randrange(256) for _ in range(rng.choice([0, 1, 1, 2, 3, 6]))]))
        else:
            ops.append((k,))
    return ops


def gen_realistic(rng, kind, thorough):
    """Packets with absolute arrival times answered like an OS would; returns the recorded script."""
    n = rng.choice([1, 2, 5, 10, 20, 40, 80]) if not thorough else rng.choice([1, 5, 20, 80, 300])
    data = gen_stream(rng, rng.randint(1, n))
    pk, t = [], 0
    for b in packetise(rng, data, rng.choice(["whole", "single", "random", "random"]) if len(data) <= 60 else "random"):
        t += rng.choice([0, 0, 1, 2, 4, 5, 6, 10, 39, 40, 41, 100])
        pk.append((t, b))
    ops = gen_ops(rng, data, rng.randint(1, 10), wild=False)
    dev = LazyDev(pk, eof=(kind == "tcp" and rng.random() < 0.3), stream_mode=(kind == "tcp"))
    impl_run(kind, None, ops, dev=dev)
    ev = list(dev.ev)
    at = dev.clock
    for a, b in dev.pk:                      # packets nobody asked for yet
        ev.append(("C", list(b), max(a - at, 0)))
        at = max(at, a)
    return ev, ops


def gen_deadline_cases():
    """Second packet arriving just before / exactly at / just after the deadline of the call."""
    out = []
    for kind in ("tcp", "udp", "serial"):
        for T in (5, 40):
            for d, rel in ((T - 1, "before"), (T, "at"), (T + 1, "after")):
                ev = [("C", [65, 66], 2), ("C", [67, 59, 68], d - 2)]
                for o in (("read", 4, T), ("read_until", [67, 59], T), ("rut", 4, T), ("rut", 3, T)):
                    out.append((kind, ev, [("open",), o, ("rut", 9, 0)], "deadline-" + rel))
                    out.append((kind, ev, [("open",), o, ("read", 1, T), ("discard",), ("rut", 9, 0)],
                                "deadline-" + rel))
    return out


def gen_poll_cases():
    """Zero-timeout polling: data already waiting at the device (dt = 0), or turning up one tick after
    the poll started (dt = 1); enough for the request, or only part of it."""
    out = []
    for kind in ("tcp", "udp", "serial"):
        for dt, tag in ((0, "poll0-data-waiting"), (1, "poll0-data-just-after")):
            for data in ([65, 66, 59, 67, 68], [65, 66]):
                for split in (False, True):
                    ev = ([("C", data[:1], dt), ("C", data[1:], 0)] if split else [("C", data, dt)])
                    for o in (("read", 3, 0), ("read_until", [66, 59], 0), ("read_until", [66], 0),
                              ("rut", 3, 0), ("rut", 9, 0)):
                        out.append((kind, ev, [("open",), o, ("rut", 9, 0), ("rut", 9, 5)], tag))
                        out.append((kind, ev, [("open",), o, o, o, ("rut", 9, 5)], tag))
    return out


def gen_cases(ck):
    rng = ck.rng
    cases = []
    thorough = ck.tier != "quick"
    cdir = os.path.join(os.path.dirname(os.path.dirname(os.path.abspath(__file__))), "corpus", "C13")
    if os.path.isdir(cdir):                 # minimised past failures run first
        for fn in sorted(os.listdir(cdir)):
            if fn.endswith(".json"):
                with open(os.path.join(cdir, fn)) as f:
                    c = json.load(f)["case"]
                cases.append((c["kind"], [tuple(e) for e in c["events"]], [tuple(o) for o in c["ops"]], "corpus"))
    # link establishment fails (any class of error), then the same object is used again: it must still read closed
    for kind, faults in (("tcp", ("refused", "unreachable", "timeout", "value")), ("udp", ("inuse", "ioerror")),
                         ("serial", ("ioerror", "value"))):
        for fl in faults:
            after = [("read", 1, 0), ("read_until", [10], 0), ("rut", 2, 0), ("discard",), ("write", [65]), ("close",)]
            cases.append((kind, [("C", [65, 66, 10, 67], 0)], [("open_fail", fl)] + after, "failed-open"))
            cases.append((kind, [("C", [65, 66, 10, 67], 0)],
                          [("open_fail", fl), ("open",), ("read", 2, 5), ("close",), ("open_fail", fl), ("read", 1, 0), ("open",),
                           ("open_fail", fl), ("read_until", [10], 5)], "failed-open"))
    # the witness of the known UDP defect, and fixed boundary cases
    cases.append(("udp", [("C", list(range(65, 75)), 1)], [("open",), ("rut", 4, 0)], "fixed"))
    cases.append(("tcp", [("C", list(range(65, 75)), 0)], [("open",), ("rut", 4, 0), ("read", 6, 0)], "fixed"))
    cases.append(("tcp", [("C", [65, 13], 0), ("C", [10, 66, 13, 10], 3)],
                  [("open",), ("read_until", [13, 10], 5), ("read_until", [13, 10], 5)], "fixed"))
    cases.append(("serial", [("C", [65, 13], 0), ("C", [10, 66, 13, 10], 3)],
                  [("open",), ("read_until", [13, 10], 100), ("read_until", [13, 10], 100)], "fixed"))
    # big packets around the live chunk sizes: TCP read_until receives at most MAX_PACKET_SIZE per call; UDP
    # datagrams up to min(MIN,MAX)_PACKET_SIZE (and one over, which is lost by design)
    cc = class_constants()
    tmax = max(1, cc["tcp"]["max"])
    ubound = max(1, min(cc["udp"]["min"], cc["udp"]["max"]))
    ck.coverage["live_constants"] = cc
    for size in (tmax - 1, tmax, tmax + 1, 2 * tmax + 76):
        d = gen_stream(rng, size)
        cases.append(("tcp", [("C", list(d), 0), ("C", [65, 59], 1)],
                      [("open",), ("read_until", [59], 10), ("read", 3, 0)], "big"))
    for size in (ubound - 1, ubound, ubound + 1):
        d = gen_stream(rng, size)
        cases.append(("udp", [("C", [65, 66], 0), ("C", list(d), 0), ("C", [67, 59], 1)],
                      [("open",), ("read", 1, 5), ("read", 10, 5), ("read_until", [59], 10), ("discard",)], "big"))
    # exhaustive small scope: stream "AB;C", every packetisation into <=3 chunks, short op sequences
    small_ops = [("read", 1, 0), ("read", 3, 5), ("read_until", [66, 59], 5), ("read_until", [59], 0),
                 ("rut", 2, 0), ("rut", 5, 5), ("discard",), ("close",), ("open",), ("write", [7, 0, 255])]
    data = bytes([65, 66, 59, 67])
    splits = [[data], [data[:1], data[1:]], [data[:2], data[2:]], [data[:3], data[3:]],
              [data[:1], data[1:2], data[2:]], [data[:2], data[2:3], data[3:]]]
    for kind in ("tcp", "udp", "serial"):
        for sp in splits:
            for late in (0, 7):
                ev = [("C", list(p), late if j else 0) for j, p in enumerate(sp)]
                for seq in itertools.product(small_ops, repeat=2):
                    cases.append((kind, ev, [("open",)] + list(seq), "exhaustive"))
    cases += gen_deadline_cases()
    cases += gen_poll_cases()
    for _ in range(1500 if not thorough else 25000):
        kind = rng.choice(["tcp", "udp", "serial"])
        ev, ops = gen_realistic(rng, kind, thorough)
        cases.append((kind, ev, ops, "realistic"))
    nrand = 3500 if not thorough else 50000
    for _ in range(nrand):
        kind = rng.choice(["tcp", "tcp", "udp", "udp", "serial", "serial"])
        n = rng.choice([0, 1, 2, 5, 10, 20, 40, 80, 150]) if not thorough else rng.choice([0, 1, 5, 20, 80, 300, 800])
        data = gen_stream(rng, rng.randint(0, n))
        mode = rng.choice(["whole", "single", "random", "random", "random"])
        if mode == "single" and len(data) > 60:
            mode = "random"
        ev = gen_events(rng, kind, data, mode)
        ops = gen_ops(rng, data, rng.randint(1, 12), wild=rng.random() < 0.15)
        cases.append((kind, ev, ops, "random"))
    return cases


# ------------------------------------------------------------------------------------------------

LIVE = {}      # kind -> constants seen in the last run of that kind (read from the live class)


def evaluate(kind, ev, ops):
    obs, handed, live = impl_run(kind, ev, ops)
    LIVE[kind] = live
    return obs, handed, oracle(kind, ev, ops, obs, handed)


def kcode_of(kind, live):
    if kind == "serial":
        return "(KSerial %s)" % cZ(live["tick"])
    return "(KSock %s %s %s)" % ("true" if kind == "tcp" else "false", cN(live["min"]), cN(live["max"]))


def shrink(kind, ev, ops, key):
    """Delta-debug ops then events while the oracle still reports `key`."""
    def still(e, o):
        try:
            _, _, bad = evaluate(kind, e, o)
        except Exception:  # noqa
            return False
        return any(k == key for k, _ in bad)
    for _ in range(2):
        i = 0
        while i < len(ops):
            t = ops[:i] + ops[i + 1:]
            if still(ev, t):
                ops = t
            else:
                i += 1
        i = 0
        while i < len(ev):
            t = ev[:i] + ev[i + 1:]
            if still(t, ops):
                ev = t
            else:
                i += 1
    return ev, ops


def jsonable(kind, ev, ops, obs=None):
    d = {"kind": kind, "events": [list(e) for e in ev], "ops": [list(o) for o in ops], "t0": T0}
    if obs is not None:
        d["impl"] = [{"result": list(x[0]), "device_calls": [list(c) for c in x[1]], "buffer_after": x[2]}
                     for x in obs]
    return d


def run(ck):
    ck.theory_dir = THEORY
    ck.build_theory(THEORY)
    ck.trusted = [
        "Coq 8.16.1 kernel (vm_compute used to evaluate the model on cases; no native_compute)",
        "hand-written model theories/C13/Model.v of the socket and serial read loops, tied to /repo by this run's correspondence",
        "python harness c13.py: scripted socket / serial.Serial stand-ins and virtual clock (they DEFINE what a device "
        "schedule is: one event per device access; exhausted script = silent device), canonicalisation of results",
        "OS sockets: TCP = reliable FIFO byte stream or orderly close; UDP = whole datagrams within the receive size; "
        "pyserial read(k) returns at most k bytes",
    ]
    ck.assumptions = [
        "UDP datagrams are at most min(MIN_PACKET_SIZE, MAX_PACKET_SIZE) of QMI_UdpTransport (read live; 4096 at the "
        "pin: documented limit of the transport); larger ones are lost by design",
        "the serial stand-in's short read lasts round(1000 * timeout handed to serial.Serial) clock ticks (live value)",
        "of a write only the bytes sent, in order, are observed (not settimeout calls or the number of send calls)",
        "byte counts are >= 0; timeouts are None or integers of clock ticks (float arithmetic on them is exact)",
        "write() and the VXI-11 / USBTMC / GPIB transports are outside the property",
        "a zero-length UDP datagram is reported by the code as end of input; modelled as such",
    ]
    cases = gen_cases(ck)
    terms, metas = [], []
    for kind, ev, ops, gk in cases:
        obs, handed, bad = evaluate(kind, ev, ops)
        results = [x[0][0] for x in obs]
        nontrivial = any(r == "bytes" for r in results) and len(handed) > 0
        ck.note_case((kind, ev, ops), nontrivial)
        ck.count("gen:" + gk)
        ck.count("kind:" + kind)
        for r in results:
            ck.count("result:" + r)
        for o in ops[:len(obs)]:
            ck.count("op:" + o[0])
        if gk.startswith("deadline-") or gk.startswith("poll0-"):
            ck.count("bucket:%s:%s:%s" % (gk, kind, ops[1][0]))
        prev_nh = 0
        for o, x in zip(ops, obs):
            if o[0] in ("read", "read_until", "rut"):
                if o[2] == 0 and x[3] > prev_nh:
                    ck.count("dyn:poll0-received-data:%s:%s" % (kind, o[0]))
                for m in set(x[4]):
                    ck.count("dyn:data-%s-deadline:%s:%s" % (m, kind, o[0]))
            prev_nh = x[3]
        ck.count("stream:%s" % ("0" if not handed else "1-9" if len(handed) < 10 else "10-99" if len(handed) < 100 else "100+"))
        for key, what in bad:
            if any(v.key == key for v in ck.violations):
                continue
            if ck.known_open(key) is None:
                sev, sops = shrink(kind, ev, ops, key)
                sobs, _, sbad = evaluate(kind, sev, sops)
                what = next((w for k, w in sbad if k == key), what)
                ck.report(key, "C13 fails on the implementation: " + what, jsonable(kind, sev, sops, sobs))
            else:
                ck.report(key, "C13 fails on the implementation: " + what, jsonable(kind, ev, ops, obs))
        kcode = kcode_of(kind, LIVE[kind])
        terms.append(coq_case(kcode, ev, ops, obs))
        metas.append((kind, ev, ops, obs, bool(bad), kcode))
    for m in (metas[2], metas[len(metas) // 2], metas[-1]):
        ck.sample(jsonable(m[0], m[1], m[2], m[3]), 3)
    # 1. the pinned policy; 2. for the cases it does not explain, membership in the allowed outcomes (any policy)
    off_pin = ck.run_model("C13.Corr", "check_case_pinned", terms, "case", shard=250)
    ck.coverage["cases_needing_a_non_pinned_policy"] = len(off_pin)
    bad_sub = ck.run_model("C13.Corr", "check_case", [terms[i] for i in off_pin], "case", shard=40) if off_pin else []
    bad_idx = [off_pin[j] for j in bad_sub]
    ck.coverage["correspondence_disagreements"] = len(bad_idx)
    explained = [i for i in off_pin if i not in set(bad_idx)]
    for i in explained[:2]:
        kind, ev, ops, obs, obad, kcode = metas[i]
        pol = ck.model_eval("C13.Corr", "matching_policy %s" % coq_case(kcode, ev, ops, obs))
        ck.coverage.setdefault("non_pinned_policy_examples", []).append(
            {"case": jsonable(kind, ev, ops, obs), "policy": pol})
    for i in bad_idx[:4]:
        kind, ev, ops, obs, obad, kcode = metas[i]
        mo = ck.model_eval("C13.Corr", "model_out %s" % coq_case(kcode, ev, ops, obs))
        ck.report("corr:%s:%s" % (kind, "oracle-fails" if obad else "model-differs"),
                  "what the implementation did on a call sequence is not among the outcomes the Coq model allows "
                  "(no policy of Model.pol with the live constants %r explains it)" % (LIVE.get(kind),)
                  + ("" if obad else " (the property oracle passes on it)"),
                  dict(jsonable(kind, ev, ops, obs), model_pinned_policy=mo, live_constants=LIVE.get(kind),
                       broken="correspondence C13.Corr.check_case"),
                  found_input=obad)
    return ck.finish("fixed boundary cases + exhaustive 2-call sequences over every packetisation of a 4-byte stream "
                     "(tcp/udp/serial) + seeded random streams, packetisations, arrival delays and call sequences; "
                     "non-trivial = at least one call returned bytes and the device delivered data; distinct by content hash")


def replay(rep):
    import common
    c = rep["case"]
    kind = c["kind"]
    ev = [tuple(e) for e in c["events"]]
    ops = [tuple(o) for o in c["ops"]]
    obs, handed, bad = evaluate(kind, ev, ops)
    for o, x in zip(ops, obs):
        print("call %-40r -> %r  device calls %r  buffer after %r" % (o, x[0], x[1], x[2]))
    kcode = kcode_of(kind, LIVE[kind])
    print("live constants:", LIVE[kind])
    try:
        ck = common.Check("C13")
        print("model (pinned policy):", ck.model_eval("C13.Corr", "model_out %s" % coq_case(kcode, ev, ops, obs)))
        print("allowed by the model:", ck.model_eval("C13.Corr", "check_case %s" % coq_case(kcode, ev, ops, obs)))
        print("explaining policy:", ck.model_eval("C13.Corr", "matching_policy %s" % coq_case(kcode, ev, ops, obs)))
        ck.clean_cases()
    except Exception as e:  # noqa
        print("model evaluation unavailable:", e)
    for k, w in bad:
        print("oracle:", k, "--", w)
    if not bad:
        print("oracle: property holds on this history")
    return 1 if bad else 0
