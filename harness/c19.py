"""C19 — instrument drivers keep "open" consistent with the device link.

On every run:
  1. translators/t_c19_openclose.py regenerates, from $QMI_REPO, one (open, close) effect-language program pair per
     transport-based driver class (python `ast`, fail-closed, MRO-aware) and checks the base-class shapes the model's
     primitives stand for (QMI_Instrument.open/close/_check_*, QMI_Transport.open/close, every transport subclass
     marks itself closed before releasing the OS resource);
  2. coq/gen/C19Drivers.v is written: the programs, the verdict table, and — after Coq itself has computed the
     verdicts with vm_compute — one Lemma per class and method: `<cls>_open_ok : ok_open ... = true` or
     `<cls>_open_refuted : ok_open ... = false` (so the file always compiles and refutations are kernel-checked
     too).  A refuted class that is not a listed known finding is a failed generated obligation;
  3. dynamic tie + search (H1): every class is instantiated with a stub context and a recording fake transport
     (a subclass of the REAL QMI_Transport, substituted through the driver module's `create_transport`); a fault
     (QMI_TimeoutException, QMI_InstrumentException, OSError, malformed reply) is injected at the k-th transport
     call of open() for every k (and of close()), then open() is retried and close() called;  every observed call
     (state before, outcome, state after) must lie in the model's post set of the class's generated program
     (correspondence, ck.run_model) and satisfy the property (oracle below, independent of the model);
  4. every static refutation is confirmed dynamically (concrete class, phase, fault index k, fault kind = replay).
  5. part 2, "a closed instrument performs no device I/O": every @rpc_method (other than open/close) of every class
     and every helper it calls is regenerated as a term of `mprog` into coq/gen/C19Methods.v; one obligation
     `closed_safe <method> = true` per (class, method), verdicts computed by Coq, `_closed_safe` / `_unguarded`
     lemmas emitted accordingly; dynamically EVERY rpc method is called on the closed instrument (arguments
     synthesised from the annotations): no call may reach the fake transport, change is_open()/the link or create a
     resource, and the observed outcome (normal / exception) must be one the method's program allows.
  6. the model's primitives on the real base classes (base_behaviour: exhaustive over flag x hook failing) and on the
     REAL link-establishment code (link_establishment): the real open()/_open_transport()/close() of QMI_TcpTransport,
     QMI_UdpTransport, QMI_SerialTransport, QMI_Vxi11Transport, QMI_PyUsbTmcTransport run on recording fakes of the OS
     primitives with a fault injected at every primitive call in turn; oracle: a failed open() leaves nothing it
     created open and the transport marked closed, a successful one holds exactly one link, close() (also a failing
     one) releases everything; every observed call is also a case of LinkOpen/LinkClose for Corr.check_case.
"""
import importlib
import inspect
import json
import multiprocessing
import os
import re
import sys
import time
import traceback

sys.path.insert(0, os.path.join(os.path.dirname(os.path.abspath(__file__)), "translators"))
import common  # noqa: E402
import t_c19_openclose as TR  # noqa: E402

THEORY = "C19"
GEN = os.path.join(common.COQ, "gen", "C19Drivers.v")
# run_model / model_eval write `Require Import QV.<corr_module>.`: the second Require makes the generated programs
# visible to the case files (kept out of theories/C19/Corr.v so that the theory never depends on generated text).
CORR = "C19.Corr.\nRequire Import QVgen.C19Drivers"
GEN_M = os.path.join(common.COQ, "gen", "C19Methods.v")
CORR_M = "C19.Corr.\nRequire Import QVgen.C19Methods"

FAULT_KINDS = ("timeout", "instr", "oserror", "malformed")
READS = ("read", "read_until", "read_until_timeout")


def digits_as_letters(s):
    return "".join("abcdefghij"[int(ch)] for ch in s if ch.isdigit()) or "z"


def fkey(ident, kind):
    """finding key; ck.report normalises digits to N, the letter suffix keeps class names that differ only in
    digits (Tenma72_2535 / Tenma72_2540) apart"""
    return "%s:%s:%s" % (ident, kind, digits_as_letters(ident))


def norm(key):
    return re.sub(r"-?\d+", "N", key)


# ------------------------------------------------------------------------------------------------------
# Coq helpers (own copies: the gen file must be compiled before the theory's Properties.v is)
# ------------------------------------------------------------------------------------------------------

def coqc(path, timeout=600):
    return common.sh(["timeout", str(timeout), "coqc", "-Q", "theories", "QV", "-Q", "gen", "QVgen", path],
                     cwd=common.COQ, timeout=timeout + 60)


EVAL_TAIL = """
Require Import QV.C19.Corr.
Definition c19_tag (w k : N) (l : list st) := map (fun s => (w, k, flag s, held s, opens s, faults s)) l.
Definition c19_wit (w : N) (t : list st * list st * list st) := c19_tag w 0 (fst (fst t)) ++ c19_tag w 1 (snd (fst t)) ++ c19_tag w 2 (snd t).
Eval vm_compute in verdicts.
Eval vm_compute in (map (fun d => (fst d, c19_wit 0 (bad_open (open_prog (snd d))) ++ c19_wit 1 (bad_close (close_prog (snd d))))) drivers).
"""


def compute_verdicts(res, scratch):
    """Compile the programs and let Coq compute the verdict table and the counter-example states."""
    progs = TR.emit_programs(res, common.REPO)
    with open(GEN, "w") as f:
        f.write(progs)
    rc, out = coqc(GEN)
    if rc != 0:
        raise RuntimeError("generated programs do not compile:\n" + out[-3000:])
    ev = os.path.join(scratch, "c19_eval.v")
    with open(ev, "w") as f:
        f.write("From Coq Require Import List Bool NArith String.\nImport ListNotations.\n"
                "Require Import QV.C19.Model QVgen.C19Drivers.\n" + EVAL_TAIL)
    rc, out = coqc(ev)
    if rc != 0:
        raise RuntimeError("verdict evaluation failed:\n" + out[-3000:])
    parts = out.split("     = ")
    verd = {m.group(1): (m.group(2) == "true", m.group(3) == "true")
            for m in re.finditer(r'\("(\w+)"%string,\s*(true|false),\s*(true|false)\)', parts[1])}
    wit = {}
    txt = re.sub(r"%\w+", "", re.sub(r"\s+", " ", parts[2]))
    chunks = re.split(r'\("(\w+)", ', txt)
    for name, body in zip(chunks[1::2], chunks[2::2]):
        w = {"open": [], "close": []}
        for t in re.finditer(r"\((\d+), (\d+), (true|false), (true|false), (\d+), \[([^\]]*)\]\)", body):
            w["open" if t.group(1) == "0" else "close"].append(
                {"cat": int(t.group(2)), "flag": t.group(3) == "true", "held": t.group(4) == "true",
                 "opens": int(t.group(5)), "fault_lines": [int(x) for x in re.findall(r"\d+", t.group(6))]})
        wit[name] = w
    if set(verd) != {e["ident"] for e in res["classes"]} or set(wit) != set(verd):
        raise RuntimeError("could not parse Coq's verdict table (%d/%d/%d)" % (len(verd), len(wit), len(res["classes"])))
    return progs, verd, wit


def compute_method_verdicts(mres, scratch):
    """C19Methods.v: programs -> verdict table by vm_compute -> programs + one Lemma per method"""
    progs = TR.emit_method_programs(mres, common.REPO)
    with open(GEN_M, "w") as f:
        f.write(progs)
    rc, out = coqc(GEN_M)
    if rc != 0:
        raise RuntimeError("generated method programs do not compile:\n" + out[-3000:])
    ev = os.path.join(scratch, "c19_meval.v")
    with open(ev, "w") as f:
        f.write("From Coq Require Import List Bool NArith String.\nImport ListNotations.\n"
                "Require Import QV.C19.Model QVgen.C19Methods.\nEval vm_compute in method_verdicts.\n")
    rc, out = coqc(ev)
    if rc != 0:
        raise RuntimeError("method verdict evaluation failed:\n" + out[-3000:])
    verd = {m.group(1): (m.group(2) == "true", m.group(3) == "true", m.group(4) == "true")
            for m in re.finditer(r'\("(\w+)"%string,\s*\((true|false),\s*(true|false),\s*(true|false)\)\)', out)}
    want = {m["ident"] for r in mres.values() for m in r["methods"]}
    if set(verd) != want:
        raise RuntimeError("could not parse Coq's method verdict table (%d/%d)" % (len(verd), len(want)))
    with open(GEN_M, "w") as f:
        f.write(progs + TR.emit_method_obligations(mres, verd))
    return verd


# ------------------------------------------------------------------------------------------------------
# H1: real driver classes on a recording fake transport
# ------------------------------------------------------------------------------------------------------

def _impl():
    from qmi.core.transport import QMI_Transport
    from qmi.core import exceptions as X

    class FakeTransport(QMI_Transport):
        """Recording transport.  open()/close() and _check_is_open() are the REAL QMI_Transport code; only the OS
        resource is replaced.  Device calls are numbered per phase; `plan` maps call index -> fault kind."""

        def __init__(self, reply=None):
            super().__init__()
            self.reply = reply
            self.begin({})

        def begin(self, plan, closefail=False):
            self.plan, self.closefail = dict(plan), closefail
            self.log, self.n, self.fired = [], 0, []
            self.opens_ok, self.closes = 0, 0
            self.writes, self.last_write = 0, b""

        def _tick(self, name):
            i = self.n
            self.n += 1
            self.log.append(name)
            if self.n > 5000:
                raise RuntimeError("harness: runaway driver loop on the fake transport")
            kind = self.plan.get(i)
            if kind is None and name == "close" and self.closefail and self.fired:
                kind = "oserror"
            if kind is None:
                return False
            self.fired.append((i, name, kind))
            if kind == "timeout":
                raise X.QMI_TimeoutException("injected timeout at transport call %d (%s)" % (i, name))
            if kind == "instr":
                raise X.QMI_InstrumentException("injected instrument error at transport call %d (%s)" % (i, name))
            if kind == "oserror":
                raise OSError("injected OS error at transport call %d (%s)" % (i, name))
            return True   # malformed reply

        def _open_transport(self):
            self._tick("open")
            self.opens_ok += 1

        def close(self):
            super().close()          # refuses when closed; marks closed BEFORE the resource is released
            self.closes += 1
            self._tick("close")

        def write(self, data):
            self._check_is_open()
            self._tick("write")
            self.last_write = bytes(data)
            self.writes += 1

        def _answer(self, kind, arg):
            if self.reply is not None:
                r = self.reply(self, kind, arg)
                if r is not None:
                    return r
            if kind == "read":
                return b"\x00" * arg
            if kind == "read_until":
                return b"0" + arg
            return b""

        def read(self, nbytes, timeout=None):
            self._check_is_open()
            if self._tick("read"):
                return b"\xff" * nbytes
            return self._answer("read", nbytes)

        def read_until(self, message_terminator, timeout=None):
            self._check_is_open()
            if self._tick("read_until"):
                return b"\xff?#garbage\xfe" + message_terminator
            return self._answer("read_until", message_terminator)

        def read_until_timeout(self, nbytes, timeout):
            self._check_is_open()
            if self._tick("read_until_timeout"):
                return b"\xff" * nbytes
            return self._answer("read_until_timeout", nbytes)

        def discard_read(self):
            self._check_is_open()
            self._tick("discard_read")

    return FakeTransport


# -- replies a clean open() needs (harvested from the drivers' own unit tests / protocol code) --------

def _reply_ag_uc8(t, kind, arg):
    if kind == "read_until" and t.last_write.startswith(b"TE"):
        return b"TE0" + arg


def _reply_e873(t, kind, arg):
    if kind == "read_until" and t.last_write.startswith(b"SAI?"):
        return b"1" + arg


def _reply_k10cr1(t, kind, arg):
    # MSG_HW_GET_INFO: header (id 0x0006, 84 data bytes, dest|0x80, source) + payload with model "K10CR1"
    if kind == "read" and arg == 6:
        return bytes([0x06, 0x00, 84, 0x00, 0x81, 0x50])
    if kind == "read" and arg == 84:
        return (1).to_bytes(4, "little") + b"K10CR1\x00\x00" + bytes(84 - 12)


def _reply_wltf(t, kind, arg):
    if kind == "read_until" and t.last_write.startswith(b"dev?"):
        return b"WL200: SN(201307374), MD(2018-11-23)\r\nWL Range: 1021.509~1072.505nm(Step: 4654~556)\r\nOK\r\n"
    if kind == "read_until" and t.last_write.startswith(b"s?"):
        return b"Step: 2049\r\n, ERR: -1, Status: 0x340880OK\r\n"


def _reply_bristol(t, kind, arg):
    if kind == "read_until":
        return b"BRISTOL WAVELENGTH METER, 871A, 1234, 1.0\n" if t.writes else b"Bristol Instruments\n"


SPECIAL = {
    "Newport_AG_UC8": {"reply": _reply_ag_uc8},
    "PI_E873": {"reply": _reply_e873},
    "Thorlabs_K10CR1": {"reply": _reply_k10cr1},
    "WlPhotonics_WltfN": {"reply": _reply_wltf},
    "Bristol_871A": {"reply": _reply_bristol, "mock_names": ["_ReaderThread"],
                     "kwargs": lambda live: {"scpi_transport": "tcp:h:1" if live == "_scpi_transport" else None,
                                             "serial_transport": "serial:COM1" if live == "_serial_transport" else None}},
}


def make_instance(entry):
    """-> (instance, fake transport).  Stub context as in the repo's own driver tests (MagicMock(spec=QMI_Context))."""
    import enum
    import unittest.mock
    from qmi.core.context import QMI_Context
    FakeTransport = _impl()
    mod = importlib.import_module(entry["module"])
    cls = getattr(mod, entry["class"])
    spec = {}
    for c in cls.__mro__:
        if c.__name__ in SPECIAL:
            spec = SPECIAL[c.__name__]
            break
    ctx = unittest.mock.MagicMock(spec=QMI_Context)
    ctx.name = "c19ctx"
    ft = FakeTransport(spec.get("reply"))
    made = []

    def fake_create_transport(*a, **k):
        made.append(a)
        return ft

    patches = []
    for m in {c.__module__ for c in cls.__mro__}:
        pm = sys.modules.get(m)
        if pm is not None and hasattr(pm, "create_transport"):
            patches.append(unittest.mock.patch.object(pm, "create_transport", fake_create_transport))
        for nm in spec.get("mock_names", ()):
            if pm is not None and hasattr(pm, nm):
                patches.append(unittest.mock.patch.object(pm, nm, unittest.mock.MagicMock()))
    for p in patches:
        p.start()
    try:
        sig = inspect.signature(cls.__init__)
        args = {}
        for name, p in list(sig.parameters.items())[3:]:
            if p.kind in (p.VAR_POSITIONAL, p.VAR_KEYWORD) or p.default is not p.empty:
                continue
            ann = p.annotation
            if "transport" in name or ann is str:
                args[name] = "serial:COM1"
            else:
                try:
                    import typing
                    hints = typing.get_type_hints(cls.__init__)
                    args[name] = synth(hints.get(name, ann if not isinstance(ann, str) else inspect.Parameter.empty), name)
                except Exception:  # noqa: BLE001
                    args[name] = "x"
        if "kwargs" in spec:
            args.update(spec["kwargs"](entry["live"]))
        inst = cls(ctx, "c19dev", **args)
    finally:
        for p in patches:
            p.stop()
    if len(made) != 1:
        raise RuntimeError("constructor called create_transport %d times" % len(made))
    link = getattr(inst, entry["live"], None)
    if link is not ft:
        raise RuntimeError("link attribute %s is not the substituted transport" % entry["live"])
    return inst, ft


def do_call(inst, ft, which, plan=None, closefail=False):
    """one open()/close() call on the real driver; returns the canonical observation"""
    pre = (bool(inst.is_open()), bool(ft._is_open))
    ft.begin(plan or {}, closefail)
    exc, lines = None, []
    try:
        getattr(inst, which)()
        out = "N"
    except Exception as e:  # noqa: BLE001 - any exception class is an exceptional exit
        out = "X"
        exc = type(e).__name__
        for fr in traceback.extract_tb(e.__traceback__):
            if "/qmi/instruments/" in fr.filename or fr.filename.endswith("/qmi/core/instrument.py"):
                lines.append(fr.lineno)
    post = (bool(inst.is_open()), bool(ft._is_open))
    return {"call": which, "pre": list(pre), "out": out, "exc": exc, "post": list(post), "opens": ft.opens_ok,
            "closes": ft.closes, "ncalls": ft.n, "log": list(ft.log[:40]), "fired": [list(x) for x in ft.fired],
            "lines": lines, "plan": {str(k): v for k, v in (plan or {}).items()}, "closefail": closefail}


def run_scenario(entry, phase, plan, closefail=False):
    """fresh instance; faulted open() [or clean open() + faulted close()]; then retry and tear down"""
    inst, ft = make_instance(entry)
    steps = []
    if phase == "open":
        steps.append(do_call(inst, ft, "open", plan, closefail))
        steps.append(do_call(inst, ft, "open"))       # retry (refused if the instrument is open)
        steps.append(do_call(inst, ft, "close"))
        steps.append(do_call(inst, ft, "close"))      # refused
        steps.append(do_call(inst, ft, "open"))       # can be opened again
        steps.append(do_call(inst, ft, "close"))
    else:
        steps.append(do_call(inst, ft, "open"))
        steps.append(do_call(inst, ft, "close", plan))
        steps.append(do_call(inst, ft, "close"))      # retry
        steps.append(do_call(inst, ft, "open"))
        steps.append(do_call(inst, ft, "close"))
    return steps


def closed_instrument_io(entry):
    """a closed instrument performs no device I/O: call every argument-less public RPC method on the closed
    instrument and count transport calls that got through"""
    inst, ft = make_instance(entry)
    ft.begin({})
    tried = 0
    for name in sorted(dir(type(inst))):
        if name.startswith("_") or name in ("open", "close", "lock", "unlock", "force_unlock", "is_locked",
                                            "release_rpc_object", "rpc_proxy"):
            continue
        m = getattr(type(inst), name, None)
        if not callable(m) or not getattr(m, "_rpc_method", False):
            continue
        try:
            sig = inspect.signature(m)
        except (TypeError, ValueError):
            continue
        if any(p.default is p.empty and p.kind in (p.POSITIONAL_ONLY, p.POSITIONAL_OR_KEYWORD)
               for p in list(sig.parameters.values())[1:]):
            continue
        tried += 1
        try:
            getattr(inst, name)()
        except Exception:  # noqa: BLE001
            pass
    return tried, ft.n, list(ft.log[:10]), bool(inst.is_open()), bool(ft._is_open)


class _Uncallable(Exception):
    pass


def synth(ann, name="", depth=0):
    """a value for a parameter from its annotation (`typing` constructs, enums, named tuples)"""
    import enum
    import typing
    if depth > 4:
        raise _Uncallable("annotation nested too deeply")
    if ann is inspect.Parameter.empty or ann is typing.Any:
        return 1
    if ann is bool:
        return True
    if ann is int:
        return 1
    if ann is float:
        return 1.0
    if ann is str:
        return "A"
    if ann is bytes:
        return b"\x01"
    if ann is type(None):
        return None
    origin = typing.get_origin(ann)
    args = typing.get_args(ann)
    if origin is typing.Union:
        for a in args:
            if a is not type(None):
                return synth(a, name, depth + 1)
        return None
    if origin in (list, typing.List) or (origin is not None and getattr(origin, "__name__", "") in
                                         ("Sequence", "Iterable", "Collection", "MutableSequence")):
        return [synth(args[0], name, depth + 1)] if args else [1]
    if origin is tuple:
        if len(args) == 2 and args[1] is Ellipsis:
            return (synth(args[0], name, depth + 1),)
        return tuple(synth(a, name, depth + 1) for a in args)
    if origin is dict:
        return {synth(args[0], name, depth + 1): synth(args[1], name, depth + 1)} if args else {}
    if origin is set:
        return {synth(args[0], name, depth + 1)} if args else set()
    if origin is typing.Literal:
        return args[0]
    if ann in (list, tuple, dict, set):
        return ann()
    if inspect.isclass(ann):
        if issubclass(ann, enum.Enum):
            return list(ann)[0]
        if issubclass(ann, tuple) and hasattr(ann, "_fields"):
            hints = typing.get_type_hints(ann)
            return ann(*[synth(hints.get(f, int), f, depth + 1) for f in ann._fields])
        if ann.__module__ == "numpy" and ann.__name__ == "ndarray":
            import numpy
            return numpy.zeros(2)
        try:
            return ann()
        except Exception:  # noqa: BLE001
            pass
        try:    # a plain class: build it from its own constructor annotations
            hints = typing.get_type_hints(ann.__init__)
            kw = {pn: synth(hints.get(pn, inspect.Parameter.empty), pn, depth + 1)
                  for pn, p in list(inspect.signature(ann.__init__).parameters.items())[1:]
                  if p.default is p.empty and p.kind not in (p.VAR_POSITIONAL, p.VAR_KEYWORD)}
            return ann(**kw)
        except _Uncallable:
            raise
        except Exception as e:  # noqa: BLE001
            raise _Uncallable("no value for annotation %s (%s)" % (getattr(ann, "__name__", ann), type(e).__name__))
    raise _Uncallable("no value for annotation %r" % (ann,))


def rpc_method_names(cls):
    """live enumeration: @rpc_method functions defined by driver code (not by qmi.core), except open/close"""
    names = []
    for n in sorted(dir(cls)):
        f = inspect.getattr_static(cls, n, None)
        if inspect.isfunction(f) and getattr(f, "_rpc_method", False) and n not in ("open", "close") \
                and not f.__module__.startswith("qmi.core."):
            names.append(n)
    return names


def closed_method_calls(entry, none_when_closed):
    """call EVERY rpc method of the class on a closed instrument (arguments synthesised from annotations);
    observe: outcome, exception class, transport calls that got through, state afterwards, resources created"""
    import signal
    import typing
    from qmi.core.exceptions import QMI_InvalidOperationException
    cls = getattr(importlib.import_module(entry["module"]), entry["class"])
    inst, ft = make_instance(entry)
    res_init = {a: repr(type(getattr(inst, a, None)).__name__) for a in none_when_closed
                if getattr(inst, a, None) is not None}
    out = {"resources_present_after_construction": res_init, "calls": []}

    class _Hang(BaseException):
        pass

    def on_alarm(signum, frame):
        raise _Hang()

    signal.signal(signal.SIGALRM, on_alarm)
    for n in rpc_method_names(cls):
        f = inspect.getattr_static(cls, n)
        rec = {"method": n}
        try:
            try:
                hints = typing.get_type_hints(f)
            except Exception:  # noqa: BLE001
                hints = {}
            kwargs = {}
            for pn, p in list(inspect.signature(f).parameters.items())[1:]:
                if p.kind in (p.VAR_POSITIONAL, p.VAR_KEYWORD) or p.default is not p.empty:
                    continue
                kwargs[pn] = synth(hints.get(pn, p.annotation if not isinstance(p.annotation, str) else inspect.Parameter.empty), pn)
        except _Uncallable as e:
            rec.update({"status": "uncallable", "reason": str(e)})
            out["calls"].append(rec)
            continue
        ft.begin({})
        rec["args"] = repr(kwargs)[:120]
        signal.setitimer(signal.ITIMER_REAL, 3.0)
        try:
            getattr(inst, n)(**kwargs)
            rec.update({"out": "N", "exc": None, "invalid_op": False})
        except _Hang:
            rec.update({"out": "H", "exc": "hang (> 3 s)", "invalid_op": False})
        except Exception as e:  # noqa: BLE001
            rec.update({"out": "X", "exc": type(e).__name__, "invalid_op": isinstance(e, QMI_InvalidOperationException),
                        "msg": str(e)[:100]})
        finally:
            signal.setitimer(signal.ITIMER_REAL, 0)
        rec["status"] = "called"
        rec["touched"] = ft.n
        rec["log"] = list(ft.log[:8])
        rec["post"] = [bool(inst.is_open()), bool(ft._is_open)]
        rec["resources"] = [a for a in none_when_closed if getattr(inst, a, None) is not None]
        out["calls"].append(rec)
        if ft.n or rec["post"] != [False, False] or rec["resources"] or rec["out"] == "H":
            for a in rec["resources"]:       # stop what was started, then continue on a fresh instance
                try:
                    getattr(inst, a).cancel()
                except Exception:  # noqa: BLE001
                    pass
            inst, ft = make_instance(entry)
    return out


def dyn_class(entry, tier, seed=0):
    """everything dynamic for one class (runs in a forked child)"""
    time.sleep = lambda s: None
    import logging
    logging.disable(logging.CRITICAL)
    import warnings
    warnings.simplefilter("ignore")
    r = {"ident": entry["ident"], "status": "ok", "scenarios": []}
    try:
        steps = run_scenario(entry, "open", {})
    except Exception as e:  # noqa: BLE001
        r["status"] = "not-instantiable"
        r["reason"] = "%s: %s" % (type(e).__name__, str(e)[:200])
        return r
    r["scenarios"].append({"phase": "open", "plan": {}, "closefail": False, "steps": steps})
    try:    # which open()/close() does Python really resolve?  (cross-check of the translator's MRO resolution)
        cls = getattr(importlib.import_module(entry["module"]), entry["class"])
        r["live_defs"] = {w: getattr(cls, w).__qualname__.rsplit(".", 1)[0] for w in ("open", "close")}
    except Exception:  # noqa: BLE001
        r["live_defs"] = None
    if steps[0]["out"] != "N":
        r["status"] = "clean-open-fails"
        r["reason"] = "a fault-free open() on the fake transport raises %s (reply table incomplete)" % steps[0]["exc"]
        return r
    open_log = steps[0]["log"]
    close_log = steps[2]["log"]
    r["open_calls"], r["close_calls"] = open_log, close_log
    plans = []
    for k, nm in enumerate(open_log):
        for kind in FAULT_KINDS:
            if kind == "malformed" and nm not in READS:
                continue
            plans.append(("open", {k: kind}, False))
        if k >= 1:
            plans.append(("open", {k: "timeout"}, True))     # ... and the cleanup close fails as well
    for k, nm in enumerate(close_log):
        for kind in FAULT_KINDS:
            if kind == "malformed" and nm not in READS:
                continue
            plans.append(("close", {k: kind}, False))
    if tier != "quick":
        for k1 in range(len(open_log)):
            for k2 in range(k1 + 1, len(open_log) + 2):
                for kd in (("timeout", "oserror"), ("instr", "timeout")):
                    plans.append(("open", {k1: kd[0], k2: kd[1]}, False))
    # seeded random multi-fault plans (several faults in one call, cleanup failing or not)
    import random
    rng = random.Random(seed)
    for _ in range(8 if tier == "quick" else 80):
        phase = rng.choice(["open", "open", "close"])
        n = len(open_log) if phase == "open" else len(close_log)
        idx = rng.sample(range(n + 2), rng.randint(1, min(3, n + 2)))
        plans.append((phase, {k: rng.choice(FAULT_KINDS[:3]) for k in idx}, rng.random() < 0.3))
    seen_plans = set()
    for phase, plan, cf in plans:
        sig = (phase, tuple(sorted(plan.items())), cf)
        if sig in seen_plans:
            continue
        seen_plans.add(sig)
        try:
            st = run_scenario(entry, phase, plan, cf)
        except Exception as e:  # noqa: BLE001
            r["scenarios"].append({"phase": phase, "plan": plan, "closefail": cf, "steps": [],
                                   "error": "%s: %s" % (type(e).__name__, e)})
            continue
        if cf and not any(f[1] == "close" for s_ in st for f in s_["fired"]):
            continue    # no cleanup close happened: identical to the scenario without it
        r["scenarios"].append({"phase": phase, "plan": plan, "closefail": cf, "steps": st})
    try:
        r["closed_io"] = closed_instrument_io(entry)
    except Exception as e:  # noqa: BLE001
        r["closed_io"] = None
        r["closed_io_error"] = "%s: %s" % (type(e).__name__, e)
    try:
        r["closed_methods"] = closed_method_calls(entry, entry.get("none_when_closed", []))
        # the None-able resources must also be gone after an open/close cycle
        inst, ft = make_instance(entry)
        inst.open()
        inst.close()
        r["closed_methods"]["resources_present_after_open_close"] = [
            a for a in entry.get("none_when_closed", []) if getattr(inst, a, None) is not None]
    except Exception as e:  # noqa: BLE001
        r["closed_methods"] = None
        r["closed_methods_error"] = "%s: %s" % (type(e).__name__, e)
    return r


def _dyn_entry(args):
    entry, tier, seed = args
    try:
        return dyn_class(entry, tier, seed)
    except BaseException as e:  # noqa: BLE001
        return {"ident": entry["ident"], "status": "not-instantiable", "scenarios": [],
                "reason": "harness child failed: %s: %s" % (type(e).__name__, e)}



# ------------------------------------------------------------------------------------------------------
# the model's primitives, checked BEHAVIOURALLY on the real base classes (every run, exhaustively)
# ------------------------------------------------------------------------------------------------------

class _Raiser:
    """stands for an OS resource whose every operation fails"""

    def __init__(self):
        object.__setattr__(self, "calls", [])

    def __getattr__(self, name):
        def f(*a, **k):
            self.calls.append(name)
            raise OSError("injected failure of the OS resource (%s)" % name)
        return f

    def __bool__(self):
        return True


def _snapshot(obj):
    return {k: (id(v), repr(v) if isinstance(v, (bool, int, str, float, type(None))) else None) for k, v in vars(obj).items()}


def _changed(before, obj):
    after = _snapshot(obj)
    return sorted(k for k in set(before) | set(after) if before.get(k) != after.get(k))


def _transport_ctor_args(cls):
    import typing
    args = {}
    try:
        hints = typing.get_type_hints(cls.__init__)
    except Exception:  # noqa: BLE001
        hints = {}
    named = {"host": "127.0.0.1", "port": 5025, "device": "COM1", "baudrate": 9600, "vendorid": 1, "productid": 1,
             "serialnr": "X", "local_port": 5026}
    for pn, p in list(inspect.signature(cls.__init__).parameters.items())[1:]:
        if p.kind in (p.VAR_POSITIONAL, p.VAR_KEYWORD) or p.default is not p.empty:
            continue
        args[pn] = named[pn] if pn in named else synth(hints.get(pn, inspect.Parameter.empty), pn)
    return args


def base_behaviour():
    """QMI_Instrument.open/close/_check_is_open/_check_is_closed/is_open and QMI_Transport.open/close/_check_is_open
    (on the base class and on every transport subclass) are small total functions of (flag, does the hook raise?).
    They are run on the real classes for every argument and compared with what the model's primitives
    (CheckOpen/CheckClosed/SetOpen/SetClosed, LinkOpen/LinkClose) say: outcome, exception class, resulting flag,
    which hooks ran, and that nothing else on the object changed.
    -> (problems [(key, text, detail)], coq case terms, summary)"""
    import unittest.mock
    from qmi.core.context import QMI_Context
    from qmi.core.instrument import QMI_Instrument
    from qmi.core import transport as T
    from qmi.core.exceptions import QMI_InvalidOperationException
    problems, terms, summary = [], [], {"instrument_cases": 0, "transport_cases": 0, "transport_classes": [],
                                        "transport_classes_syntactic_fallback": []}

    def bad(key, text, **detail):
        problems.append(("base-behaviour:" + key, text, dict(detail, phase="base-behaviour")))

    # ---- instrument -----------------------------------------------------------------------------------
    class _Stub(QMI_Instrument):
        pass

    def new_inst(flag):
        ctx = unittest.mock.MagicMock(spec=QMI_Context)
        ctx.name = "c19ctx"
        i = _Stub(ctx, "c19base")
        if i.is_open() is not False:
            bad("QMI_Instrument.__init__", "a new instrument reports is_open()=%r" % (i.is_open(),))
        if flag:
            i.open()            # (open from closed is itself one of the cases below)
        return i

    def run(obj, name):
        try:
            return "N", getattr(obj, name)(), None
        except Exception as e:  # noqa: BLE001
            return "X", None, e

    prim = {"open": "seql [CheckClosed; SetOpen]", "close": "seql [CheckOpen; SetClosed]",
            "_check_is_open": "CheckOpen", "_check_is_closed": "CheckClosed", "is_open": "Skip"}
    expect = {  # (op, flag) -> (outcome, flag afterwards): what the primitives of Model.v do
        ("open", False): ("N", True), ("open", True): ("X", True),
        ("close", True): ("N", False), ("close", False): ("X", False),
        ("_check_is_open", True): ("N", True), ("_check_is_open", False): ("X", False),
        ("_check_is_closed", False): ("N", False), ("_check_is_closed", True): ("X", True),
        ("is_open", False): ("N", False), ("is_open", True): ("N", True)}
    for (op, flag), (eo, ef) in expect.items():
        i = new_inst(flag)
        if bool(i.is_open()) != flag:
            bad("QMI_Instrument.open:setup", "could not bring the stub instrument into flag=%s" % flag, op=op, flag=flag)
            continue
        if not hasattr(i, op):
            bad("QMI_Instrument.%s:missing" % op, "QMI_Instrument has no %s any more" % op, op=op)
            continue
        before = _snapshot(i)
        out, val, exc = run(i, op)
        after_flag = bool(i.is_open())
        ch = _changed(before, i)
        summary["instrument_cases"] += 1
        terms.append("(%s, ob %s false 0, %s, ob %s false 0)" % (prim[op], common.cbool(flag),
                                                                "Normal" if out == "N" else "Exc", common.cbool(after_flag)))
        why = []
        if (out, after_flag) != (eo, ef):
            why.append("outcome %s, is_open() afterwards %s; the model's primitive gives %s, %s" % (out, after_flag, eo, ef))
        if out == "X" and not isinstance(exc, QMI_InvalidOperationException):
            why.append("raises %s, not QMI_InvalidOperationException" % type(exc).__name__)
        if op == "is_open" and out == "N" and val is not flag:
            why.append("returns %r" % (val,))
        if len(ch) > (1 if after_flag != flag else 0):
            why.append("attributes changed: %s" % ch)
        if why:
            bad("QMI_Instrument.%s:flag-%s" % (op, flag), "QMI_Instrument.%s() with is_open()=%s: %s" % (op, flag, "; ".join(why)),
                cls="QMI_Instrument", op=op, flag=flag)

    # ---- transports -------------------------------------------------------------------------------------
    def subclasses(c):
        out = []
        for k in c.__subclasses__():
            if k.__module__.startswith("qmi.core.") and k not in out:
                out.append(k)
                out += [x for x in subclasses(k) if x not in out]
        return out

    for mod in ("qmi.core.transport_usbtmc_pyusb", "qmi.core.transport_usbtmc_visa"):
        try:
            importlib.import_module(mod)
        except Exception:  # noqa: BLE001
            pass
    for cls in [T.QMI_Transport] + subclasses(T.QMI_Transport):
        hook = {"calls": 0, "raise": None}

        def _open_transport(self, hook=hook):
            hook["calls"] += 1
            if hook["raise"] is not None:
                raise hook["raise"]
        S = type("C19Stub_" + cls.__name__, (cls,), {"_open_transport": _open_transport})

        def new_tr(flag):
            t = S(**_transport_ctor_args(cls))
            base = _snapshot(t)
            if flag:
                hook["raise"] = None
                t.open()
            return t, base
        try:
            t0, _ = new_tr(False)
        except Exception as e:  # noqa: BLE001
            fb = TR.transport_close_shape(common.REPO, cls.__name__)
            summary["transport_classes_syntactic_fallback"].append({"class": cls.__name__, "why": "%s: %s" % (type(e).__name__, e),
                                                                    "problems": fb})
            for p_ in fb:
                bad("%s:shape" % cls.__name__, "transport class %s cannot be instantiated by the harness and its close() "
                    "does not have the expected shape: %s" % (cls.__name__, p_), cls=cls.__name__)
            continue
        summary["transport_classes"].append(cls.__name__)
        # discover the flag attribute: the one boolean that flips when open() succeeds
        before = _snapshot(t0)
        hook["raise"] = None
        t0.open()
        flips = [k for k in _changed(before, t0) if isinstance(vars(t0).get(k), bool)]
        if len(flips) != 1 or vars(t0)[flips[0]] is not True or hook["calls"] != 1:
            bad("%s.open:flag" % cls.__name__, "%s.open() on a new transport: hook calls %d, boolean attributes that "
                "changed: %s" % (cls.__name__, hook["calls"], flips), cls=cls.__name__, op="open", flag=False)
            continue
        fl = flips[0]

        def held(t):
            return bool(vars(t)[fl])
        cases = [("open", False, None), ("open", False, RuntimeError("injected hook failure")), ("open", True, None),
                 ("close", True, "quiet"), ("close", True, "failing"), ("close", False, "failing"),
                 ("_check_is_open", True, None), ("_check_is_open", False, None)]
        for op, flag, fault in cases:
            t, _ = new_tr(flag)
            hook["calls"], hook["raise"] = 0, fault if op == "open" else None
            res = None
            if op == "close":
                res = _Raiser() if fault == "failing" else unittest.mock.MagicMock()
                for k, v in list(vars(t).items()):
                    if v is None:
                        object.__setattr__(t, k, res)
            before = _snapshot(t)
            out, val, exc = run(t, op)
            ch = [k for k in _changed(before, t) if k != fl]
            h = held(t)
            summary["transport_cases"] += 1
            why = []
            if op == "open":
                if flag:
                    want = ("X", True, 0)
                elif fault is None:
                    want = ("N", True, 1)
                else:
                    want = ("X", False, 1)
                if (out, h, hook["calls"]) != want:
                    why.append("outcome %s, open afterwards %s, _open_transport called %d time(s); LinkOpen gives %s" % (
                        out, h, hook["calls"], want))
                if flag and out == "X" and not isinstance(exc, QMI_InvalidOperationException):
                    why.append("refusal raises %s" % type(exc).__name__)
                if not flag and fault is not None and out == "X" and exc is not fault:
                    why.append("the hook's exception is not propagated unchanged (%s)" % type(exc).__name__)
                if cls is T.QMI_Transport:
                    terms.append("(LinkOpen 0, ob false %s 0, %s, ob false %s %d)" % (
                        common.cbool(flag), "Normal" if out == "N" else "Exc", common.cbool(h),
                        1 if (out == "N" and hook["calls"]) else 0))
            elif op == "close":
                if not flag:
                    if out != "X" or h or not isinstance(exc, QMI_InvalidOperationException) or (res and res.calls):
                        why.append("close() on a closed transport: outcome %s (%s), open afterwards %s, resource touched %s; "
                                   "LinkClose refuses without touching anything" % (out, type(exc).__name__, h, getattr(res, "calls", None)))
                else:
                    if h:
                        why.append("close() %s leaves the transport marked OPEN (resource %s); LinkClose releases the link "
                                   "even when the release fails" % ("raising %s" % type(exc).__name__ if out == "X" else "returning", fault))
                    if fault == "quiet" and out != "N":
                        why.append("close() with a quiet resource raises %s" % type(exc).__name__)
                if cls is T.QMI_Transport:
                    terms.append("(LinkClose 0, ob false %s 0, %s, ob false %s 0)" % (
                        common.cbool(flag), "Normal" if out == "N" else "Exc", common.cbool(h)))
            else:
                if (out == "N") != flag or h != flag or (out == "X" and not isinstance(exc, QMI_InvalidOperationException)):
                    why.append("_check_is_open() with open=%s: outcome %s (%s), open afterwards %s" % (
                        flag, out, type(exc).__name__ if exc else None, h))
            if ch and op != "close":
                why.append("other attributes changed: %s" % ch)
            if why:
                bad("%s.%s:open-%s:%s" % (cls.__name__, op, flag, "fault" if fault not in (None, "quiet") else "ok"),
                    "%s.%s() with transport open=%s%s: %s" % (cls.__name__, op, flag, ", hook/resource failing" if fault not in (None, "quiet") else "",
                                                             "; ".join(why)), cls=cls.__name__, op=op, flag=flag,
                    fault=repr(fault))
    return problems, terms, summary


# ------------------------------------------------------------------------------------------------------
# LinkOpen / LinkClose on the REAL transports: the real _open_transport()/close() bodies run against recording
# fakes of the OS-level primitives, with a fault injected at every primitive call in turn
# ------------------------------------------------------------------------------------------------------

class _World:
    """the OS as one transport instance sees it: every primitive call is numbered per open()/close() call"""

    def __init__(self):
        self.resources = []
        self.begin({})

    def begin(self, plan):
        self.plan, self.n, self.log, self.fired = dict(plan), 0, [], []
        self.mark = len(self.resources)

    def tick(self, name):
        i = self.n
        self.n += 1
        self.log.append(name)
        if self.n > 500:
            raise RuntimeError("harness: runaway loop on the fake OS primitives")
        f = self.plan.get(i)
        if f is not None:
            self.fired.append([i, name, f])
            raise _fault_exc(f, name)


def _fault_exc(kind, where):
    import errno
    import socket
    msg = "injected %s at %s" % (kind, where)
    if kind == "timeout":
        return socket.timeout(msg)
    if kind == "refused":
        return ConnectionRefusedError(errno.ECONNREFUSED, msg)
    if kind == "unreachable":
        return OSError(errno.EHOSTUNREACH, msg)
    if kind == "gaierror":
        return socket.gaierror(socket.EAI_NONAME, msg)
    if kind == "serialexception":
        import serial
        return serial.SerialException(msg)
    if kind == "vxi11exception":
        import vxi11
        return vxi11.vxi11.Vxi11Exception(note=msg)
    if kind == "usberror":
        import usb.core
        return usb.core.USBError(msg, errno=errno.EIO)
    if kind == "usbtmcexception":
        from qmi.core import usbtmc
        return usbtmc.UsbtmcException(msg, "open")
    return OSError(errno.EIO, msg)


class _Res:
    """one OS-level resource (socket, serial port, VXI-11 link, claimed USB interface)"""

    def __init__(self, world, kind, opened_by_ctor, args=()):
        d = object.__getattribute__(self, "__dict__")
        d.update(world=world, kind=kind, is_open=False, close_attempted=False, args=repr(args)[:80])
        world.tick(kind + "()")            # the constructor itself is a primitive and may fail: nothing is created
        d["is_open"] = bool(opened_by_ctor)
        world.resources.append(self)

    def open(self, *a, **k):
        self.world.tick(self.kind + ".open")
        self.__dict__["is_open"] = True

    def close(self, *a, **k):
        # like the real ones: the descriptor is gone even when close() reports an error
        self.__dict__["close_attempted"] = True
        self.__dict__["is_open"] = False
        self.world.tick(self.kind + ".close")

    def fileno(self):
        return 7 if self.is_open else -1

    def __setattr__(self, name, value):
        self.__dict__[name] = value        # e.g. `instr.timeout = ...`

    def __getattr__(self, name):
        if name.startswith("__"):
            raise AttributeError(name)

        def f(*a, **k):
            self.world.tick("%s.%s" % (self.kind, name))
            return None
        return f


def _proxy_module(real, **over):
    import types
    m = types.ModuleType(real.__name__)
    m.__dict__.update(real.__dict__)
    m.__dict__.update(over)
    return m


_FLAGS = {}     # transport class name -> name of its boolean "open" attribute (learnt, not assumed)


def _link_specs():
    """the concrete transports that can be driven offline: (class, constructor, module to patch, name, proxy factory)"""
    import socket as real_socket
    from qmi.core import transport as T
    specs = []

    def sock_proxy(w):
        def create_connection(address, *a, **k):
            r = _Res(w, "create_connection", True, (address,))
            r.__dict__["kind"] = "socket"
            return r
        return _proxy_module(real_socket,
                             socket=lambda *a, **k: _Res(w, "socket", True, a),
                             create_connection=create_connection,
                             gethostbyname=lambda h: (w.tick("gethostbyname"), "127.0.0.1")[1],
                             getaddrinfo=lambda *a, **k: (w.tick("getaddrinfo"), real_socket.getaddrinfo("127.0.0.1", 1))[1])
    specs.append(("QMI_TcpTransport", lambda: T.QMI_TcpTransport("127.0.0.1", 5025), T, "socket", sock_proxy))
    specs.append(("QMI_UdpTransport", lambda: T.QMI_UdpTransport("127.0.0.1", 5026), T, "socket", sock_proxy))
    import serial as real_serial
    specs.append(("QMI_SerialTransport", lambda: T.QMI_SerialTransport("COM1", 9600), T, "serial",
                  lambda w: _proxy_module(real_serial, Serial=lambda *a, **k: _Res(w, "Serial", True, a))))
    import vxi11 as real_vxi11
    specs.append(("QMI_Vxi11Transport", lambda: T.QMI_Vxi11Transport("127.0.0.1"), T, "vxi11",
                  lambda w: _proxy_module(real_vxi11, Instrument=lambda *a, **k: _Res(w, "vxi11.Instrument", False, a))))
    try:
        from qmi.core import transport_usbtmc_pyusb as P
        from qmi.core import usbtmc as real_usbtmc
        specs.append(("QMI_PyUsbTmcTransport", lambda: P.QMI_PyUsbTmcTransport(1, 1, "X"), P, "usbtmc",
                      lambda w: _proxy_module(real_usbtmc, Instrument=lambda *a, **k: _Res(w, "usbtmc.Instrument", False, a))))
    except Exception:  # noqa: BLE001
        pass
    return specs


def _faults_for(primitive):
    p = primitive.lower()
    if "gethostbyname" in p or "getaddrinfo" in p:
        return ["gaierror", "oserror"]
    if p.endswith(".connect") or p.startswith("create_connection"):
        return ["timeout", "refused", "unreachable", "gaierror"]
    if p.startswith("serial"):
        return ["serialexception", "oserror"]
    if p.startswith("vxi11"):
        return ["vxi11exception", "oserror"]
    if p.startswith("usbtmc"):
        return ["usbtmcexception", "usberror", "oserror"]
    return ["oserror"]


def link_scenario(spec, which, plan):
    """fresh transport of the class; [clean open();] the faulted call; then retry / tear down.  -> list of steps"""
    name, ctor, mod, attr, proxy = spec
    if name not in _FLAGS and (which != "close" or plan):
        link_scenario(spec, "close", {})        # a clean open/close first: learns which attribute is the open flag
    w = _World()
    real = getattr(mod, attr)
    setattr(mod, attr, proxy(w))
    try:
        t = ctor()
        flag_attr = [_FLAGS.get(name)]

        def marked():
            if flag_attr[0] is None:
                return None
            return bool(vars(t).get(flag_attr[0]))

        def call(m, pl):
            pre_open = [r for r in w.resources if r.is_open]
            pre_marked = marked()
            before = {k: v for k, v in vars(t).items() if isinstance(v, bool)}
            w.begin(pl)
            try:
                getattr(t, m)()
                out, exc = "N", None
            except Exception as e:  # noqa: BLE001
                out, exc = "X", type(e).__name__
            if flag_attr[0] is None and m == "open" and out == "N":
                flips = [k for k, v in vars(t).items() if isinstance(v, bool) and before.get(k) is False and v is True]
                if len(flips) == 1:
                    flag_attr[0] = _FLAGS[name] = flips[0]
            created = w.resources[w.mark:]
            return {"call": m, "plan": {str(k): v for k, v in pl.items()}, "out": out, "exc": exc,
                    "pre_marked": pre_marked, "pre_held": len(pre_open), "marked": marked(),
                    "held": len([r for r in w.resources if r.is_open]),
                    "created": len(created), "created_still_open": len([r for r in created if r.is_open]),
                    "log": list(w.log[:20]), "fired": list(w.fired)}
        steps = []
        if which == "open":
            steps.append(call("open", plan))
            if steps[-1]["pre_marked"] is None:
                steps[-1]["pre_marked"] = False
            steps.append(call("open", {}))    # retry
            steps.append(call("close", {}))
            steps.append(call("close", {}))   # refused
        else:
            steps.append(call("open", {}))
            steps[-1]["pre_marked"] = False
            steps.append(call("close", plan))
            steps.append(call("close", {}))   # refused
            steps.append(call("open", {}))
            steps.append(call("close", {}))
        return steps
    finally:
        setattr(mod, attr, real)


def link_oracle(st):
    """the contract of LinkOpen / LinkClose on one observed call of a real transport -> list of (kind, text)"""
    bad = []
    if st["pre_marked"] is None or bool(st["pre_marked"]) != (st["pre_held"] > 0):
        return bad          # started from a state that was already reported
    if st["call"] == "open":
        if st["pre_marked"]:
            if st["out"] != "X" or st["created"] or not st["marked"] or st["held"] != st["pre_held"]:
                bad.append(("open-on-open-not-refused", "open() on an open transport: outcome %s, %d resource(s) created"
                            % (st["out"], st["created"])))
        elif st["out"] == "N":
            if not st["marked"] or st["held"] != 1:
                bad.append(("open-success-wrong-state", "successful open(): marked open=%s, %d OS resource(s) held "
                            "(exactly one link expected)" % (st["marked"], st["held"])))
        else:
            if st["held"]:
                bad.append(("open-fault-leaves-resource-open", "open() raises %s and the transport reads closed, but %d OS "
                            "resource(s) created by it are still open (link held)" % (st["exc"], st["held"])))
            if st["marked"]:
                bad.append(("open-fault-leaves-marked-open", "open() raises %s but the transport is marked open" % st["exc"]))
            if not st["fired"]:
                bad.append(("open-fails-without-fault", "fault-free open() raises %s" % st["exc"]))
    else:
        if not st["pre_marked"]:
            if st["out"] != "X" or st["marked"] or st["held"]:
                bad.append(("close-on-closed-not-refused", "close() on a closed transport: outcome %s" % st["out"]))
        else:
            if st["held"]:
                bad.append(("close-leaves-resource-open", "close() %s but %d OS resource(s) are still open" % (
                    "raises %s" % st["exc"] if st["out"] == "X" else "returns", st["held"])))
            if st["marked"]:
                bad.append(("close-leaves-marked-open", "close() %s but the transport is still marked open" % (
                    "raises %s" % st["exc"] if st["out"] == "X" else "returns")))
            if st["out"] == "X" and not st["fired"]:
                bad.append(("close-fails-without-fault", "fault-free close() raises %s" % st["exc"]))
    return bad


def link_term(st, k):
    """the observed call as a case of the model's primitive"""
    if st["pre_marked"] is None or bool(st["pre_marked"]) != (st["pre_held"] > 0):
        return None
    prim = "LinkOpen %d" % k if st["call"] == "open" else "LinkClose %d" % k
    return "(%s, ob false %s 0, %s, ob false %s %d)" % (
        prim, common.cbool(st["pre_held"] > 0), "Normal" if st["out"] == "N" else "Exc",
        common.cbool(st["held"] > 0 or bool(st["marked"])),
        st["created_still_open"] if st["call"] == "open" else 0)


def link_establishment():
    """-> (scenarios [(spec name, which, plan, steps)], summary)"""
    out, summary = [], {"classes": {}, "not_tied": ["QMI_VisaUsbTmcTransport / QMI_VisaGpibTransport (pyvisa, Windows-only)",
                                                   "qmi.core.usbtmc.Instrument itself (the USB layer below QMI_PyUsbTmcTransport)"]}
    for spec in _link_specs():
        clean = link_scenario(spec, "close", {})
        out.append((spec[0], "close", {}, clean))
        open_log, close_log = clean[0]["log"], clean[1]["log"]
        n = 0
        for which, log in (("open", open_log), ("close", close_log)):
            for k, prim in enumerate(log):
                for f in _faults_for(prim):
                    out.append((spec[0], which, {k: f}, link_scenario(spec, which, {k: f})))
                    n += 1
        summary["classes"][spec[0]] = {"open_primitives": open_log, "close_primitives": close_log, "fault_scenarios": n}
    return out, summary

# ------------------------------------------------------------------------------------------------------
# the property oracle on the implementation's observations (independent of the Coq model)
# ------------------------------------------------------------------------------------------------------

def oracle_step(st, faulted):
    """-> list of (violation kind, text) for one observed call"""
    bad = []
    pre, post = tuple(st["pre"]), tuple(st["post"])
    call = st["call"]
    if post[0] != post[1] and st["out"] == "X":
        if call == "open":
            kind = "open-fault-leaves-link-held" if post[1] else "open-fault-leaves-flag-open"
        else:
            kind = "close-fault-leaves-flag-open" if post[0] else "close-fault-leaves-link-held"
        if not faulted:
            kind = kind.replace("-fault", "")
        if pre[0] == pre[1]:
            bad.append((kind, "%s() raising %s ends with is_open()=%s but link held=%s" % (call, st["exc"], post[0], post[1])))
    if pre[0] != pre[1]:
        return bad            # already reported at the call that broke the invariant; nothing is demanded here
    if call == "open":
        if pre[0]:
            if st["out"] != "X" or post != pre or st["opens"] != 0:
                bad.append(("open-on-open-not-refused", "open() on an open instrument: outcome %s, state %s -> %s, "
                            "link opened %d times" % (st["out"], pre, post, st["opens"])))
        elif st["out"] == "N":
            if post != (True, True) or st["opens"] != 1:
                bad.append(("open-success-wrong-state", "successful open() leaves is_open()=%s, link held=%s, link "
                            "opened %d times" % (post[0], post[1], st["opens"])))
        elif not faulted:
            bad.append(("open-fails-without-fault", "fault-free open() on a closed instrument raises %s" % st["exc"]))
    else:
        if not pre[0]:
            if st["out"] != "X" or post != pre or st["opens"] != 0:
                bad.append(("close-on-closed-not-refused", "close() on a closed instrument: outcome %s, state %s -> %s"
                            % (st["out"], pre, post)))
        elif st["out"] == "N":
            if post != (False, False) or st["opens"] != 0:
                bad.append(("close-success-wrong-state", "successful close() leaves is_open()=%s, link held=%s"
                            % (post[0], post[1])))
        elif not faulted:
            bad.append(("close-fails-without-fault", "fault-free close() on an open instrument raises %s" % st["exc"]))
    return bad


def coq_case(ident, st):
    def s(pair, n):
        return "(ob %s %s %d)" % (common.cbool(pair[0]), common.cbool(pair[1]), n)
    return "(%s_%s, %s, %s, %s)" % (ident, st["call"], s(st["pre"], 0), "Normal" if st["out"] == "N" else "Exc",
                                    s(st["post"], st["opens"]))


# ------------------------------------------------------------------------------------------------------
# run
# ------------------------------------------------------------------------------------------------------

def static_kinds(which, wits):
    kinds = {}
    for w in wits:
        if w["cat"] == 1:
            if which == "open":
                k = "open-fault-leaves-link-held" if w["held"] else "open-fault-leaves-flag-open"
            else:
                k = "close-fault-leaves-flag-open" if w["flag"] else "close-fault-leaves-link-held"
            if not w["fault_lines"]:
                k = k.replace("-fault", "")
        elif w["cat"] == 0:
            k = "%s-success-wrong-state" % which
        else:
            k = "open-on-open-not-refused" if which == "open" else "close-on-closed-not-refused"
        kinds.setdefault(k, []).append(w)
    for k in kinds:
        kinds[k].sort(key=lambda w: len(w["fault_lines"]))
    return kinds


def method_part(ck, classes, dyn, mres, mverd, gen_ok, not_covered):
    """per-method obligations `closed_safe m = true` + every rpc method really called on the closed instrument"""
    n_safe, failed, unguarded_known = 0, [], []
    terms, metas = [], []
    uncallable, outcomes = [], {}
    n_methods = n_called = 0
    for e in classes:
        r = mres.get(e["ident"])
        if r is None:
            continue
        d = dyn[e["ident"]].get("closed_methods") or {"calls": []}
        if dyn[e["ident"]].get("closed_methods") is None and dyn[e["ident"]]["status"] == "ok":
            not_covered.append({"class": e["class"], "config": e["config"], "part": "dynamic closed-method calls",
                                "reason": dyn[e["ident"]].get("closed_methods_error", "not run")})
        calls = {c["method"]: c for c in d["calls"]}
        # tie: the translator's method list = the live class's rpc methods
        live, stat = set(calls), {m["name"] for m in r["methods"]} | {x["name"] for x in r["skipped"]}
        if calls and live != stat:
            ck.report("tie:translator-live-mismatch:methods:%s:%s" % (e["ident"], digits_as_letters(e["ident"])),
                      "rpc methods of %s: translator and Python disagree (only static: %s, only live: %s)" % (
                          e["class"], sorted(stat - live)[:5], sorted(live - stat)[:5]),
                      {"broken": "translator t_c19_openclose (method discovery)", "class": e["class"]}, found_input=False)
        if r["skipped"]:
            reasons = sorted({x["reason"] for x in r["skipped"]})
            ck.report("tie:translator:methods:%s:%s" % (e["ident"], digits_as_letters(e["ident"])),
                      "%d rpc method(s) of %s cannot be translated (broken tie): %s ... : %s" % (
                          len(r["skipped"]), e["class"], [x["name"] for x in r["skipped"]][:6], reasons[:3]),
                      {"broken": "translator t_c19_openclose (methods)", "class": e["class"],
                       "methods": [x["name"] for x in r["skipped"]], "reasons": reasons}, found_input=False)
        for x in r["skipped"]:
            not_covered.append({"class": e["class"], "config": e["config"], "part": "static method %s" % x["name"],
                                "reason": x["reason"]})
            rec = calls.get(x["name"])     # search: the untranslatable method is still called on the closed instrument
            if rec is not None and rec["status"] == "called" and (
                    rec["touched"] or rec["post"] != [False, False] or rec["resources"] or rec["out"] == "H"):
                ck.report("%s.%s:closed-instrument-unguarded:%s" % (e["ident"], x["name"],
                                                                    digits_as_letters(e["ident"] + x["name"])),
                          "%s.%s() called on a CLOSED instrument: %d transport call(s) reached the device %s; afterwards "
                          "is_open()=%s, link held=%s" % (e["class"], x["name"], rec["touched"], rec["log"],
                                                          rec["post"][0], rec["post"][1]),
                          {"class": e["class"], "module": e["module"], "ident": e["ident"], "config": e["config"],
                           "live": e["live"], "phase": "closed-method", "method": x["name"], "observed": rec})
        # the assumption behind `if self.<resource> is not None`: absent whenever the instrument is closed
        for where in ("resources_present_after_construction", "resources_present_after_open_close"):
            if d.get(where):
                ck.report("tie:resource-none-when-closed:%s:%s" % (e["ident"], digits_as_letters(e["ident"])),
                          "%s: resource attribute(s) %s are not None on a closed instrument (%s): the translator's "
                          "assumption for `if self.<resource> is not None` does not hold" % (e["class"], d[where], where),
                          {"broken": "assumption none_when_closed", "class": e["class"], "attrs": d[where]},
                          found_input=False)
        for m in r["methods"]:
            n_methods += 1
            safe, may_n, may_x = mverd[m["ident"]]
            rec = calls.get(m["name"])
            dyn_bad, foreign = [], False
            if rec is not None and rec["status"] == "called":
                n_called += 1
                cls_ = "normal" if rec["out"] == "N" else "hang" if rec["out"] == "H" else \
                    "QMI_InvalidOperationException" if rec["invalid_op"] else rec["exc"]
                outcomes[cls_] = outcomes.get(cls_, 0) + 1
                ck.count("closed-method:" + ("refused (invalid operation)" if rec.get("invalid_op") else
                                             "returns normally" if rec["out"] == "N" else "other exception"))
                ck.note_case((e["ident"], "closed-method", m["name"]), True)
                if rec["out"] in ("N", "X"):
                    terms.append("(%s, %s)" % (m["ident"], "ONormal" if rec["out"] == "N" else "OExc"))
                    metas.append((e, m, rec))
                if rec["touched"]:
                    dyn_bad.append("%d transport call(s) reached the device %s" % (rec["touched"], rec["log"]))
                if rec["post"] != [False, False]:
                    dyn_bad.append("afterwards is_open()=%s, link held=%s" % tuple(rec["post"]))
                if rec["resources"]:
                    dyn_bad.append("resource(s) %s created" % rec["resources"])
                if rec["out"] == "H":
                    dyn_bad.append("the call did not return within 3 s")
                foreign = rec["out"] == "X" and not rec["invalid_op"]
            elif rec is not None:
                uncallable.append({"class": e["ident"], "method": m["name"], "reason": rec["reason"]})
            key = "%s.%s:closed-instrument-unguarded:%s" % (e["ident"], m["name"], digits_as_letters(e["ident"] + m["name"]))
            rep = {"class": e["class"], "module": e["module"], "ident": e["ident"], "config": e["config"],
                   "live": e["live"], "phase": "closed-method", "method": m["name"], "observed": rec,
                   "method_program": m["prog"], "defined_at": m["def"]}
            if safe:
                n_safe += 1
                if dyn_bad:
                    ck.report(key, "%s.%s() [%s] called on a CLOSED instrument: %s - although the generated method "
                              "program is closed_safe" % (e["class"], m["name"], m["def"], "; ".join(dyn_bad)), rep)
                continue
            confirmed = bool(dyn_bad) or foreign
            what = "%s.%s() [%s]: on a closed instrument an operation that is not guarded by a state check or by the " \
                   "transport is reachable (closed_safe = false)" % (e["class"], m["name"], m["def"])
            if confirmed:
                ck.report(key, what + "; confirmed on the real class: " + ("; ".join(dyn_bad) or
                          "raises %s instead of the invalid-operation error" % rec["exc"]), rep)
                known = ck.known_open(norm(key)) is not None
            else:
                ck.report(key + ":static-only", what + "; not confirmed on the real class (%s)" % (
                    "not callable: " + rec["reason"] if rec is not None and rec["status"] != "called" else
                    "no transport call, no state change, %s" % ("refused" if rec and rec.get("invalid_op") else
                                                                  "outcome %s" % (rec or {}).get("out"))),
                    dict(rep, broken="generated obligation closed_safe %s" % m["ident"]), found_input=False)
                known = ck.known_open(norm(key + ":static-only")) is not None
            (unguarded_known if known else failed).append(m["ident"])
    ck.add_generated_obligations(n_safe + len(failed), n_safe if gen_ok else 0,
                                 failed if gen_ok else ["C19Methods.v does not compile"])
    ck.coverage["method_obligations"] = {
        "rpc_methods_translated": n_methods, "closed_safe_proved": n_safe,
        "unguarded_listed_as_known_finding(counted separately)": unguarded_known, "unguarded_not_listed": failed,
        "called_on_closed_instrument": n_called, "outcomes_on_closed_instrument": outcomes,
        "not_callable(no argument could be synthesised)": uncallable,
        "resources_assumed_none_when_closed": {i: r["none_when_closed"] for i, r in mres.items() if r["none_when_closed"]},
        "attribute_kinds": {i: {k: v for k, v in r["kinds"].items() if v == "resource"} for i, r in mres.items()
                            if any(v == "resource" for v in r["kinds"].values())},
        "wrapper_fact_problems": sorted({p for r in mres.values() for p in r["wrapper_facts"]}),
        "transport_io_methods_refusing_when_closed": getattr(TR.translate_all_methods, "survey", {}),
        "translator_notes": sorted({n for r in mres.values() for n in r["notes"]})}
    for p in ck.coverage["method_obligations"]["wrapper_fact_problems"]:
        ck.report("tie:wrapper-shape:" + re.sub(r"[^A-Za-z_.]+", "-", p)[:60],
                  "a protocol class no longer reaches the device only through the transport's I/O methods: " + p,
                  {"broken": "wrapper_facts of t_c19_openclose", "fact": p}, found_input=False)
    return terms, metas


def run(ck):
    ck.theory_dir = THEORY
    ck.trusted = [
        "Coq 8.16.1 kernel (vm_compute discharges the per-class side conditions and evaluates post on the cases)",
        "translator harness/translators/t_c19_openclose.py (python ast, fail-closed): its output is validated on every "
        "run by executing every class under fault injection and checking each observed call against the model's post set",
        "fake transport = subclass of the real QMI_Transport (real open/close/_check_is_open); only the OS resource is "
        "replaced; a failing close leaves the transport marked closed, as the five real transports do (checked by AST)",
        "stub context unittest.mock.MagicMock(spec=QMI_Context), as in the repository's own driver tests",
        "LinkOpen/LinkClose are tied to the REAL _open_transport()/close() of QMI_TcpTransport, QMI_UdpTransport, "
        "QMI_SerialTransport, QMI_Vxi11Transport and QMI_PyUsbTmcTransport run on recording fakes of the OS primitives "
        "(socket.socket/create_connection/gethostbyname, serial.Serial, vxi11.Instrument, qmi.core.usbtmc.Instrument) with "
        "a fault at every primitive call; NOT tied: the pyvisa transports (Windows-only) and the USB layer inside "
        "qmi.core.usbtmc.Instrument",
        "the model's primitives (CheckOpen/CheckClosed/SetOpen/SetClosed, LinkOpen/LinkClose) are checked on every run "
        "against the real QMI_Instrument and QMI_Transport (+ every transport subclass) for every flag value and "
        "hook/resource failing or not: outcome, exception class, resulting flag, hook calls, nothing else changed",
    ]
    ck.assumptions = [
        "part 2 (closed instrument): an operation on the transport is refused by the transport itself when it is closed "
        "(QMI_Transport._check_is_open; surveyed per transport method in the evidence, the transports are C13's subject); "
        "a protocol object built around the link (ScpiProtocol, AptProtocol, NKTPhotonicsInterbusProtocol) reaches the "
        "device only through that transport's I/O methods (checked by AST on every run); a None-able resource attribute "
        "(Montana burst timer) is None whenever the instrument is closed (checked on the real class on every run); "
        "attribute reads, property getters and functions that are not methods of the class do not touch the device "
        "unless they are handed the link",
        "a statement that is not one of the interpreted calls never changes QMI_Instrument._is_open or the transport's "
        "open state (helpers are inlined when they mention them; a link passed to another object is not followed)",
        "one device link per instrument: bristol_871a is covered once per single-link configuration, not with both "
        "links configured",
        "retry loop of wavelength/tclab.py unrolled 3 times (a failing link open leaves the state unchanged)",
        "DLL/SDK-based drivers (no create_transport) are outside the property",
    ]
    scratch = ck.scratch_dir()
    # 1. translate
    try:
        res = TR.translate(common.REPO)
    except (TR.TranslationError, SyntaxError, OSError, RecursionError) as e:
        ck.proof_ok = False
        ck.report("tie:translator", "t_c19_openclose could not read the driver tree (broken tie): %s" % e,
                  {"broken": "translator t_c19_openclose", "error": str(e)}, found_input=False)
        return ck.finish("translator failed")
    # the base classes behave like the model's primitives?  (behavioural, exhaustive; replaces the syntactic shapes)
    import logging
    logging.disable(logging.CRITICAL)
    try:
        bprob, bterms, bsum = base_behaviour()
    except Exception as e:  # noqa: BLE001
        bprob, bterms, bsum = [("base-behaviour:harness", "the base-class behaviour check could not run: %s: %s" % (
            type(e).__name__, e), {"broken": "c19.base_behaviour", "error": repr(e)})], [], {}
    finally:
        logging.disable(logging.NOTSET)
    ck.coverage["base_class_behaviour"] = bsum
    for key, text, detail in bprob:
        ck.report(key, "the real base class does not behave like the model's primitive: " + text, detail,
                  found_input="broken" not in detail)
    for _ in bterms:
        ck.count("base-primitive-case")
    # LinkOpen / LinkClose on the real link-establishment code of every concrete transport that runs offline
    lterms, lmetas = [], []
    logging.disable(logging.CRITICAL)
    try:
        lsc, lsum = link_establishment()
    except Exception as e:  # noqa: BLE001
        lsc, lsum = [], {"error": "%s: %s" % (type(e).__name__, e)}
        ck.report("tie:link-establishment:harness", "the real transports could not be driven on the fake OS primitives "
                  "(broken tie): %s: %s" % (type(e).__name__, e), {"broken": "c19.link_establishment", "error": repr(e)},
                  found_input=False)
    finally:
        logging.disable(logging.NOTSET)
    ck.coverage["link_establishment"] = lsum

    def lkey(name, st, kind):
        f = st["fired"][0] if st["fired"] else [0, "no-fault", "none"]
        return "%s:%s:%s:%s" % (name, kind, f[1], f[2])
    for name, which, plan, steps in lsc:
        ck.count("link-establishment:%s:%s" % (which, "+".join(sorted(plan.values())) or "no-fault"))
        for i, st in enumerate(steps):
            ck.note_case((name, which, sorted(plan.items()), i), bool(st["fired"]) or i > 0)
            why = link_oracle(st)
            t_ = link_term(st, st["fired"][0][0] if st["fired"] else 0)
            if t_ is not None and not why:
                lterms.append(t_)
                lmetas.append((name, which, plan, steps, i))
            for kind, text in why:
                ck.report(lkey(name, st, kind), "%s (real %s on recording fakes of the OS primitives; primitive calls %s; fault %s)"
                          % (name + ": " + text, "_open_transport()" if st["call"] == "open" else "close()", st["log"],
                             st["fired"] or "none"),
                          {"phase": "link-establishment", "cls": name, "which": which, "plan": {str(k): v for k, v in plan.items()},
                           "failing_step": i, "observed_steps": steps})
            if why:
                break       # later steps of this scenario start from the state just reported
    classes = res["classes"]
    dyn_only = [x["entry"] for x in res["not_covered"] if "entry" in x]   # untranslatable: oracle only
    not_covered = [{"class": s["class"], "config": s.get("config"), "part": "static+dynamic", "reason": s["reason"]}
                   for s in res["not_covered"]]
    for s in res["not_covered"]:
        ck.report("tie:translator:%s:%s" % (s["class"], digits_as_letters(s["class"])),
                  "driver class %s cannot be translated (broken tie): %s" % (s["class"], s["reason"]),
                  {"broken": "translator t_c19_openclose", "class": s["class"], "reason": s["reason"]},
                  found_input=False)
    # every driver module that calls create_transport must contribute at least one translated class
    import glob
    using = []
    for fn in sorted(glob.glob(os.path.join(common.REPO, "qmi", "instruments", "*", "*.py"))):
        with open(fn, "rb") as f:
            if b"create_transport(" in f.read():
                using.append(os.path.relpath(fn, common.REPO))
    have = {e["file"] for e in classes} | {e["open_file"] for e in classes} | \
           {x["entry"]["file"] for x in res["not_covered"] if "entry" in x}
    ck.coverage["modules_calling_create_transport"] = len(using)
    for fn in using:
        if fn not in have:
            not_covered.append({"class": fn, "config": None, "part": "static+dynamic",
                                "reason": "module calls create_transport but no QMI_Instrument subclass with a link "
                                          "attribute was recognised in it"})
            ck.report("tie:translator:module:%s" % re.sub(r"\d", lambda m: "abcdefghij"[int(m.group(0))], fn),
                      "driver module %s calls create_transport but contributes no translated class (broken tie)" % fn,
                      {"broken": "translator t_c19_openclose (class discovery)", "module": fn}, found_input=False)
    # 2. programs, verdicts (by Coq), obligations
    ok, log = common.build_vo([os.path.join(common.COQ, "theories", THEORY, f) for f in ("Model.v", "Proofs.v", "Corr.v")])
    if not ok:
        ck.proof_ok = False
        ck.proof_log += log
        return ck.finish("theory does not build")
    ok, log = common.build_vo([os.path.join(common.COQ, "theories", THEORY, "ProofsRpc.v")])
    if not ok:
        ck.proof_ok = False
        ck.proof_log += log
    progs, verd, wit = compute_verdicts(res, scratch)
    with open(GEN, "w") as f:
        f.write(progs + TR.emit_obligations(res, verd))
    # part 2: every rpc method of every class
    try:
        mres = TR.translate_all_methods(common.REPO, res)
        mverd = compute_method_verdicts(mres, scratch)
    except (TR.TranslationError, SyntaxError, OSError, RecursionError, RuntimeError) as e:
        ck.proof_ok = False
        ck.report("tie:translator:methods", "the rpc methods could not be translated / evaluated (broken tie): %s" % e,
                  {"broken": "translator t_c19_openclose (methods)", "error": str(e)[-2000:]}, found_input=False)
        mres, mverd = {}, {}
    for e in classes:
        e["none_when_closed"] = mres.get(e["ident"], {}).get("none_when_closed", [])
    ck.build_theory(THEORY, extra_gen=[GEN] + ([GEN_M] if mres else []))
    gen_ok = "generated obligation file" not in ck.proof_log

    # 3. dynamic
    # (driver modules are imported inside the forked children, so a broken import stays contained)
    t0 = time.time()
    mp = multiprocessing.get_context("fork")
    dyn = {}
    with mp.Pool(min(common.NPROC, 12)) as pool:
        asyncs = [(e, pool.apply_async(_dyn_entry, ((e, ck.tier, ck.rng.getrandbits(32)),))) for e in classes + dyn_only]
        for e, a in asyncs:
            try:
                dyn[e["ident"]] = a.get(timeout=120)
            except multiprocessing.TimeoutError:
                dyn[e["ident"]] = {"ident": e["ident"], "status": "not-instantiable", "scenarios": [],
                                   "reason": "dynamic run exceeded 120 s (hang)"}
        pool.terminate()
    ck.coverage["dynamic_s"] = round(time.time() - t0, 1)

    terms, metas = [], []
    dyn_viol = {}     # key -> (text, replay)
    for e in classes + dyn_only:
        d = dyn[e["ident"]]
        if d["status"] != "ok":
            not_covered.append({"class": e["class"], "config": e["config"], "part": "dynamic", "reason": d["reason"]})
        for sc in d["scenarios"]:
            if sc.get("error"):
                not_covered.append({"class": e["class"], "config": e["config"], "part": "dynamic scenario %s %s" % (
                    sc["phase"], sc["plan"]), "reason": sc["error"]})
                continue
            fault_kinds = sorted(set(sc["plan"].values())) + (["closefail"] if sc["closefail"] else [])
            ck.count("scenario:%s:%s" % (sc["phase"], "+".join(fault_kinds) or "no-fault"))
            for i, st in enumerate(sc["steps"]):
                faulted = bool(st["fired"])
                ck.count("call:%s:%s%s" % (st["call"], "ok" if st["out"] == "N" else "raises", ":faulted" if faulted else ""))
                ck.note_case((e["ident"], sc["phase"], sorted(sc["plan"].items()), sc["closefail"], i), faulted or i > 0)
                if "open" in e:
                    terms.append(coq_case(e["ident"], st))
                    metas.append((e, sc, i))
                for kind, text in oracle_step(st, faulted):
                    key = fkey(e["ident"], kind)
                    if key not in dyn_viol:
                        dyn_viol[key] = (text, e, sc, i)
        ld = d.get("live_defs")
        if ld and "open" in e:
            for w in ("open", "close"):
                if ld[w] != e[w + "_defcls"]:
                    ck.report("tie:translator-live-mismatch:%s:%s" % (e["ident"], digits_as_letters(e["ident"])),
                              "translator resolved %s.%s to class %s, Python resolves it to %s" % (
                                  e["class"], w, e[w + "_defcls"], ld[w]),
                              {"broken": "translator t_c19_openclose (MRO)", "class": e["class"]}, found_input=False)
        cio = d.get("closed_io")
        if cio is not None:
            ck.count("closed-instrument-rpc-calls", cio[0])
            if cio[1] != 0 or cio[3] or cio[4]:
                key = fkey(e["ident"], "closed-instrument-does-io")
                dyn_viol.setdefault(key, ("calling RPC methods on the closed instrument reached the device: %s" % (cio,),
                                          e, {"phase": "closed-io", "plan": {}, "closefail": False, "steps": []}, 0))

    def replay_of(e, sc, i, extra=None):
        r = {"class": e["class"], "module": e["module"], "ident": e["ident"], "config": e["config"], "live": e["live"],
             "phase": sc["phase"], "plan": {str(k): v for k, v in sc["plan"].items()}, "closefail": sc["closefail"],
             "failing_step": i, "observed_steps": sc["steps"],
             "open_program": e.get("open"), "close_program": e.get("close"),
             "open_defined_at": e.get("open_def"), "close_defined_at": e.get("close_def")}
        if extra:
            r.update(extra)
        return r

    # 4. static verdicts vs dynamic observations
    n_ok, failed, refuted_known, refuted_unlisted = 0, [], [], []
    for e in classes:
        vo, vc = verd[e["ident"]]
        for which, v in (("open", vo), ("close", vc)):
            if v:
                n_ok += 1
                continue
            kinds = static_kinds(which, wit[e["ident"]][which])
            all_known = True
            for kind, ws in kinds.items():
                key = fkey(e["ident"], kind)
                confirmed = key in dyn_viol
                w = ws[0]
                if confirmed:       # prefer the counter-example whose fault line the dynamic run hit
                    _, _, sc_, i_ = dyn_viol[key]
                    seen_lines = set(sc_["steps"][i_]["lines"]) if sc_["steps"] else set()
                    w = next((x for x in ws if set(x["fault_lines"]) & seen_lines), w)
                what = "%s.%s() [%s]: the analyser finds an execution ending with is_open()=%s, link held=%s after " \
                       "faults at source lines %s" % (e["class"], which, e[which + "_def"], w["flag"], w["held"],
                                                      w["fault_lines"])
                if confirmed:
                    text, e2, sc, i = dyn_viol[key]
                    st = sc["steps"][i] if sc["steps"] else {}
                    line_ok = bool(set(w["fault_lines"]) & set(st.get("lines", [])))
                    ck.report(key, what + "; confirmed on the real class: %s (fault plan %s%s)" % (
                        text, sc["plan"], " + failing cleanup close" if sc["closefail"] else ""),
                        replay_of(e2, sc, i, {"static_witness": w, "static_line_seen_in_traceback": line_ok}))
                    if ck.known_open(norm(key)) is None:
                        all_known = False
                else:
                    ck.report(key + ":static-only", what + "; NOT reproduced on the real class (dynamic status: %s)"
                              % dyn[e["ident"]]["status"],
                              {"class": e["class"], "ident": e["ident"], "static_witness": w,
                               "broken": "generated obligation ok_%s %s_%s" % (which, e["ident"], which)},
                              found_input=False)
                    if ck.known_open(norm(key + ":static-only")) is None:
                        all_known = False
            (refuted_known if all_known else refuted_unlisted).append("%s_%s" % (e["ident"], which))
            if not all_known:
                failed.append("%s_%s" % (e["ident"], which))
    # dynamic violations the static side did not predict: the translation/model is unsound there (or a new defect)
    for key, (text, e, sc, i) in dyn_viol.items():
        kind = key.split(":")[1]
        which = "close" if kind.startswith("close") and kind != "closed-instrument-does-io" else "open"
        predicted = False
        if e["ident"] in verd and not verd[e["ident"]][0 if which == "open" else 1]:
            predicted = kind in static_kinds(which, wit[e["ident"]][which])
        if not predicted:
            ck.report(key, "%s: %s (fault plan %s%s) - observed on the real class; the generated program does not "
                      "predict this failure" % (e["class"], text, sc["plan"], " + failing cleanup close" if sc["closefail"] else ""),
                      replay_of(e, sc, i))
    total_listed = n_ok + len(failed)
    ck.add_generated_obligations(total_listed, n_ok if gen_ok else 0, failed if gen_ok else ["C19Drivers.v does not compile"])
    ck.coverage["generated_obligations"] = {
        "driver_classes_translated": len(classes), "per_class": 2,
        "proved_ok": n_ok, "refuted_listed_as_known_finding(counted separately)": refuted_known,
        "refuted_not_listed": refuted_unlisted}
    ck.coverage["not_covered"] = not_covered
    ck.coverage["classes"] = {e["ident"]: {"module": e["module"], "ok_open": verd[e["ident"]][0],
                                           "ok_close": verd[e["ident"]][1], "dynamic": dyn[e["ident"]]["status"],
                                           "open_transport_calls": len(dyn[e["ident"]].get("open_calls", [])),
                                           "scenarios": len(dyn[e["ident"]]["scenarios"])} for e in classes}
    ck.coverage["translator_notes"] = [n for e in classes for n in e.get("notes", [])]

    # 4b. part 2: "a closed instrument performs no device I/O" — per-method obligations and the dynamic tie
    mterms, mmetas = method_part(ck, classes, dyn, mres, mverd, gen_ok, not_covered)

    # 5. correspondence: every observed call lies in post of the generated program
    if mterms:
        mbad = ck.run_model(CORR_M, "check_mcase", mterms, "mcase", shard=400)
        ck.coverage["method_correspondence_disagreements"] = len(mbad)
        for idx in mbad[:20]:
            e, m, rec = mmetas[idx]
            ck.report("corr:%s.%s:%s" % (e["ident"], m["name"], digits_as_letters(e["ident"] + m["name"])),
                      "%s.%s() on a closed instrument %s, which the generated method program does not allow" % (
                          e["class"], m["name"], "returned normally" if rec["out"] == "N" else "raised " + str(rec["exc"])),
                      {"class": e["class"], "module": e["module"], "ident": e["ident"], "config": e["config"],
                       "live": e["live"], "phase": "closed-method", "method": m["name"], "observed": rec,
                       "method_program": m["prog"], "broken": "correspondence C19.Corr.check_mcase"},
                      found_input=False)
    if bterms:
        for idx in ck.run_model("C19.Corr", "check_case", bterms, "case"):
            ck.report("base-behaviour:model:%d" % idx, "a base-class call observed on the real class is not an execution "
                      "of the model's primitive: %s" % bterms[idx], {"phase": "base-behaviour", "case": bterms[idx]})
        for t_ in bterms:
            ck.note_case(("base", t_), True)
    if lterms:
        for idx in ck.run_model("C19.Corr", "check_case", lterms, "case"):
            name, which, plan, steps, i = lmetas[idx]
            st = steps[i]
            ck.report(lkey(name, st, "not-an-execution-of-" + ("LinkOpen" if st["call"] == "open" else "LinkClose")),
                      "%s.%s() observed on the fake OS primitives is not an execution of the model's primitive: %s" % (
                          name, st["call"], lterms[idx]),
                      {"phase": "link-establishment", "cls": name, "which": which, "plan": {str(k): v for k, v in plan.items()},
                       "failing_step": i, "observed_steps": steps, "broken": "correspondence C19.Corr.check_case"},
                      found_input=False)
    bad = ck.run_model(CORR, "check_case", terms, "case", shard=300)
    ck.coverage["correspondence_disagreements"] = len(bad)
    seen = set()
    for idx in bad:
        e, sc, i = metas[idx]
        st = sc["steps"][i]
        k = (e["ident"], st["call"])
        if k in seen:
            continue
        seen.add(k)
        why = oracle_step(st, bool(st["fired"]))
        mo = ck.model_eval(CORR, "map show_st (model_out %s)" % coq_case(e["ident"], st)) if len(seen) <= 5 else ""
        ck.report("corr:%s:%s:%s" % (e["ident"], st["call"], digits_as_letters(e["ident"])),
                  "%s.%s(): observed %s -> %s (%s, %d link opens) is not in the post set of the generated program%s" % (
                      e["class"], st["call"], st["pre"], st["post"], st["out"], st["opens"],
                      ": " + why[0][1] if why else " (the property oracle passes on it)"),
                  replay_of(e, sc, i, {"model_post": mo, "broken": "correspondence C19.Corr.check_case"}),
                  found_input=bool(why))
    for e, sc, i in metas[:1] + metas[len(metas) // 2:len(metas) // 2 + 1] + metas[-1:]:
        ck.sample({"class": e["ident"], "phase": sc["phase"], "plan": sc["plan"], "step": sc["steps"][i]}, 3)
    return ck.finish("one case = one real open()/close() call on a real driver class under a fault plan; all classes x "
                     "every fault index k of open() and close() x 4 fault kinds (+ failing cleanup close); "
                     "non-trivial = a fault fired in the call or the call follows one; distinct by (class, plan, step)",
                     "per-class generated obligations: %d proved, %d refuted and listed as known findings, %d refuted "
                     "and not listed; not covered: %d" % (n_ok, len(refuted_known), len(refuted_unlisted), len(not_covered)))


def replay(rep):
    c = rep["case"]
    if "phase" not in c:
        print("replay file carries no scenario (broken tie / static-only refutation):", rep.get("what"))
        print(json.dumps(c, indent=1)[:3000])
        return 1
    import logging
    logging.disable(logging.CRITICAL)
    if c["phase"] == "link-establishment":
        spec = next((x for x in _link_specs() if x[0] == c["cls"]), None)
        if spec is None:
            print("transport class %s cannot be driven any more" % c["cls"])
            return 1
        steps = link_scenario(spec, c["which"], {int(k): v for k, v in c["plan"].items()})
        rc = 0
        print("real %s on recording fakes of the OS primitives; faulted call: %s(), fault plan %s" % (c["cls"], c["which"], c["plan"]))
        for st in steps:
            why = link_oracle(st)
            print("  %-5s -> %s%s  marked open=%s  OS resources held=%d (created by this call: %d, still open: %d)  primitives=%s%s" % (
                st["call"], "returns" if st["out"] == "N" else "raises ", "" if st["out"] == "N" else st["exc"], st["marked"],
                st["held"], st["created"], st["created_still_open"], st["log"], "   <-- PROPERTY FAILS: " + why[0][1] if why else ""))
            if why:
                rc = 1
                break
        print("oracle:", "property FAILS on this scenario" if rc else "property holds on this scenario")
        return rc
    if c["phase"] == "base-behaviour":
        bprob, bterms, bsum = base_behaviour()
        print("base-class behaviour check:", bsum)
        for key, text, detail in bprob:
            print("  MISMATCH", key, "-", text)
        print("oracle:", "the base classes do NOT behave like the model's primitives" if bprob else
              "the base classes behave like the model's primitives")
        return 1 if bprob else 0
    res = TR.translate(common.REPO)
    entry = next((e for e in res["classes"] if e["ident"] == c["ident"]), None)
    if entry is None:
        print("class %s is no longer translated" % c["ident"])
        return 1
    time.sleep = lambda s: None
    plan = {int(k): v for k, v in c.get("plan", {}).items()}
    if c["phase"] == "closed-method":
        mres = TR.translate_all_methods(common.REPO, res).get(c["ident"], {})
        entry["none_when_closed"] = mres.get("none_when_closed", [])
        d = closed_method_calls(entry, entry["none_when_closed"])
        rec = next((x for x in d["calls"] if x["method"] == c["method"]), None)
        prog = next((m["prog"] for m in mres.get("methods", []) if m["name"] == c["method"]), None)
        print("class %s, method %s called on a CLOSED instrument" % (c["ident"], c["method"]))
        print("generated method program:", prog)
        print("observed:", rec)
        bad = rec is not None and rec.get("status") == "called" and (
            rec["touched"] or rec["post"] != [False, False] or rec["resources"] or rec["out"] == "H")
        print("oracle:", "the closed instrument touched the device / changed state / created a resource" if bad
              else "no device access, state unchanged")
        return 1 if bad else 0
    if c["phase"] == "closed-io":
        cio = closed_instrument_io(entry)
        print("closed instrument, rpc methods tried / device calls / log / is_open / held:", cio)
        return 1 if (cio[1] or cio[3] or cio[4]) else 0
    steps = run_scenario(entry, c["phase"], plan, c.get("closefail", False))
    rc = 0
    print("class %s (%s), phase %s, fault plan %s%s" % (c["ident"], entry["module"], c["phase"], plan,
                                                       " + failing cleanup close" if c.get("closefail") else ""))
    print("generated open program :", entry["open"])
    print("generated close program:", entry["close"])
    for st in steps:
        why = oracle_step(st, bool(st["fired"]))
        print("  %-5s pre(is_open,held)=%s -> %s%s post=%s link-opens=%d transport calls=%s%s" % (
            st["call"], tuple(st["pre"]), "returns" if st["out"] == "N" else "raises ", "" if st["out"] == "N" else st["exc"],
            tuple(st["post"]), st["opens"], st["log"], "   <-- PROPERTY FAILS: " + why[0][1] if why else ""))
        if why:
            rc = 1
    # model side
    try:
        d = os.path.join(common.COQ, "cases", "C19.replay.%d" % os.getpid())
        os.makedirs(d, exist_ok=True)
        fn = os.path.join(d, "replay.v")
        with open(fn, "w") as f:
            f.write("From Coq Require Import List Bool NArith String.\nImport ListNotations.\n"
                    "Require Import QV.C19.Corr.\nLocal Open Scope N_scope.\n")
            f.write("Definition p_open : prog := %s.\nDefinition p_close : prog := %s.\n" % (entry["open"], entry["close"]))
            for st in steps:
                f.write("Eval vm_compute in (check_case (p_%s, ob %s %s 0, %s, ob %s %s %d), map show_st (model_out (p_%s, ob %s %s 0, %s, ob %s %s %d))).\n" % (
                    (st["call"], common.cbool(st["pre"][0]), common.cbool(st["pre"][1]), "Normal" if st["out"] == "N" else "Exc",
                     common.cbool(st["post"][0]), common.cbool(st["post"][1]), st["opens"]) * 2))
        rcq, out = coqc(fn, 120)
        print("model (observed call in post set?, post set as (flag, held, link-opens, fault lines)):")
        for m in re.finditer(r"=\s*(\(.*?\))\s*:\s*bool \*", out, re.S):
            print("   ", re.sub(r"\s+", " ", m.group(1)))
        import shutil
        shutil.rmtree(d, ignore_errors=True)
    except Exception as e:  # noqa: BLE001
        print("model side not evaluated:", e)
    print("oracle:", "property FAILS on this scenario" if rc else "property holds on this scenario")
    return rc
