"""C03 — calls on one object run one at a time, in the order they were issued.

Same H3 machinery as C01 (real contexts under the deterministic scheduler, trace acceptance by the
shared Coq model, whose execution log must equal the real order of method entries), with scenarios
that stress ordering: 1-4 caller threads per context, up to 5 calls each, mixed blocking and
non-blocking calls (non-blocking calls are issued back to back and waited for afterwards), and a
method body that yields to the scheduler in the middle.
Oracle: enter/exit records of the method bodies never nest; per calling thread the bodies are
entered in issue order; no body is entered twice.
"""
import dsched
import rpcsim
import c01

THEORY = "C03"


def scenario_burst(s, spec):
    """like rpcsim.scenario, but callers issue all their non-blocking calls first and wait afterwards"""
    return rpcsim.scenario(s, spec)


def oracle(spec, res):
    if res["status"] == "deadlock":
        return "hang", "deadlock"
    if res["status"] != "ok":
        return "error", "scenario error: %s" % str(res.get("trace") or res)[:300]
    o = res["obs"]
    seen = {}
    entered = []
    for x in o["execlog"]:
        if x[2] != 1:
            return "overlap", "two method bodies of one object overlap: %s" % (o["execlog"],)
        if x[0] == "enter":
            entered.append(x[1])
    if len(set(entered)) != len(entered):
        return "twice", "a request was executed twice: %s" % entered
    # dispatch order at the worker, lock-control requests included (they travel the same queue)
    key_tag = {e[1]: e[4] for e in o["trace"] if e[0] == "Issue"}
    dispatched = [key_tag.get(e[1]) for e in o["trace"] if e[0] == "Exec"]
    for tag in dispatched:
        if tag is None or tag == "later":
            continue
        if "." not in tag:
            continue
        caller, idx = tag.rsplit(".", 1)
        if not idx.isdigit():
            continue
        if seen.get(caller, -1) >= int(idx):
            return "order", "caller %s: call %s executed after call %d of the same thread; execution order %s" % (
                caller, tag, seen[caller], dispatched)
        seen[caller] = int(idx)
    return None


def gen_specs(ck, n):
    rng = ck.rng
    specs = []
    for _ in range(n):
        nl, nr = rng.choice([(2, 2), (3, 1), (1, 3), (0, 3), (3, 0), (2, 1), (1, 2), (4, 0), (0, 4)])
        mk = lambda: [rng.choice(["ok", "ok", "exc", "ok", "badres", "islocked", "islocked", "getname", "getsignals", "selfcall", "big", "big", "huge"]) for _ in range(rng.randint(2, 5))]
        specs.append(dict(local=[mk() for _ in range(nl)], remote=[mk() for _ in range(nr)],
                          fault=rng.choice(["none", "none", "none", "remove", "disconnect", "stop_client"]),
                          nb=[rng.random() < 0.7 for _ in range(4)], burst=True))
    return specs


def run(ck):
    ck.theory_dir = THEORY
    ck.build_theory(THEORY)
    ck.trusted = [
        "Coq 8.16.1 kernel + vm_compute (model evaluated on recorded traces)",
        "shared RPC pipeline model theories/C01/Model.v, tied by trace acceptance incl. equality of execution logs",
        "dsched deterministic scheduler, fake loop and network; probes in harness/rpcsim.py",
    ]
    ck.assumptions = ["a calling thread lives in one context (hypothesis of the theorems)",
                      "the method body is one atomic step of the model; that the real worker never overlaps bodies is observed (enter/exit records), not proved",
                      "one client connection; fairness between different callers is not claimed"]
    nspec, per = (50, 8) if ck.tier == "quick" else (400, 16)
    specs = gen_specs(ck, nspec)
    terms, metas = [], []
    for sp, res in c01.run_specs(ck, specs, per):
        ck.note_case((repr(sp), tuple(res.get("choices") or ())), True)
        ck.count("fault:" + sp["fault"])
        ck.count("callers:%d+%d" % (len(sp["local"]), len(sp["remote"])))
        bad = oracle(sp, res) or c01.oracle(sp, res)
        if bad:
            ck.report("oracle:%s" % bad[0], "C03 fails on the implementation: %s" % bad[1],
                      {"spec": sp, "schedule": res.get("choices"), "status": res["status"]})
            continue
        try:
            labels, info, cls, xlog = c01.to_labels(res["obs"], sp)
        except Exception as e:  # noqa
            ck.report("harness:trace", "could not translate a trace: %r" % (e,), {"spec": sp}, found_input=False)
            continue
        ck.count("executed:%d" % min(len(xlog), 12))
        terms.append(c01.coq_case(True, labels, info, cls, xlog))
        metas.append((sp, res.get("choices"), labels, xlog))
    # transient transmission failure of one request inside a burst of non-blocking calls (oracles only: the model knows
    # connection loss, not a failing send on a connection that stays up)
    fspecs = []
    for nr, ncalls, k in ((1, 5, 0), (1, 5, 1), (1, 4, 2), (2, 4, 0), (2, 4, 3), (1, 6, 3)):
        fspecs.append(dict(local=[], remote=[["ok"] * ncalls for _ in range(nr)], fault="none", nb=[True] * 4, burst=True,
                           send_fault=k))
    for sp, res in c01.run_specs(ck, fspecs, 4 if ck.tier == "quick" else 24):
        ck.note_case((repr(sp), tuple(res.get("choices") or ())), True)
        ck.count("send-fault:%s" % res["status"])
        bad = oracle(sp, res)
        if not bad and res["status"] != "ok":
            bad = ("status", "scenario ended with %s %s" % (res["status"], str(res.get("trace") or "")[:200]))
        if bad:
            ck.report("oracle:send-fault:%s" % bad[0], "C03 fails on the implementation (one transmission of a request fails "
                      "with ENOBUFS inside a burst of non-blocking calls): %s" % bad[1],
                      {"spec": sp, "schedule": res.get("choices"), "status": res["status"]})
    for m in metas[:1] + metas[-2:]:
        ck.sample({"spec": m[0], "execution_order": m[3], "n_labels": len(m[2])}, 3)
    bad = ck.run_model("C03.Corr", "check_case", terms, "case", shard=50)
    ck.coverage["correspondence_disagreements"] = len(bad)
    for i in bad[:3]:
        sp, sched, labels, xlog = metas[i]
        mo = ck.model_eval("C03.Corr", "model_out %s" % terms[i])
        ck.report("corr:%s" % sp["fault"], "a real execution (or its execution order) is not a run of the Coq model; model says: %s" % mo[:300],
                  {"spec": sp, "schedule": sched, "labels": labels, "execution_order": xlog,
                   "broken": "correspondence C01.Corr.check_case (trace acceptance, execution log)"}, found_input=False)
    return ck.finish("random caller/call mixes (1-4 threads per context, 2-5 calls each, 70% non-blocking) x seeded random/PCT schedules; all distinct and non-trivial")


def replay(rep):
    c = rep["case"]
    import qmi.core.context, qmi.core.rpc, qmi.core.messaging, qmi.core.pubsub, qmi.core.task, qmi.core.config_defs  # noqa
    res = dsched.run_forked([(rpcsim.scenario, (c["spec"],), dict(strategy="replay", schedule=list(c.get("schedule") or [])))],
                            nproc=1, wall_timeout=60)[0]
    print("status:", res["status"])
    print("execlog:", (res.get("obs") or {}).get("execlog"))
    bad = oracle(c["spec"], res) or c01.oracle(c["spec"], res)
    print("oracle:", bad or "property holds on this schedule")
    return 1 if bad else 0
