"""C08 — subscription state stays consistent through removal and disconnects.

Same H2 simulation and Coq model as C07 (pubsub_sim.py, theories/C07/Model.v), with histories that
stress publisher removal, connect / close at every position (each end notices the loss on its own),
several receivers per signal, re-subscription while the unsubscribe request is still pending, and
subscriptions to publishers that do not exist.  After every handler the messages handed to the
router per peer are compared with the model; at check points the four tables.  At quiescent points
the harness publishes once per probed signal and delivers: a peer must get a message exactly when a
receiver there still gets a record (independent oracle, pubsub_sim.Oracle keys c08:*), later
publications must not reach receivers whose subscription ended, and no subscribe call may remain
blocked once everything is delivered and half-open connections are closed.

H3 (dsched + fake network): a subscriber thread of a real QMI_Context blocks in subscribe while the
peer is disconnected / stopped / the publisher removed, under random schedules: the call must return.
"""
import json
import logging
import os

import dsched
import pubsub_sim as S
import c07

THEORY = "C08"
KEYS = ("c08", "c07")


def scenario_block(s, seed, how, lines=False):
    import random
    import threading as real_threading
    import qmi.core.context as C
    import qmi.core.rpc as R
    import qmi.core.pubsub as P
    from qmi.core.config_defs import CfgQmi, CfgContext
    from qmi.core.exceptions import QMI_TimeoutException
    logging.disable(logging.CRITICAL)
    rng = random.Random(seed)
    obs = {"results": [], "joined": False, "how": how, "late": None}
    s.obs = obs
    s.recording = False

    class Pub(R.QMI_RpcObject):
        s = P.QMI_Signal([int])

    port = 53000 + (seed % 500)
    c1 = C.QMI_Context("c1", CfgQmi(contexts={"c1": CfgContext(host="127.0.0.1", tcp_server_port=port)}))
    c1.start()
    proxy = c1.make_rpc_object("pub", Pub)
    c2 = C.QMI_Context("c2")
    c2.start()
    c2.connect_to_peer("c1", "127.0.0.1:%d" % port)
    recvs = [P.QMI_SignalReceiver() for _ in range(2)]

    def subscriber(i):
        for k in range(2):
            try:
                c2.subscribe_signal("c1", "pub", "s", recvs[i])
                obs["results"].append([i, "ok"])
            except Exception as exc:
                obs["results"].append([i, type(exc).__name__])
            if k == 0 and rng.random() < 0.7:
                try:
                    c2.unsubscribe_signal("c1", "pub", "s", recvs[i])
                except Exception as exc:
                    obs["results"].append([i, "unsub:" + type(exc).__name__])
            else:
                break

    ths = [real_threading.Thread(target=subscriber, args=(i,), name="sub%d" % i) for i in range(2)]
    if lines:
        c07.line_yields(P)
    s.recording = True
    for t in ths:
        t.start()
    if rng.random() < 0.5:
        dsched.FAKE_TIME.sleep(rng.choice([0.0, 0.001, 0.01]))
    if how == "disconnect":
        c2.disconnect_from_peer("c1")
    elif how == "server_stop":
        c1.stop()
    elif how == "remove":
        c1.remove_rpc_object(proxy)
    for t in ths:
        t.join()
    s.recording = False
    obs["joined"] = True
    # what is left behind: publish once more and see who still gets it
    if how != "server_stop":
        if how == "remove":
            pass
        c1.publish_signal("pub", "s", 4242)
        dsched.FAKE_TIME.sleep(1.0)
        late = []
        for i, r in enumerate(recvs):
            try:
                g = r.get_next_signal(0)
                late.append(i)
            except QMI_TimeoutException:
                pass
        obs["late"] = late
        obs["rsubs"] = sorted(sum((sorted(v) for v in c1._signal_manager._remote_subscriptions.values()), []))
        obs["lsubs"] = sorted(c2._signal_manager._local_subscriptions)
        obs["pending"] = len(c2._signal_manager._pending_subscription_request_by_request_id)
    c2.stop()
    if how != "server_stop":
        c1.stop()
    return obs


def block_oracle(res):
    if res["status"] == "deadlock":
        return "blocked-forever", "a subscribe/unsubscribe call never returns (scheduler reports a deadlock): %s" % (res.get("info"),)
    if res["status"] != "ok":
        return res["status"], "run did not finish (%s): %s" % (res["status"], str(res.get("info") or res.get("trace"))[:400])
    o = res["obs"]
    if not o["joined"]:
        return "nojoin", "subscriber threads did not end"
    for i, r in o["results"]:
        if r not in ("ok", "QMI_SignalSubscriptionException"):
            return "exception", "subscribe raised %s" % r
    if o["how"] in ("disconnect", "remove") and o["late"] is not None:
        if o["how"] == "disconnect" and (o["late"] or o["lsubs"] or o["rsubs"] or o["pending"]):
            return "left-behind", "after the disconnect: receivers %r still get signals, lsubs=%r rsubs=%r pending=%r" % (
                o["late"], o["lsubs"], o["rsubs"], o["pending"])
        if o["pending"]:
            return "left-behind", "pending requests remain: %r" % o["pending"]
        if o["how"] == "remove" and o["lsubs"] and not o["rsubs"] and not o["late"] and all(r == "ok" for _, r in o["results"]):
            return ("stale-subscription-after-removal",
                    "publisher removed while a subscribe request was being answered: the subscriber keeps %r although the "
                    "publisher side lists nobody (the removal notice overtook the success reply)" % (o["lsubs"],))
        if bool(o["rsubs"]) != bool(o["lsubs"]):
            return "inconsistent", "publisher side rsubs=%r but subscriber side lsubs=%r" % (o["rsubs"], o["lsubs"])
        if bool(o["late"]) != bool(o["lsubs"]):
            return "inconsistent", "receivers %r got the late publication but lsubs=%r" % (o["late"], o["lsubs"])
    return None


def run(ck):
    ck.theory_dir = THEORY
    ck.build_theory(THEORY)
    ck.trusted = [
        "Coq 8.16.1 kernel (vm_compute evaluates the model on the recorded histories)",
        "hand-written model theories/C07/Model.v (shared with C07) of SignalManager and the connection pending table / close order of messaging.py, tied to /repo by this run's trace-acceptance correspondence",
        "H2 harness pubsub_sim.py: stub contexts; harness-owned network = one FIFO queue per direction, an end that closed never reads again, data sent to it is lost, the other end can still read what was sent before; close = handle_peer_context_removed then one error reply per pending request",
        "dsched deterministic runtime + fake network for the blocking runs",
    ]
    ck.assumptions = [
        "request ids (random 64-bit in QMI) are fresh",
        "each handler invocation is one atomic step (the sub-handler race between the double check in _handle_subscription_request and handle_object_removed of another thread is outside the model)",
        "a new connection between two contexts is made only after both ends have noticed the loss of the previous one",
        "theorem C08_quiescent is about two contexts; histories with three contexts are covered by the correspondence and the oracle only",
    ]
    import qmi.core.context, qmi.core.rpc, qmi.core.pubsub, qmi.core.messaging, qmi.core.task  # noqa  (before fork)
    sims = c07.run_sims(ck, "c08")
    c07.check_sims(ck, sims, "C08", KEYS)
    nsched = 600 if ck.tier == "quick" else 9000
    jobs = []
    cdir = os.path.join(os.path.dirname(os.path.dirname(os.path.abspath(__file__))), "corpus", "C08")
    if os.path.isdir(cdir):
        for fn in sorted(os.listdir(cdir)):
            if fn.endswith(".json"):
                with open(os.path.join(cdir, fn)) as f:
                    c = json.load(f)
                jobs.append((scenario_block, (c["seed"], c["how"], bool(c.get("lines"))), dict(strategy="replay", schedule=list(c["schedule"]))))
                ck.count("corpus")
    for i in range(nsched):
        how = ["disconnect", "server_stop", "remove"][i % 3]
        jobs.append((scenario_block, (ck.rng.randint(0, 10 ** 6), how, i % 3 == 0), dict(strategy="random" if i % 2 else "pct", seed=i)))
    results = dsched.run_forked(jobs, nproc=16, wall_timeout=60.0)
    for (fn, args, kw), res in zip(jobs, results):
        ck.note_case(("block", args, kw.get("seed"), tuple(res.get("choices") or ())[:50]), True)
        ck.count("block:%s%s:%s" % (args[1], "+lines" if args[2] else "", res["status"]))
        if res["status"] == "ok":
            for i, r in res["obs"]["results"]:
                ck.count("block:result:" + r)
        bad = block_oracle(res)
        if bad:
            ck.report("oracle:c08:threads:%s:%s" % (args[1], bad[0]), "C08 fails on real contexts (%s): %s" % (args[1], bad[1]),
                      {"kind": "block", "seed": args[0], "how": args[1], "lines": args[2], "schedule": res.get("choices"),
                       "obs": res.get("obs")})
    c07.run_recreate(ck, "C08", 120 if ck.tier == "quick" else 2000)
    c07.run_bidir(ck, "C08", 96 if ck.tier == "quick" else 1800)
    c07.run_remove_disc(ck, "C08", 200 if ck.tier == "quick" else 3000)
    c07.run_lastunsub(ck, "C08", 60 if ck.tier == "quick" else 600, 40 if ck.tier == "quick" else 400)
    return ck.finish("exhaustive op sequences (12-letter alphabet, 3 prefixes) + seeded random histories on 1-3 contexts, probes at "
                     "quiescent points + random schedules of a blocked subscriber with the peer vanishing; non-trivial = at least "
                     "one message delivered; distinct by label sequence")


def replay(rep):
    c = rep["case"]
    if c.get("kind") == "recreate":
        return c07.replay_recreate(c)
    if c.get("kind") == "bidir":
        return c07.replay_bidir(c)
    if c.get("kind") == "lastunsub":
        return c07.replay_lastunsub(c)
    if c.get("kind") == "remove_disc":
        return c07.replay_remove_disc(c)
    if c.get("kind") == "block":
        import qmi.core.context, qmi.core.rpc, qmi.core.pubsub, qmi.core.messaging, qmi.core.task  # noqa
        res = dsched.run_forked([(scenario_block, (c["seed"], c["how"], bool(c.get("lines"))),
                                  dict(strategy="replay", schedule=list(c["schedule"] or [])))], nproc=1, wall_timeout=60.0)[0]
        print("status:", res["status"], "obs:", res.get("obs"))
        bad = block_oracle(res)
        print("oracle:", bad or "property holds on this schedule")
        return 1 if bad else 0
    return c07.replay_h2(rep, KEYS)
