"""dsched — deterministic runtime (harness layer H3, DESIGN.md section 4).

Real QMI threads run one at a time under a scheduler.  `threading.Lock/RLock/Condition/Event`,
`time.monotonic/time/sleep`, `asyncio.SelectorEventLoop` and `socket` are replaced — only in the
namespaces of `qmi.*` modules (and modules the harness names) — by cooperative versions that
yield to the scheduler at every synchronisation operation.  `threading.Thread.start/join/is_alive`
are wrapped so that threads started by a managed thread are managed too.  Virtual time advances
only when nothing is runnable and a timed waiter exists; no runnable thread and no timed waiter
is a deadlock.  A schedule is the list of choices among runnable threads, so it replays exactly.

Intended use: inside a forked child process, one scenario + one schedule per child
(see run_forked()).  The scenario's root function runs on the child's real main thread.
"""
import collections
import json
import os
import random
import select as _real_select
import signal
import sys
import threading as _rt
import time as _rtime
import traceback
import types

_real_thread_start = _rt.Thread.start
_real_thread_join = _rt.Thread.join
_real_thread_is_alive = _rt.Thread.is_alive

RUNNABLE, BLOCKED, DONE, NEW = "runnable", "blocked", "done", "new"


class Deadlock(Exception):
    pass


class MThread:
    def __init__(self, tid, name, real):
        self.tid, self.name, self.real = tid, name, real
        self.go = _rt.Semaphore(0)
        self.state = NEW
        self.wake_time = None
        self.blocked_on = None
        self.timed_out = False
        self.prio = 0

    def __repr__(self):
        return "T%d(%s,%s)" % (self.tid, self.name, self.state)


class Scheduler:
    def __init__(self, strategy="random", seed=0, schedule=None, max_steps=200000, switch_prob=0.35,
                 pct_depth=3, pct_len=300):
        self.threads = []
        self.by_real = {}
        self.current = None
        self.clock = 0.0
        self.steps = 0
        self.max_steps = max_steps
        self.strategy = strategy
        self.rng = random.Random(seed)
        self.switch_prob = switch_prob
        self.replay = list(schedule) if schedule is not None else None
        self.choices = []          # recorded schedule: index into the enabled list at each branching point
        self.events = []           # event log (harness-level observations)
        self.active = False
        self.on_deadlock = None
        self.on_abort = None
        self.guard = _rt.RLock()
        self.pct_changes = sorted(self.rng.sample(range(1, pct_len), min(pct_depth, pct_len - 1))) \
            if strategy == "pct" else []
        self.yield_hook = None
        self.recording = True

    # ---- registration ---------------------------------------------------------------------
    def register_main(self, name="main"):
        mt = MThread(0, name, _rt.current_thread())
        mt.state = RUNNABLE
        mt.prio = self.rng.random()
        self.threads.append(mt)
        self.by_real[_rt.current_thread()] = mt
        self.current = mt
        self.active = True
        return mt

    def me(self):
        return self.by_real.get(_rt.current_thread())

    def managed(self):
        return self.active and self.by_real.get(_rt.current_thread()) is not None

    def log(self, *ev):
        self.events.append((self.current.tid if self.current else -1,) + ev)

    # ---- choosing -------------------------------------------------------------------------
    def _enabled(self):
        return [t for t in self.threads if t.state == RUNNABLE]

    def _advance_time(self):
        timed = [t for t in self.threads if t.state == BLOCKED and t.wake_time is not None]
        if not timed:
            return False
        w = min(t.wake_time for t in timed)
        if w > self.clock:
            self.clock = w
        for t in timed:
            if t.wake_time <= self.clock:
                t.state = RUNNABLE
                t.timed_out = True
                t.wake_time = None
                self.events.append((t.tid, "timeout", repr(t.blocked_on)))
        return True

    def _pick(self, cur_ok):
        """Pick the next thread to run.  cur_ok: current thread is still runnable."""
        en = self._enabled()
        while not en:
            if not self._advance_time():
                self._deadlock()
            en = self._enabled()
        if len(en) == 1:
            return en[0]
        d = en.index(self.current) if (cur_ok and self.current in en) else -1
        if not self.recording:
            return en[d] if d >= 0 else en[0]
        # branching point
        if self.replay is not None:
            if self.replay:
                i = self.replay.pop(0)
                i = i if i < len(en) else 0
            else:
                # beyond the recorded prefix: keep running the current thread if possible
                i = d if d >= 0 else 0
        elif self.strategy == "random":
            if d >= 0 and self.rng.random() > self.switch_prob:
                i = d
            else:
                i = self.rng.randrange(len(en))
        elif self.strategy == "pct":
            if self.pct_changes and self.steps >= self.pct_changes[0]:
                self.pct_changes.pop(0)
                if self.current in en:
                    self.current.prio = -self.steps  # demote
            i = max(range(len(en)), key=lambda k: en[k].prio)
        else:
            i = d if d >= 0 else 0
        self.choices.append((i, len(en), d))
        return en[i]

    def _deadlock(self):
        info = {"kind": "deadlock", "clock": self.clock,
                "threads": [(t.tid, t.name, t.state, repr(t.blocked_on)) for t in self.threads]}
        if self.on_deadlock:
            self.on_deadlock(info)
        raise Deadlock(repr(info))

    def _switch(self, nxt):
        cur = self.current
        if nxt is cur:
            return
        self.current = nxt
        nxt.go.release()
        cur.go.acquire()

    # ---- API used by the primitives ------------------------------------------------------------
    def yield_point(self, label=None):
        if not self.managed():
            return
        self.steps += 1
        if self.steps > self.max_steps:
            if self.on_abort:
                self.on_abort({"kind": "step-limit", "steps": self.steps})
            raise Deadlock("step limit")
        if self.yield_hook:
            self.yield_hook(label)
        assert self.me() is self.current, "yield from a thread that does not hold the baton"
        nxt = self._pick(True)
        self._switch(nxt)

    def block(self, on, timeout=None):
        """Block the current thread until woken (returns False) or timed out (returns True)."""
        cur = self.current
        assert self.me() is cur
        cur.state = BLOCKED
        cur.blocked_on = on
        cur.timed_out = False
        cur.wake_time = None if timeout is None else self.clock + max(0.0, timeout)
        self.steps += 1
        nxt = self._pick(False)
        self._switch(nxt)
        cur.blocked_on = None
        return cur.timed_out

    def wake(self, mt):
        if mt.state == BLOCKED:
            mt.state = RUNNABLE
            mt.wake_time = None
            mt.timed_out = False

    # ---- threads ------------------------------------------------------------------------------
    def start_thread(self, thread):
        mt = MThread(len(self.threads), getattr(thread, "name", "?") + ":" + type(thread).__name__, thread)
        mt.prio = self.rng.random()
        self.threads.append(mt)
        self.by_real[thread] = mt
        orig_run = thread.run
        sched = self

        def run_wrapper():
            mt.go.acquire()
            try:
                orig_run()
            except Deadlock:
                pass
            except BaseException:
                sched.events.append((mt.tid, "thread-exception", traceback.format_exc(limit=6)))
                raise
            finally:
                sched._finish(mt)
        thread.run = run_wrapper
        self.yield_point(("thread.start", mt.tid))
        _real_thread_start(thread)
        mt.state = RUNNABLE
        return mt

    def _finish(self, mt):
        mt.state = DONE
        for t in self.threads:
            if t.state == BLOCKED and t.blocked_on == ("join", mt.tid):
                self.wake(t)
        try:
            nxt = self._pick(False)
        except Deadlock:
            return
        self.current = nxt
        nxt.go.release()

    def join_thread(self, thread, timeout=None):
        mt = self.by_real.get(thread)
        self.yield_point(("thread.join", mt.tid))
        deadline = None if timeout is None else self.clock + timeout
        while mt.state != DONE:
            rem = None if deadline is None else deadline - self.clock
            if rem is not None and rem <= 0:
                return
            if self.block(("join", mt.tid), rem):
                return
        _real_thread_join(thread, 5.0)


SCHED = None  # the scheduler of this (child) process


def S():
    return SCHED


# ------------------------------------------------------------------------------------------------
# cooperative primitives
# ------------------------------------------------------------------------------------------------

class Lock:
    _kind = "Lock"

    def __init__(self):
        self._locked = False
        self._owner = None
        self._rl = _rt.Lock()  # used only by unmanaged callers

    def acquire(self, blocking=True, timeout=-1):
        s = SCHED
        if s is None or not s.managed():
            return self._unmanaged_acquire(blocking, timeout)
        s.yield_point(("acquire", id(self)))
        deadline = None if (timeout is None or timeout < 0) else s.clock + timeout
        while self._locked:
            if not blocking:
                return False
            rem = None if deadline is None else deadline - s.clock
            if rem is not None and rem <= 0:
                return False
            s.block(("lock", id(self)), rem)
        self._locked = True
        self._owner = s.current.tid
        s.log("acq", id(self))
        return True

    def _unmanaged_acquire(self, blocking, timeout):
        t0 = _rtime.monotonic()
        while True:
            with _UNMANAGED_GUARD:
                if not self._locked:
                    self._locked = True
                    self._owner = -1
                    return True
            if not blocking or (timeout is not None and timeout >= 0 and _rtime.monotonic() - t0 > timeout):
                return False
            _rtime.sleep(0.0005)

    def release(self):
        if not self._locked:
            raise RuntimeError("release unlocked lock")
        self._locked = False
        self._owner = None
        s = SCHED
        if s is not None:
            for t in s.threads:
                if t.state == BLOCKED and t.blocked_on == ("lock", id(self)):
                    s.wake(t)

    def locked(self):
        return self._locked

    __enter__ = acquire

    def __exit__(self, *a):
        self.release()

    def _at_fork_reinit(self):
        self._locked = False


_UNMANAGED_GUARD = _rt.Lock()


class RLock:
    _kind = "RLock"

    def __init__(self):
        self._owner = None
        self._count = 0

    def _me(self):
        s = SCHED
        if s is not None and s.managed():
            return ("m", s.current.tid)
        return ("u", _rt.get_ident())

    def acquire(self, blocking=True, timeout=-1):
        s = SCHED
        me = self._me()
        if self._owner == me:
            self._count += 1
            return True
        if s is None or not s.managed():
            t0 = _rtime.monotonic()
            while True:
                with _UNMANAGED_GUARD:
                    if self._owner is None:
                        self._owner, self._count = me, 1
                        return True
                if not blocking or (timeout is not None and timeout >= 0 and _rtime.monotonic() - t0 > timeout):
                    return False
                _rtime.sleep(0.0005)
        s.yield_point(("acquire", id(self)))
        deadline = None if (timeout is None or timeout < 0) else s.clock + timeout
        while self._owner is not None:
            if not blocking:
                return False
            rem = None if deadline is None else deadline - s.clock
            if rem is not None and rem <= 0:
                return False
            s.block(("lock", id(self)), rem)
        self._owner, self._count = me, 1
        s.log("acq", id(self))
        return True

    def release(self):
        if self._owner != self._me():
            raise RuntimeError("cannot release un-acquired lock")
        self._count -= 1
        if self._count == 0:
            self._owner = None
            s = SCHED
            if s is not None:
                for t in s.threads:
                    if t.state == BLOCKED and t.blocked_on == ("lock", id(self)):
                        s.wake(t)

    __enter__ = acquire

    def __exit__(self, *a):
        self.release()

    # used by Condition
    def _is_owned(self):
        return self._owner == self._me()

    def _release_save(self):
        st = (self._owner, self._count)
        self._count = 1
        self.release()
        return st

    def _acquire_restore(self, st):
        self.acquire()
        self._owner, self._count = st

    def locked(self):
        return self._owner is not None


class Condition:
    def __init__(self, lock=None):
        self._lock = lock if lock is not None else RLock()
        self.acquire = self._lock.acquire
        self.release = self._lock.release
        self._waiters = collections.deque()   # [mthread-or-token, notified flag]

    def __enter__(self):
        return self._lock.__enter__()

    def __exit__(self, *a):
        return self._lock.__exit__(*a)

    def _is_owned(self):
        if hasattr(self._lock, "_is_owned"):
            return self._lock._is_owned()
        return self._lock.locked()

    def wait(self, timeout=None):
        s = SCHED
        if not self._is_owned():
            raise RuntimeError("cannot wait on un-acquired lock")
        if s is None or not s.managed():
            return self._unmanaged_wait(timeout)
        w = [s.current, False]
        self._waiters.append(w)
        s.log("cond.wait", id(self))
        if isinstance(self._lock, RLock):
            saved = self._lock._release_save()
        else:
            saved = None
            self._lock.release()
        # no yield between release and park: parking is atomic with the release (as in CPython, where
        # the waiter lock is allocated and queued before the outer lock is released)
        deadline = None if timeout is None else s.clock + timeout
        while not w[1]:
            rem = None if deadline is None else deadline - s.clock
            if rem is not None and rem <= 0:
                break
            if s.block(("cond", id(self)), rem):
                break
        if not w[1]:
            try:
                self._waiters.remove(w)
            except ValueError:
                pass
        if saved is not None:
            self._lock._acquire_restore(saved)
        else:
            self._lock.acquire()
        s.log("cond.resume", id(self), w[1])
        return w[1]

    def _unmanaged_wait(self, timeout):
        w = [None, False]
        self._waiters.append(w)
        saved = self._lock._release_save() if isinstance(self._lock, RLock) else self._lock.release()
        t0 = _rtime.monotonic()
        while not w[1]:
            if timeout is not None and _rtime.monotonic() - t0 > timeout:
                break
            _rtime.sleep(0.0005)
        if not w[1]:
            try:
                self._waiters.remove(w)
            except ValueError:
                pass
        if isinstance(self._lock, RLock):
            self._lock._acquire_restore(saved)
        else:
            self._lock.acquire()
        return w[1]

    def wait_for(self, predicate, timeout=None):
        s = SCHED
        now = (lambda: s.clock) if (s is not None and s.managed()) else _rtime.monotonic
        endtime = None
        waittime = timeout
        result = predicate()
        while not result:
            if waittime is not None:
                if endtime is None:
                    endtime = now() + waittime
                else:
                    waittime = endtime - now()
                    if waittime <= 0:
                        break
            self.wait(waittime)
            result = predicate()
        return result

    def notify(self, n=1):
        if not self._is_owned():
            raise RuntimeError("cannot notify on un-acquired lock")
        s = SCHED
        if s is not None and s.managed():
            s.log("cond.notify", id(self), n)
        k = 0
        while self._waiters and k < n:
            w = self._waiters.popleft()
            w[1] = True
            if w[0] is not None and s is not None:
                s.wake(w[0])
            k += 1

    def notify_all(self):
        self.notify(len(self._waiters) + 1)

    notifyAll = notify_all


class Event:
    def __init__(self):
        self._flag = False
        self._cond = Condition(Lock())

    def is_set(self):
        s = SCHED
        if s is not None and s.managed():
            s.yield_point(("is_set", id(self)))
            s.log("ev.is_set", id(self), self._flag)
        return self._flag

    isSet = is_set

    def set(self):
        with self._cond:
            self._flag = True
            s = SCHED
            if s is not None and s.managed():
                s.log("ev.set", id(self))
            self._cond.notify_all()

    def clear(self):
        with self._cond:
            self._flag = False

    def wait(self, timeout=None):
        s = SCHED
        with self._cond:
            signaled = self._flag
            if s is not None and s.managed():
                s.log("ev.wait", id(self), signaled)
            if not signaled:
                signaled = self._cond.wait(timeout)
                if s is not None and s.managed():
                    s.log("ev.resume", id(self), signaled)
            return signaled

    def _at_fork_reinit(self):
        pass


class Semaphore:
    def __init__(self, value=1):
        self._cond = Condition(Lock())
        self._value = value

    def acquire(self, blocking=True, timeout=None):
        with self._cond:
            s = SCHED
            deadline = None if timeout is None else (s.clock if s and s.managed() else _rtime.monotonic()) + timeout
            while self._value == 0:
                if not blocking:
                    return False
                rem = None
                if deadline is not None:
                    rem = deadline - (s.clock if s and s.managed() else _rtime.monotonic())
                    if rem <= 0:
                        return False
                self._cond.wait(rem)
            self._value -= 1
            return True

    __enter__ = acquire

    def release(self, n=1):
        with self._cond:
            self._value += n
            self._cond.notify(n)

    def __exit__(self, *a):
        self.release()


class _FakeThreading(types.ModuleType):
    """Stand-in for the `threading` module as seen from qmi.* modules."""

    def __init__(self):
        super().__init__("threading")
        self.Lock = Lock
        self.RLock = RLock
        self.Condition = Condition
        self.Event = Event
        self.Semaphore = Semaphore
        self.BoundedSemaphore = Semaphore

    def __getattr__(self, name):
        return getattr(_rt, name)


class _FakeTime(types.ModuleType):
    def __init__(self):
        super().__init__("time")
        self._base = 1.7e9

    def monotonic(self):
        s = SCHED
        return s.clock if s is not None else _rtime.monotonic()

    def time(self):
        s = SCHED
        return self._base + (s.clock if s is not None else 0.0)

    def perf_counter(self):
        return self.monotonic()

    def sleep(self, d):
        s = SCHED
        if s is None or not s.managed():
            return _rtime.sleep(d)
        s.yield_point(("sleep", d))
        if d > 0:
            s.block(("sleep",), d)

    def __getattr__(self, name):
        return getattr(_rtime, name)


# ---- threads: wrap Thread.start/join/is_alive -----------------------------------------------------

def _patched_start(self):
    s = SCHED
    if s is None or not s.managed():
        return _real_thread_start(self)
    return s.start_thread(self)


def _patched_join(self, timeout=None):
    s = SCHED
    if s is None or not s.managed() or self not in s.by_real:
        return _real_thread_join(self, timeout)
    return s.join_thread(self, timeout)


def _patched_is_alive(self):
    s = SCHED
    if s is None or self not in s.by_real:
        return _real_thread_is_alive(self)
    return s.by_real[self].state in (RUNNABLE, BLOCKED)


# ------------------------------------------------------------------------------------------------
# fake asyncio loop (as used by qmi.core.messaging._EventDrivenThread)
# ------------------------------------------------------------------------------------------------

class FakeLoop:
    def __init__(self):
        self._q = collections.deque()
        self._cv = Condition(Lock())
        self._stopping = False
        self._closed = False
        self._readers = {}

    # asyncio API subset
    def call_soon_threadsafe(self, cb, *args):
        if self._closed:
            raise RuntimeError("Event loop is closed")
        with self._cv:
            self._q.append((cb, args))
            self._cv.notify_all()

    call_soon = call_soon_threadsafe

    def stop(self):
        self._stopping = True

    def time(self):
        return FAKE_TIME.monotonic()

    def call_later(self, delay, cb, *args):
        """asyncio's timer: the callback is queued on the loop `delay` seconds of VIRTUAL time from now (a helper thread
        managed by the scheduler sleeps and then hands the callback over); returns a cancellable handle"""
        import threading as _th
        st = {"cancelled": False}
        loop = self

        def runner():
            FAKE_TIME.sleep(max(0.0, float(delay)))
            if not st["cancelled"] and not loop._closed:
                try:
                    loop.call_soon_threadsafe(cb, *args)
                except RuntimeError:
                    pass
        t = _th.Thread(target=runner, name="loop-timer")
        t.daemon = True
        t.start()

        class _Handle:
            def cancel(self_inner):
                st["cancelled"] = True

            def cancelled(self_inner):
                return st["cancelled"]
        return _Handle()

    def call_at(self, when, cb, *args):
        return self.call_later(float(when) - self.time(), cb, *args)

    def run_in_executor(self, executor, func, *args):
        """asyncio's hand-off to a worker thread: the function runs in a thread of its own (managed by the scheduler
        like any other), concurrently with the loop; returns a minimal future-like object"""
        import threading as _th
        box = {"done": False, "result": None, "exc": None}

        def runner():
            try:
                box["result"] = func(*args)
            except BaseException as e:  # noqa
                box["exc"] = e
            box["done"] = True
        t = _th.Thread(target=runner, name="loop-executor")
        t.daemon = True
        t.start()

        class _Fut:
            def done(self_inner):
                return box["done"]

            def result(self_inner):
                t.join()
                if box["exc"] is not None:
                    raise box["exc"]
                return box["result"]

            def add_done_callback(self_inner, cb):
                pass
        return _Fut()

    def add_reader(self, fd, cb, *args):
        self._readers[fd] = (cb, args)
        sock = FakeNet.by_fd.get(fd)
        if sock is not None:
            sock._loop = self
            if sock._readable():
                self._kick()

    def remove_reader(self, fd):
        return self._readers.pop(fd, None) is not None

    def _kick(self):
        with self._cv:
            self._cv.notify_all()

    def _ready_readers(self):
        out = []
        for fd, (cb, args) in list(self._readers.items()):
            sock = FakeNet.by_fd.get(fd)
            if sock is not None and sock._readable():
                out.append((cb, args))
        return out

    def run_forever(self):
        while True:
            with self._cv:
                while True:
                    rd = self._ready_readers()
                    if self._q or rd:
                        break
                    self._cv.wait()
                batch = rd + list(self._q)     # selector events first, then ready callbacks (one batch)
                self._q.clear()
            for cb, args in batch:
                try:
                    cb(*args)
                except (SystemExit, KeyboardInterrupt):
                    raise
                except BaseException:
                    # asyncio's default exception handler logs and continues
                    if SCHED is not None:
                        SCHED.events.append((SCHED.current.tid, "loop-callback-exception",
                                             traceback.format_exc(limit=4)))
            if self._stopping:
                self._stopping = False
                break

    def close(self):
        self._closed = True
        self._q.clear()

    def is_closed(self):
        return self._closed

    def is_running(self):
        return True


class _FakeAsyncio(types.ModuleType):
    def __init__(self):
        import asyncio as _ra
        super().__init__("asyncio")
        self._ra = _ra
        self.SelectorEventLoop = FakeLoop

    def set_event_loop(self, loop):
        return None

    def new_event_loop(self):
        return FakeLoop()

    def __getattr__(self, name):
        return getattr(self._ra, name)


# ------------------------------------------------------------------------------------------------
# fake network (in-memory TCP pairs and UDP with a registry), as seen from qmi.core.messaging/context
# ------------------------------------------------------------------------------------------------

class FakeNet:
    next_fd = 1000
    by_fd = {}
    listeners = {}      # port -> listening socket
    udp_bound = {}      # port -> [sockets]
    next_port = 40000
    fail_bind_ports = set()       # fault injection: bind() on these ports raises OSError
    bind_fault_exc = None         # optional factory of the exception such a bind() raises (default: EADDRINUSE)
    fail_connect = set()          # ports refusing connections
    segment = None                # optional function(bytes)->list of chunks (segmentation chosen by the harness)
    send_hook = None              # optional function(bytes)->exception or None: a transient OS-level failure of one sendall
    no_coalesce = False           # True: one recv() returns at most one sent chunk

    @classmethod
    def reset(cls):
        cls.next_fd = 1000
        cls.by_fd = {}
        cls.listeners = {}
        cls.udp_bound = {}
        cls.next_port = 40000
        cls.fail_bind_ports = set()
        cls.bind_fault_exc = None
        cls.fail_connect = set()
        cls.segment = None
        cls.send_hook = None
        cls.no_coalesce = False


class FakeSocket:
    def __init__(self, family=2, type=1, proto=0, fileno=None):
        self.family, self.type = family, type
        FakeNet.next_fd += 1
        self._fd = FakeNet.next_fd
        FakeNet.by_fd[self._fd] = self
        self._closed = False
        self._addr = ("0.0.0.0", 0)
        self._peer = None          # connected TCP peer socket
        self._rx = collections.deque()    # TCP: chunks; UDP: (data, addr)
        self._eof = False
        self._listening = False
        self._acceptq = collections.deque()
        self._loop = None
        self._timeout = None
        self._blocking = True
        self._cv = Condition(Lock())

    # -- helpers
    def _readable(self):
        if self._closed:
            return False
        if self._listening:
            return bool(self._acceptq)
        return bool(self._rx) or self._eof

    def _notify(self):
        with self._cv:
            self._cv.notify_all()
        if self._loop is not None:
            self._loop._kick()

    # -- socket API subset
    def fileno(self):
        return -1 if self._closed else self._fd

    def setsockopt(self, *a):
        pass

    def getsockopt(self, *a):
        return 0

    def setblocking(self, flag):
        self._blocking = bool(flag)
        self._timeout = None if flag else 0.0

    def settimeout(self, t):
        self._timeout = t
        self._blocking = t is None or t > 0

    def gettimeout(self):
        return self._timeout

    def bind(self, address):
        host, port = address
        if port in FakeNet.fail_bind_ports:
            raise (FakeNet.bind_fault_exc() if FakeNet.bind_fault_exc else OSError(98, "Address already in use"))
        if self.type == 1:  # SOCK_STREAM
            if port == 0:
                FakeNet.next_port += 1
                port = FakeNet.next_port
            elif port in FakeNet.listeners:
                raise OSError(98, "Address already in use")
            self._addr = (host or "0.0.0.0", port)
        else:
            if port == 0:
                FakeNet.next_port += 1
                port = FakeNet.next_port
            self._addr = (host or "0.0.0.0", port)
            FakeNet.udp_bound.setdefault(port, []).append(self)

    def listen(self, n=5):
        self._listening = True
        FakeNet.listeners[self._addr[1]] = self

    def getsockname(self):
        return self._addr

    def getpeername(self):
        if self._peer is None:
            raise OSError(107, "Transport endpoint is not connected")
        return self._peer._addr

    def accept(self):
        if not self._acceptq:
            raise BlockingIOError()
        c = self._acceptq.popleft()
        return c, c._peer._addr

    def connect(self, address):
        host, port = address[0], address[1]
        lst = FakeNet.listeners.get(port)
        if lst is None or lst._closed or port in FakeNet.fail_connect:
            raise ConnectionRefusedError(111, "Connection refused")
        FakeNet.next_port += 1
        self._addr = ("127.0.0.1", FakeNet.next_port)
        srv = FakeSocket(self.family, 1)
        srv._addr = ("127.0.0.1", port)
        srv._peer, self._peer = self, srv
        lst._acceptq.append(srv)
        lst._notify()

    def _check(self):
        if self._closed:
            raise OSError(9, "Bad file descriptor")

    def sendall(self, data):
        self._check()
        p = self._peer
        if p is None:
            raise OSError(107, "not connected")
        if p._closed or p._eof_sent_to_me(self):
            raise BrokenPipeError(32, "Broken pipe")
        data = bytes(data)
        if FakeNet.send_hook is not None:
            exc = FakeNet.send_hook(data)
            if exc is not None:
                raise exc
        chunks = FakeNet.segment(data) if FakeNet.segment else [data]
        for c in chunks:
            if c:
                p._rx.append(c)
        p._notify()

    send = lambda self, data: (self.sendall(data), len(data))[1]

    def _eof_sent_to_me(self, other):
        return False

    def recv(self, n):
        self._check()
        s = SCHED
        if not self._rx and not self._eof:
            if not self._blocking or self._timeout == 0.0:
                raise BlockingIOError()
            with self._cv:
                ok = self._cv.wait_for(lambda: bool(self._rx) or self._eof or self._closed, self._timeout)
            if not ok:
                import socket as _rs
                raise _rs.timeout("timed out")
            self._check()
        if self._rx:
            # a TCP stream: everything that has arrived is handed out together (up to n bytes), so several
            # frames sent back to back can land in one recv() — as on a real socket
            out = bytearray()
            while self._rx and len(out) < n:
                c = self._rx.popleft()
                take = n - len(out)
                if len(c) > take:
                    self._rx.appendleft(c[take:])
                    c = c[:take]
                out.extend(c)
                if FakeNet.no_coalesce:
                    break
            return bytes(out)
        return b""

    def recvfrom(self, n):
        self._check()
        if not self._rx:
            if not self._blocking or self._timeout == 0.0:
                raise BlockingIOError()
            with self._cv:
                ok = self._cv.wait_for(lambda: bool(self._rx) or self._closed, self._timeout)
            if not ok:
                import socket as _rs
                raise _rs.timeout("timed out")
            self._check()
        data, addr = self._rx.popleft()
        return data[:n], addr

    def sendto(self, data, address):
        self._check()
        host, port = address[0], address[1]
        if self._addr[1] == 0:
            FakeNet.next_port += 1
            self._addr = ("127.0.0.1", FakeNet.next_port)
            FakeNet.udp_bound.setdefault(self._addr[1], []).append(self)
        for sk in list(FakeNet.udp_bound.get(port, [])):
            if not sk._closed:
                sk._rx.append((bytes(data), ("127.0.0.1", self._addr[1])))
                sk._notify()
        return len(data)

    def shutdown(self, how):
        p = self._peer
        if p is not None and not p._closed:
            p._eof = True
            p._notify()

    def close(self):
        if self._closed:
            return
        self._closed = True
        FakeNet.by_fd.pop(self._fd, None)
        if self._listening and FakeNet.listeners.get(self._addr[1]) is self:
            del FakeNet.listeners[self._addr[1]]
        if self.type != 1:
            l = FakeNet.udp_bound.get(self._addr[1], [])
            if self in l:
                l.remove(self)
        p = self._peer
        if p is not None and not p._closed:
            p._eof = True       # orderly close: the peer reads EOF after the data already queued
            p._notify()
        self._notify()

    def __enter__(self):
        return self

    def __exit__(self, *a):
        self.close()


class _FakeSocketModule(types.ModuleType):
    def __init__(self):
        import socket as _rs
        super().__init__("socket")
        self._rs = _rs
        self.socket = FakeSocket

    def create_connection(self, address, timeout=None, source_address=None):
        s = FakeSocket(2, 1)
        s.connect(address)
        s.settimeout(timeout)
        return s

    def __getattr__(self, name):
        return getattr(self._rs, name)


# ------------------------------------------------------------------------------------------------
# installation
# ------------------------------------------------------------------------------------------------

FAKE_THREADING = _FakeThreading()
FAKE_TIME = _FakeTime()
FAKE_ASYNCIO = _FakeAsyncio()
FAKE_SOCKET = _FakeSocketModule()


def install(extra_modules=(), net=True):
    """Patch the namespaces of all loaded qmi.* modules (+ extra_modules)."""
    import asyncio as _ra
    import socket as _rs
    mods = [m for n, m in list(sys.modules.items())
            if m is not None and (n == "qmi" or n.startswith("qmi."))] + list(extra_modules)
    for m in mods:
        d = getattr(m, "__dict__", {})
        if d.get("threading") is _rt:
            m.threading = FAKE_THREADING
        if d.get("time") is _rtime:
            m.time = FAKE_TIME
        if net and d.get("asyncio") is _ra:
            m.asyncio = FAKE_ASYNCIO
        if net and d.get("socket") is _rs:
            m.socket = FAKE_SOCKET
    _rt.Thread.start = _patched_start
    _rt.Thread.join = _patched_join
    _rt.Thread.is_alive = _patched_is_alive


def enable_line_yields(funcs):
    """Make every source line of the given functions a scheduling point (for managed threads):
    line-granularity interleavings inside named functions, on top of the synchronisation-level ones.
    Call inside the scenario (child process), before the threads of interest start."""
    codes = set()
    for f in funcs:
        f = getattr(f, "__func__", f)
        codes.add(f.__code__)

    def local(frame, event, arg):
        if event == "line":
            s = SCHED
            if s is not None and s.managed() and s.me() is s.current:
                s.yield_point(("line", frame.f_code.co_name, frame.f_lineno))
        return local

    def tracer(frame, event, arg):
        if frame.f_code in codes:
            return local
        return None
    sys.settrace(tracer)
    _rt.settrace(tracer)


def new_scheduler(**kw):
    global SCHED
    FakeNet.reset()
    SCHED = Scheduler(**kw)
    return SCHED


# ------------------------------------------------------------------------------------------------
# running scenarios in forked children
# ------------------------------------------------------------------------------------------------

def _child(scenario, args, sched_kw, wfd, extra_modules):
    res = {"status": "ok"}
    out = os.fdopen(wfd, "w")

    def emit(r):
        try:
            r["choices"] = [c[0] for c in SCHED.choices]
            r["branching"] = [c[1] for c in SCHED.choices]
            r["defaults"] = [c[2] for c in SCHED.choices]
            r["steps"] = SCHED.steps
            r["clock"] = SCHED.clock
            r.setdefault("events", [list(map(_jsonable, e)) for e in SCHED.events[-400:]])
        except Exception:
            pass
        out.write(json.dumps(r, default=repr))
        out.flush()
        os._exit(0)

    try:
        install(extra_modules)
        s = new_scheduler(**sched_kw)
        s.on_deadlock = lambda info: emit({"status": "deadlock", "info": info, "obs": getattr(s, "obs", None)})
        s.on_abort = lambda info: emit({"status": "abort", "info": info, "obs": getattr(s, "obs", None)})
        s.register_main()
        res["obs"] = scenario(s, *args)
    except Deadlock:
        res = {"status": "deadlock"}
    except BaseException:
        res = {"status": "error", "trace": traceback.format_exc(limit=12)}
    emit(res)


def _jsonable(x):
    if isinstance(x, (int, float, str, bool, type(None))):
        return x
    return repr(x)


def run_forked(jobs, nproc=16, wall_timeout=20.0, extra_modules=()):
    """jobs: iterable of (scenario_fn, args_tuple, sched_kw).  Yields (job_index, result dict).
    One forked child per job; a child exceeding wall_timeout is killed and reported as 'hang'."""
    jobs = list(jobs)
    running = {}     # pid -> (idx, rfd, t0)
    results = [None] * len(jobs)
    nxt = 0
    sys.stdout.flush()
    sys.stderr.flush()
    while nxt < len(jobs) or running:
        while nxt < len(jobs) and len(running) < nproc:
            scen, args, kw = jobs[nxt]
            r, w = os.pipe()
            pid = os.fork()
            if pid == 0:
                os.close(r)
                try:
                    devnull = os.open(os.devnull, os.O_WRONLY)
                    os.dup2(devnull, 1)
                    os.dup2(devnull, 2)
                except OSError:
                    pass
                _child(scen, args, kw, w, extra_modules)
                os._exit(0)
            os.close(w)
            running[pid] = (nxt, r, _rtime.monotonic())
            nxt += 1
        # collect
        rfds = [v[1] for v in running.values()]
        ready, _, _ = _real_select.select(rfds, [], [], 0.05)
        now = _rtime.monotonic()
        for pid, (idx, rfd, t0) in list(running.items()):
            if rfd in ready:
                data = b""
                while True:
                    chunk = os.read(rfd, 1 << 16)
                    if not chunk:
                        break
                    data += chunk
                os.close(rfd)
                try:
                    os.kill(pid, signal.SIGKILL)
                except OSError:
                    pass
                os.waitpid(pid, 0)
                del running[pid]
                try:
                    results[idx] = json.loads(data.decode())
                except Exception:
                    results[idx] = {"status": "crash", "raw": data[:300].decode(errors="replace")}
            elif now - t0 > wall_timeout:
                try:
                    os.kill(pid, signal.SIGKILL)
                except OSError:
                    pass
                os.waitpid(pid, 0)
                os.close(rfd)
                del running[pid]
                results[idx] = {"status": "hang"}
    return results


# ------------------------------------------------------------------------------------------------
# systematic exploration: stateless DFS over recorded branching points with a preemption bound
# ------------------------------------------------------------------------------------------------

def explore_dfs(scenario, args, preemption_bound=2, max_runs=5000, nproc=16, wall_timeout=20.0,
                extra_modules=(), sched_kw=None, batch=64):
    """Enumerate schedules of `scenario` (which opens its recording window itself).
    Yields result dicts (each with 'prefix').  A preemption = choosing another thread although the
    current one could continue."""
    sched_kw = dict(sched_kw or {})
    frontier = [([], 0)]
    runs = 0
    exhausted = True
    while frontier and runs < max_runs:
        cur, frontier = frontier[:batch], frontier[batch:]
        jobs = [(scenario, args, dict(sched_kw, strategy="replay", schedule=list(p))) for p, _ in cur]
        results = run_forked(jobs, nproc=nproc, wall_timeout=wall_timeout, extra_modules=extra_modules)
        for (prefix, npre), res in zip(cur, results):
            runs += 1
            res["prefix"] = prefix
            yield res
            ch, br, df = res.get("choices"), res.get("branching"), res.get("defaults")
            if ch is None:
                continue
            pre = npre
            # preemptions contained in the part beyond the prefix are 0 by construction (defaults)
            for j in range(len(prefix), len(ch)):
                for a in range(br[j]):
                    if a == ch[j]:
                        continue
                    cost = 1 if (df[j] >= 0 and a != df[j]) else 0
                    if pre + cost <= preemption_bound:
                        frontier.append((ch[:j] + [a], pre + cost))
    if frontier:
        exhausted = False
    yield {"status": "_summary", "runs": runs, "exhausted": exhausted, "left": len(frontier)}
