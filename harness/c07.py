"""C07 — published signals reach every subscribed receiver once, in order.

H2 (pubsub_sim.py): real SignalManager instances on stub contexts and harness-owned FIFO queues;
random and small-scope-exhaustive histories of subscribe / unsubscribe / publish / deliver / remove /
connect / close, with other operations run re-entrantly at every lock-free point of a running
publish_signal (= the interleavings of the model's split publish).  Each history is replayed on the
Coq model (theories/C07/Model.v, N-node system; two-context histories also on the two-node system
the theorems are about): every handler's messages per peer and API result, and at check points the
tables and every receiver queue, must agree.

H3 (dsched): real QMI_Context objects, publisher threads x subscriber threads on real locks replaced
by the deterministic runtime, random schedules; plus two connected contexts (remote delivery through
the fake network).

Independent oracle (pubsub_sim.Oracle / thread_oracle): every receiver queue is the projection of
the global publish/subscribe event log — exactly once, right fields, no stray record, sequential
publications in order.
"""
import itertools
import logging

import dsched
import pubsub_sim as S
from common import cbool, clist

THEORY = "C07"

NODES = ["n", "n1", "m"]
OBJS = ["p", "p1", "q"]
SIGS = ["s", "s1"]
ODD_NAMES = ["p.q", "", "x" * 64, "x" * 63, "p\n", "p\n\n", "é", "a b", "(p)-_", ".", "p."]


def rand_name(rng, pool, odd=0.03):
    return rng.choice(ODD_NAMES) if rng.random() < odd else rng.choice(pool)


def random_op(rng, sim, w, ctr):
    names = sim.names
    k = rng.choices(list(w), weights=list(w.values()))[0]
    x = rng.choice(names)
    if k in ("sub", "unsub"):
        others = [y for y in names if y != x] or [x]
        c = rng.choices([rng.choice(others), "", x, "zz", rng.choice(ODD_NAMES)], weights=[70, 12, 6, 3, 2])[0]
        return (k, x, c, rand_name(rng, OBJS), rand_name(rng, SIGS), rng.randint(1, 3))
    if k == "deliver":
        ks = [kk for kk, v in sim.chan.items() if v and kk[0] in sim.ctx[kk[1]].peers]
        return ("deliver",) + rng.choice(ks) if ks else None
    if k == "publish":
        ctr[0] += 1
        return ("publish", x, rand_name(rng, OBJS, 0.02), rand_name(rng, SIGS, 0.02), ctr[0])
    if k == "objremove":
        return ("objremove", x, rng.choice(OBJS))
    if k == "objadd":
        return ("objadd", x, rng.choice(OBJS))
    if k in ("close", "connect"):
        y = rng.choice([y for y in names if y != x]) if len(names) > 1 else x
        return (k, x, y)
    if k == "check":
        return ("check", x)
    return None


W_C07 = dict(sub=26, unsub=12, deliver=26, publish=22, objremove=2, objadd=2, close=2, connect=5, check=3)
W_C08 = dict(sub=26, unsub=16, deliver=24, publish=6, objremove=6, objadd=5, close=6, connect=7, check=4)


def random_history(rng, profile, nnodes=None, nsteps=None, hook_p=0.3):
    w = W_C07 if profile == "c07" else W_C08
    nnodes = nnodes or rng.choice([1, 2, 2, 2, 3, 3])
    names = NODES[:nnodes]
    nodes = {x: [o for o in OBJS if rng.random() < 0.6] for x in names}
    ctr = [0]

    def hook(sim):
        if rng.random() >= hook_p:
            return []
        ops = []
        for _ in range(rng.choice([1, 1, 2])):
            op = random_op(rng, sim, w, ctr)
            if op is not None:
                ops.append(op)
        return ops

    sim = S.Sim(nodes, hook=hook)
    for x, y in itertools.combinations(names, 2):
        if rng.random() < 0.7:
            sim.do(("connect", x, y))
    n = nsteps or rng.randint(5, 60)
    for i in range(n):
        op = random_op(rng, sim, w, ctr)
        if op is not None:
            sim.do(op)
        if profile == "c08" and rng.random() < 0.06:
            quiesce_and_probe(rng, sim, ctr, 2)
    finish(rng, sim, ctr, probes=3 if profile == "c08" else 1)
    return sim


def quiesce_and_probe(rng, sim, ctr, nprobes):
    sim.drain(rng)
    for _ in range(nprobes):
        ctr[0] += 1
        sim.do(("probe", rng.choice(sim.names), rng.choice(OBJS), rng.choice(SIGS), 1000000 + ctr[0]))


def finish(rng, sim, ctr, probes=1):
    quiesce_and_probe(rng, sim, ctr, probes)
    for x in sim.names:
        sim.do(("check", x))


def small_scope_histories(depth, prefixes):
    """All op sequences of length <= depth over a 12-letter alphabet on two contexts after each
    prefix; one publisher object, one signal, two receivers (re-subscribe while the unsubscribe is
    pending, remove / close / connect at every position)."""
    n, m = "n", "m"
    alpha = [("sub", n, m, "p", "s", 1), ("sub", n, m, "p", "s", 2), ("unsub", n, m, "p", "s", 1),
             ("unsub", n, m, "p", "s", 2), ("deliver", n, m), ("deliver", m, n), ("publish", m, "p", "s", None),
             ("objremove", m, "p"), ("objadd", m, "p"), ("close", n, m), ("close", m, n), ("connect", n, m)]
    for pre in prefixes:
        for d in range(0, depth + 1):
            for seq in itertools.product(alpha, repeat=d):
                yield pre, seq


PREFIXES = [
    [("connect", "n", "m")],
    [("connect", "n", "m"), ("sub", "n", "m", "p", "s", 1), ("deliver", "n", "m")],
    [("connect", "n", "m"), ("sub", "n", "m", "p", "s", 1), ("deliver", "n", "m"), ("deliver", "m", "n"),
     ("unsub", "n", "m", "p", "s", 1)],
]


FANOUT_PREFIX = [("connect", "n", "m"), ("connect", "n1", "m"), ("sub", "n", "m", "p", "s", 1), ("sub", "n1", "m", "p", "s", 1),
                 ("deliver", "n", "m"), ("deliver", "n1", "m"), ("deliver", "m", "n"), ("deliver", "m", "n1")]
FANOUT_ALPHA = [("publish", "m", "p", "s", None), ("deliver", "m", "n"), ("deliver", "m", "n1"), ("deliver", "n", "m"),
                ("deliver", "n1", "m"), ("unsub", "n", "m", "p", "s", 1), ("unsub", "n1", "m", "p", "s", 1),
                ("sub", "n", "m", "p", "s", 2), ("close", "n", "m"), ("close", "m", "n"), ("close", "n1", "m"),
                ("objremove", "m", "p"), ("objadd", "m", "p"),
                # the publisher is removed while one subscriber context is half-way through disconnecting
                ("hc_remove", "m", "p", "n"), ("hc_remove", "m", "p", "n1")]


def run_fanout(seq, rng, sig2="s"):
    """One publisher context m and two subscriber contexts n, n1 subscribed to the same signal (sig2 = "s") or
    to two signals one of whose names is a prefix of the other (sig2 = "s1")."""
    sim = S.Sim({"n": [], "n1": [], "m": ["p"]})
    ctr = [0]
    pre = [op if not (op[0] == "sub" and op[1] == "n1") else op[:4] + (sig2,) + op[5:] for op in FANOUT_PREFIX]
    for op in pre + list(seq):
        if op[0] == "publish":
            ctr[0] += 1
            op = op[:4] + (ctr[0],)
        if op[0] == "hc_remove":
            _, x, o, y = op
            if y in sim.ctx[x].peers and sim.do(("objremove_u", x, o, (y,))):
                sim.do(("close", x, y))
            continue
        sim.do(op)
    finish(rng, sim, ctr, probes=0)
    for sg in sorted({"s", sig2}):
        ctr[0] += 1
        sim.do(("probe", "m", "p", sg, 1000000 + ctr[0]))
    for x in sim.names:
        sim.do(("check", x))
    return sim


def run_scripted(pre, seq, rng):
    sim = S.Sim({"n": [], "m": ["p"]})
    ctr = [0]
    for op in list(pre) + list(seq):
        if op[0] == "publish":
            ctr[0] += 1
            op = op[:4] + (ctr[0],)
        sim.do(op)
    finish(rng, sim, ctr, probes=0)
    ctr[0] += 1
    sim.do(("probe", "m", "p", "s", 1000000 + ctr[0]))
    sim.do(("check", "n"))
    sim.do(("check", "m"))
    return sim


# ------------------------------------------------------------------------------ H3: threads
LINE_FUNCS = ["publish_signal", "_deliver_local", "_handle_subscription_request", "_handle_subscription_reply",
              "handle_object_removed"]


def line_yields(P):
    """Every source line of the named SignalManager methods becomes a scheduling point."""
    dsched.enable_line_yields([getattr(P.SignalManager, f) for f in LINE_FUNCS])


def scenario_threads(s, seed, remote, lines=False):
    """Real QMI_Context(s); publisher threads x subscriber threads; returns the call log and queues."""
    import random
    import threading as real_threading
    import qmi.core.context as C
    import qmi.core.rpc as R
    import qmi.core.pubsub as P
    from qmi.core.config_defs import CfgQmi, CfgContext
    from qmi.core.exceptions import QMI_TimeoutException
    logging.disable(logging.CRITICAL)
    rng = random.Random(seed)
    obs = {"log": [], "queues": {}, "done": False}
    s.obs = obs
    s.recording = False

    class Pub(R.QMI_RpcObject):
        s = P.QMI_Signal([int])
        s1 = P.QMI_Signal([int])

    port = 52000 + (seed % 500)
    c1 = C.QMI_Context("c1", CfgQmi(contexts={"c1": CfgContext(host="127.0.0.1", tcp_server_port=port)}))
    c1.start()
    c1.make_rpc_object("pub", Pub)
    sub_ctx = c1
    if remote:
        c2 = C.QMI_Context("c2")
        c2.start()
        c2.connect_to_peer("c1", "127.0.0.1:%d" % port)
        sub_ctx = c2
    nrecv = 3
    receivers = [P.QMI_SignalReceiver() for _ in range(nrecv)]
    tick = itertools.count()
    log = obs["log"]

    def publisher(k, n):
        for i in range(n):
            a = k * 1000 + i
            sg = rng.choice(["s", "s1"]) if k else "s"
            t0 = next(tick)
            c1.publish_signal("pub", sg, a)
            log.append(["pub", k, sg, a, t0, next(tick)])

    def subscriber(r, plan):
        for kind, sg in plan:
            t0 = next(tick)
            try:
                if kind == "sub":
                    sub_ctx.subscribe_signal("c1", "pub", sg, receivers[r])
                else:
                    sub_ctx.unsubscribe_signal("c1", "pub", sg, receivers[r])
                res = "ok"
            except Exception as exc:
                res = type(exc).__name__
            log.append([kind, r, sg, res, t0, next(tick)])

    threads = []
    for k in range(2):
        threads.append(real_threading.Thread(target=publisher, args=(k, rng.randint(2, 5)), name="pub%d" % k))
    for r in range(nrecv):
        plan = []
        for _ in range(rng.randint(1, 4)):
            plan.append((rng.choice(["sub", "sub", "unsub"]), rng.choice(["s", "s", "s1"])))
        threads.append(real_threading.Thread(target=subscriber, args=(r, plan), name="sub%d" % r))
    if lines:
        line_yields(P)
    s.recording = True
    for t in threads:
        t.start()
    for t in threads:
        t.join()
    s.recording = False
    if remote:
        dsched.FAKE_TIME.sleep(1.0)      # let everything in flight arrive (virtual time)
        # a final marker publication per signal: FIFO => everything earlier has arrived when it is seen
    for r in range(nrecv):
        q = []
        while True:
            try:
                g = receivers[r].get_next_signal(0)
            except QMI_TimeoutException:
                break
            q.append([g.publisher_context, g.publisher_name, g.signal_name, g.args[0] if len(g.args) == 1 else -1,
                      g.receiver_seqnr])
        obs["queues"][str(r)] = q
    obs["done"] = True
    if remote:
        c2.stop()
    c1.stop()
    return obs


def scenario_fanout(s, seed, lines=False):
    """One publisher context c1 and TWO subscriber contexts c2, c3 subscribed to the same signal; publisher
    threads race with c1's socket thread."""
    import random
    import threading as real_threading
    import qmi.core.context as C
    import qmi.core.rpc as R
    import qmi.core.pubsub as P
    from qmi.core.config_defs import CfgQmi, CfgContext
    from qmi.core.exceptions import QMI_TimeoutException
    logging.disable(logging.CRITICAL)
    rng = random.Random(seed)
    obs = {"pubs": [], "queues": {}, "done": False}
    s.obs = obs
    s.recording = False

    class Pub(R.QMI_RpcObject):
        s = P.QMI_Signal([int])

    port = 54000 + (seed % 500)
    c1 = C.QMI_Context("c1", CfgQmi(contexts={"c1": CfgContext(host="127.0.0.1", tcp_server_port=port)}))
    c1.start()
    c1.make_rpc_object("pub", Pub)
    subs = []
    for nm in ("c2", "c3", "c4")[:rng.choice([2, 2, 3])]:
        c = C.QMI_Context(nm)
        c.start()
        c.connect_to_peer("c1", "127.0.0.1:%d" % port)
        r = P.QMI_SignalReceiver()
        c.subscribe_signal("c1", "pub", "s", r)
        subs.append((nm, c, r))
    nthreads = rng.choice([1, 2])

    def publisher(k, n):
        for i in range(n):
            a = k * 1000 + i
            c1.publish_signal("pub", "s", a)
            obs["pubs"].append(a)

    threads = [real_threading.Thread(target=publisher, args=(k, rng.randint(1, 4)), name="pub%d" % k) for k in range(nthreads)]
    if lines:
        line_yields(P)
    s.recording = True
    for t in threads:
        t.start()
    for t in threads:
        t.join()
    s.recording = False
    dsched.FAKE_TIME.sleep(1.0)
    for nm, c, r in subs:
        q = []
        while True:
            try:
                g = r.get_next_signal(0)
            except QMI_TimeoutException:
                break
            q.append([g.publisher_context, g.publisher_name, g.signal_name, g.args[0] if len(g.args) == 1 else -1])
        obs["queues"][nm] = q
    obs["done"] = True
    for nm, c, r in subs:
        c.stop()
    c1.stop()
    return obs


def fanout_oracle(obs):
    """Every subscriber context's receiver was subscribed before the first publication and stays subscribed:
    it must get every publication exactly once, with the right fields, each thread's in order."""
    pubs = sorted(obs["pubs"])
    for nm, q in obs["queues"].items():
        got = [a for (_, _, _, a) in q]
        for rec in q:
            if rec[:3] != ["c1", "pub", "s"] or rec[3] not in pubs:
                return "wrong-record", "receiver in %s got %r which was never published" % (nm, rec)
        for a in pubs:
            n = got.count(a)
            if n == 0:
                return "missing-record", "receiver in %s never got publication %d (queues: %r)" % (nm, a, obs["queues"])
            if n > 1:
                return "duplicate-record", "receiver in %s got publication %d %d times (queues: %r)" % (nm, a, n, obs["queues"])
        for k in (0, 1):
            mine = [a for a in got if a // 1000 == k]
            if mine != sorted(mine):
                return "order", "receiver in %s got the publications of thread %d as %r" % (nm, k, mine)
    return None


def scenario_recreate(s, seed, lines=False):
    """Remove and re-create a publisher under the same name.  Thread A removes publisher "pub" of c1 whose
    release_rpc_object() takes (virtual) time; thread B meanwhile creates "pub" again (retrying while the name
    is taken), subscribes a local receiver and a receiver in the connected context c2 to the new object and
    publishes; more publications follow when A is done.  Also records the life-cycle events of the name."""
    import random
    import threading as real_threading
    import common
    import qmi.core.context as C
    import qmi.core.rpc as R
    import qmi.core.pubsub as P
    from qmi.core.config_defs import CfgQmi, CfgContext
    from qmi.core.exceptions import QMI_TimeoutException, QMI_DuplicateNameException
    logging.disable(logging.CRITICAL)
    rng = random.Random(seed)
    obs = {"pubs": [], "queues": {}, "events": [], "done": False, "subs": {}, "tries": 0}
    s.obs = obs
    s.recording = False
    slow = rng.choice([0.0, 0.002, 0.01, 0.05])

    class Pub(R.QMI_RpcObject):
        s = P.QMI_Signal([int])

        def release_rpc_object(self):
            dsched.FAKE_TIME.sleep(slow)      # a slow release (closing a device): a scheduling point

    port = 55000 + (seed % 500)
    c1 = C.QMI_Context("c1", CfgQmi(contexts={"c1": CfgContext(host="127.0.0.1", tcp_server_port=port)}))
    c1.start()
    c2 = C.QMI_Context("c2")
    c2.start()
    c2.connect_to_peer("c1", "127.0.0.1:%d" % port)
    old = c1.make_rpc_object("pub", Pub)
    r_old = P.QMI_SignalReceiver()
    c1.subscribe_signal("c1", "pub", "s", r_old)
    # a subscriber of the OLD object in a third context (in c2 it would make the new remote subscribe join a
    # subscription that the removal notice of the old object, still in flight, then ends: not decided here)
    r_old2 = P.QMI_SignalReceiver()
    c3 = None
    if rng.random() < 0.5:
        c3 = C.QMI_Context("c3")
        c3.start()
        c3.connect_to_peer("c1", "127.0.0.1:%d" % port)
        c3.subscribe_signal("c1", "pub", "s", r_old2)

    # life-cycle events of the object map and of the subscription clean-up (observed from outside)
    ev = obs["events"]

    class LoggedMap(dict):
        def __setitem__(self, k, v):
            if k == "pub":
                ev.append("mark" if (v is None and dict.get(self, k) is not None) else ("reserve" if v is None else "created"))
            dict.__setitem__(self, k, v)

        def __delitem__(self, k):
            if k == "pub":
                ev.append("release")
            dict.__delitem__(self, k)

        def pop(self, k, *d):
            if k == "pub" and k in self:
                ev.append("release")
            return dict.pop(self, k, *d)

    common.poke(c1, "_rpc_object_map", LoggedMap(c1._rpc_object_map))
    sm = c1._signal_manager
    orig_removed = sm.handle_object_removed

    def logged_removed(name):
        if name == "pub":
            ev.append("cleanup")
        return orig_removed(name)
    sm.handle_object_removed = logged_removed

    r_loc, r_rem = P.QMI_SignalReceiver(), P.QMI_SignalReceiver()
    k1, k2 = rng.randint(0, 2), rng.randint(1, 3)

    def remover():
        c1.remove_rpc_object(old)

    def creator():
        while True:
            obs["tries"] += 1
            try:
                c1.make_rpc_object("pub", Pub)
                break
            except QMI_DuplicateNameException:
                dsched.FAKE_TIME.sleep(0.001)
        c1.subscribe_signal("c1", "pub", "s", r_loc)
        obs["subs"]["local"] = "ok"
        c2.subscribe_signal("c1", "pub", "s", r_rem)
        obs["subs"]["remote"] = "ok"
        for i in range(k1):
            c1.publish_signal("pub", "s", 100 + i)
            obs["pubs"].append(100 + i)

    ta = real_threading.Thread(target=remover, name="remover")
    tb = real_threading.Thread(target=creator, name="creator")
    if lines:
        dsched.enable_line_yields([C.QMI_Context.remove_rpc_object, C.QMI_Context._internal_make_rpc_object,
                                   C.QMI_Context.make_rpc_object, P.SignalManager.handle_object_removed])
    s.recording = True
    ta.start()
    if rng.random() < 0.7:
        dsched.FAKE_TIME.sleep(rng.choice([0.0, 0.0005, 0.003]))
    tb.start()
    ta.join()
    tb.join()
    s.recording = False
    dsched.FAKE_TIME.sleep(0.5)
    for i in range(k2):
        c1.publish_signal("pub", "s", 200 + i)
        obs["pubs"].append(200 + i)
    dsched.FAKE_TIME.sleep(1.0)
    for nm, r in (("local", r_loc), ("remote", r_rem), ("old-local", r_old), ("old-remote", r_old2)):
        q = []
        while True:
            try:
                g = r.get_next_signal(0)
            except QMI_TimeoutException:
                break
            q.append([g.publisher_context, g.publisher_name, g.signal_name, g.args[0] if len(g.args) == 1 else -1])
        obs["queues"][nm] = q
    obs["tables"] = {"c1.lsubs": sorted(sm._local_subscriptions), "c1.rsubs": sorted(sm._remote_subscriptions),
                     "c2.lsubs": sorted(c2._signal_manager._local_subscriptions)}
    obs["done"] = True
    if c3 is not None:
        c3.stop()
    c2.stop()
    c1.stop()
    return obs


def recreate_oracle(obs):
    """The receivers subscribed to the NEW publisher (their subscribe calls returned, nobody unsubscribed, the
    publisher exists) must get each of its publications exactly once, in order."""
    pubs = list(obs["pubs"])
    for nm in ("local", "remote"):
        if obs["subs"].get(nm) != "ok":
            return "subscribe-failed", "subscribe of the %s receiver to the re-created publisher did not return" % nm
        got = [a for (_, _, _, a) in obs["queues"][nm]]
        for rec in obs["queues"][nm]:
            if rec[:3] != ["c1", "pub", "s"] or rec[3] not in pubs:
                return "wrong-record", "%s receiver got %r which was never published" % (nm, rec)
        if got != pubs:
            kind = "duplicate-record" if len(set(got)) < len(got) else ("missing-record" if set(got) < set(pubs) else "order")
            return kind, ("the %s receiver is subscribed to the re-created publisher c1.pub (signal s) but got %r instead of %r "
                          "(c1 lsubs=%r rsubs=%r, c2 lsubs=%r)" % (nm, got, pubs, obs["tables"]["c1.lsubs"], obs["tables"]["c1.rsubs"],
                                                                 obs["tables"]["c2.lsubs"]))
    return None


def lifecycle_term(events):
    nm = S.cs("pub")
    m = {"mark": "EvMark", "cleanup": "EvCleanup", "release": "EvRelease", "reserve": "EvReserve"}
    return clist(["%s %s" % (m[e], nm) for e in events if e in m])


def run_recreate(ck, prop, n):
    """Run the remove/re-create family; oracle + the life-cycle hypothesis of the model on every schedule."""
    jobs = [(scenario_recreate, (ck.rng.randint(0, 10 ** 6), i % 2 == 0), dict(strategy="random" if i % 2 else "pct", seed=i))
            for i in range(n)]
    results = dsched.run_forked(jobs, nproc=16, wall_timeout=60.0)
    terms, metas = [], []
    for (fn, args, kw), res in zip(jobs, results):
        ck.note_case(("recreate", args, kw["seed"], tuple(res.get("choices") or ())[:50]), True)
        ck.count("recreate%s:%s" % ("+lines" if args[1] else "", res["status"]))
        rp = {"kind": "recreate", "seed": args[0], "lines": args[1], "sched": kw, "schedule": res.get("choices")}
        if res["status"] != "ok" or not (res.get("obs") or {}).get("done"):
            ck.report("oracle:%s:recreate:%s" % (prop.lower(), res["status"]),
                      "remove/re-create run did not finish (%s): %s" % (res["status"], str(res.get("info") or res.get("trace"))[:600]), rp)
            continue
        o = res["obs"]
        if o["tries"] > 1:
            ck.count("recreate:creator-had-to-retry")
        bad = recreate_oracle(o)
        if bad:
            ck.report("oracle:%s:recreate:%s" % (prop.lower(), bad[0]),
                      "%s fails on real contexts (publisher removed and re-created under the same name): %s" % (prop, bad[1]),
                      dict(rp, events=o["events"], queues=o["queues"], pubs=o["pubs"]))
        terms.append(lifecycle_term(o["events"]))
        metas.append((rp, o, bad))
    bad_idx = ck.run_model("C07.Corr", "lifecycle_ok", terms, "list objev", shard=400)
    ck.coverage["lifecycle_hypothesis_rejected"] = len(bad_idx)
    for i in bad_idx[:3]:
        rp, o, bad = metas[i]
        ck.report("corr:object-lifecycle:%s" % ("oracle-fails" if bad else "hypothesis-broken"),
                  "hypothesis of the model broken on a real schedule: the name 'pub' was reserved again between its release and "
                  "handle_object_removed('pub') of the previous incarnation (events %r)%s" % (
                      o["events"], ": " + bad[1] if bad else " (the property oracle passes on this schedule)"),
                  dict(rp, events=o["events"], queues=o["queues"], pubs=o["pubs"],
                       broken="hypothesis C07.Corr.lifecycle_ok (IObjRemove is atomic w.r.t. the object's name)"),
                  found_input=bool(bad))


BIDIR_CLOSES = ["a_disc_b", "b_disc_a", "c_stop", "eof_a_out", "eof_a_in", "c_disc_a"]


def scenario_bidir(s, seed, lines=False):
    """Contexts a and b connected in BOTH directions (each has its own outgoing connection to the other), a third
    context c connected to both, subscriptions in both directions; ONE connection (or c) is closed while both
    publishers publish.  Records what every handle_peer_context_removed call is told."""
    import random
    import threading as real_threading
    import qmi.core.context as C
    import qmi.core.rpc as R
    import qmi.core.pubsub as P
    from qmi.core.config_defs import CfgQmi, CfgContext
    from qmi.core.exceptions import QMI_TimeoutException
    logging.disable(logging.CRITICAL)
    rng = random.Random(seed)
    how = BIDIR_CLOSES[seed % len(BIDIR_CLOSES)]
    obs = {"how": how, "pubs": {"a": [], "b": []}, "phase": {}, "queues": {}, "notices": [], "done": False}
    s.obs = obs
    s.recording = False

    class Pub(R.QMI_RpcObject):
        s = P.QMI_Signal([int])

    pa, pb = 56000 + (seed % 400) * 2, 56001 + (seed % 400) * 2
    cfg = CfgQmi(contexts={"a": CfgContext(host="127.0.0.1", tcp_server_port=pa), "b": CfgContext(host="127.0.0.1", tcp_server_port=pb)})
    A, B, Cc = C.QMI_Context("a", cfg), C.QMI_Context("b", cfg), C.QMI_Context("c", cfg)
    ctxs = {"a": A, "b": B, "c": Cc}
    # what the signal manager of every context is told when a connection goes away (installed before start:
    # the router accepts callbacks only while it is not running)
    told = {"a": [], "b": [], "c": []}

    def probe(nm, ctx):
        sm = ctx._signal_manager
        router = ctx._message_router

        def cb(name):
            told[nm].append(name)
            sm.handle_peer_context_removed(name)
        router.set_peer_context_callbacks(None, cb)
    for nm, ctx in ctxs.items():
        probe(nm, ctx)
    for c in (A, B, Cc):
        c.start()
    A.make_rpc_object("pub", Pub)
    B.make_rpc_object("pub", Pub)
    A.connect_to_peer("b", "127.0.0.1:%d" % pb)
    B.connect_to_peer("a", "127.0.0.1:%d" % pa)
    Cc.connect_to_peer("a", "127.0.0.1:%d" % pa)
    Cc.connect_to_peer("b", "127.0.0.1:%d" % pb)
    # receiver name -> (context, publisher context, connection that carries the subscription)
    spec = {"a<-b": (A, "b", "a>b"), "b<-a": (B, "a", "b>a"), "c<-a": (Cc, "a", "c>a"), "c<-b": (Cc, "b", "c>b")}
    recv = {}
    for nm, (ctx, pubctx, _) in spec.items():
        recv[nm] = P.QMI_SignalReceiver()
        ctx.subscribe_signal(pubctx, "pub", "s", recv[nm])

    def peers(ctx):
        return sorted(ctx._message_router.get_peer_context_names())

    counter = {"a": 0, "b": 0}

    def publish(who, n):
        ctx = ctxs[who]
        for _ in range(n):
            counter[who] += 1
            v = counter[who]
            ctx.publish_signal("pub", "s", v)
            obs["pubs"][who].append(v)

    def mark(phase):
        obs["phase"][phase] = {"a": len(obs["pubs"]["a"]), "b": len(obs["pubs"]["b"])}

    publish("a", 1)
    publish("b", 1)
    dsched.FAKE_TIME.sleep(0.5)
    mark("before")
    before = {nm: peers(c) for nm, c in ctxs.items()}

    def find_conn(ctx, peer, incoming):
        smgr = ctx._message_router._socket_manager
        for alias, conn in list(smgr._peer_context_map.items()):
            if conn.peer_context_name == peer and alias.startswith("$") == incoming:
                return conn
        return None

    ta = real_threading.Thread(target=publish, args=("a", rng.randint(1, 3)), name="pubA")
    tb = real_threading.Thread(target=publish, args=("b", rng.randint(1, 3)), name="pubB")
    if lines:
        import qmi.core.messaging as M
        dsched.enable_line_yields([P.SignalManager.handle_peer_context_removed, P.SignalManager.publish_signal,
                                   M._SocketManager.remove_peer_connection])
    s.recording = True
    ta.start()
    tb.start()
    if rng.random() < 0.6:
        dsched.FAKE_TIME.sleep(rng.choice([0.0, 0.0005, 0.002]))
    closed = set()
    if how == "a_disc_b":
        A.disconnect_from_peer("b")
        closed = {"a>b"}
    elif how == "b_disc_a":
        B.disconnect_from_peer("a")
        closed = {"b>a"}
    elif how == "c_disc_a":
        Cc.disconnect_from_peer("a")
        closed = {"c>a"}
    elif how == "c_stop":
        Cc.stop()
        closed = {"c>a", "c>b"}
    elif how == "eof_a_out":        # the socket of a's own connection to b breaks
        conn = find_conn(A, "b", False)
        conn._sock._eof = True
        conn._sock._notify()
        closed = {"a>b"}
    elif how == "eof_a_in":         # the socket of b's connection to a breaks (seen first at a)
        conn = find_conn(A, "b", True)
        conn._sock._eof = True
        conn._sock._notify()
        closed = {"b>a"}
    ta.join()
    tb.join()
    s.recording = False
    dsched.FAKE_TIME.sleep(1.0)
    mark("settled")
    publish("a", 2)
    publish("b", 2)
    dsched.FAKE_TIME.sleep(1.0)
    obs["closed"] = sorted(closed)
    for nm, ctx in ctxs.items():
        if nm == "c" and how == "c_stop":
            continue
        obs["notices"].append({"ctx": nm, "before": before[nm], "told": list(told[nm]), "after": peers(ctx)})
    for nm, r in recv.items():
        q = []
        while True:
            try:
                g = r.get_next_signal(0)
            except QMI_TimeoutException:
                break
            q.append([g.publisher_context, g.publisher_name, g.signal_name, g.args[0] if len(g.args) == 1 else -1])
        obs["queues"][nm] = q
    obs["carrier"] = {nm: v[2] for nm, v in spec.items()}
    obs["pubctx"] = {nm: v[1] for nm, v in spec.items()}
    obs["done"] = True
    if how != "c_stop":
        Cc.stop()
    B.stop()
    A.stop()
    return obs


def bidir_oracle(obs):
    """A receiver whose subscription runs over a connection that is still up gets every publication of its publisher
    exactly once, in order; one whose connection was closed gets everything published before, an in-order duplicate-free
    part of what was published during the close, and nothing of what was published afterwards."""
    for nm, q in obs["queues"].items():
        pc = obs["pubctx"][nm]
        allp = obs["pubs"][pc]
        for rec in q:
            if rec[:3] != [pc, "pub", "s"] or rec[3] not in allp:
                return "wrong-record", "receiver %s got %r which was never published" % (nm, rec)
        got = [r[3] for r in q]
        if len(set(got)) != len(got):
            return "duplicate-record", "receiver %s got %r" % (nm, got)
        if got != sorted(got):
            return "order", "receiver %s got %r" % (nm, got)
        n0, n1 = obs["phase"]["before"][pc], obs["phase"]["settled"][pc]
        if obs["carrier"][nm] not in obs["closed"]:
            if got != allp:
                return "missing-record", ("receiver %s is subscribed to %s.pub.s over connection %s, which stayed up (closed: %s via %s), "
                                          "but got %r instead of %r" % (nm, pc, obs["carrier"][nm], obs["closed"], obs["how"], got, allp))
        else:
            if got[:n0] != allp[:n0]:
                return "missing-record", "receiver %s lost publications made before its connection closed: %r of %r" % (nm, got, allp)
            late = [v for v in got if v in allp[n1:]]
            if late:
                return "record-after-close", ("receiver %s still got %r although the connection %s carrying its subscription had been "
                                              "closed and both ends had noticed" % (nm, late, obs["carrier"][nm]))
    return None


def run_bidir(ck, prop, n):
    jobs = [(scenario_bidir, (ck.rng.randint(0, 10 ** 6), i % 3 == 0), dict(strategy="random" if i % 2 else "pct", seed=i))
            for i in range(n)]
    results = dsched.run_forked(jobs, nproc=16, wall_timeout=60.0)
    terms, metas = [], []
    for (fn, args, kw), res in zip(jobs, results):
        ck.note_case(("bidir", args, kw["seed"], tuple(res.get("choices") or ())[:50]), True)
        how = BIDIR_CLOSES[args[0] % len(BIDIR_CLOSES)]
        ck.count("bidir:%s%s:%s" % (how, "+lines" if args[1] else "", res["status"]))
        rp = {"kind": "bidir", "seed": args[0], "lines": args[1], "how": how, "sched": kw, "schedule": res.get("choices")}
        if res["status"] != "ok" or not (res.get("obs") or {}).get("done"):
            ck.report("oracle:%s:bidir:%s:%s" % (prop.lower(), how, res["status"]),
                      "two-way-connected run did not finish (%s): %s" % (res["status"], str(res.get("info") or res.get("trace"))[:600]), rp)
            continue
        o = res["obs"]
        bad = bidir_oracle(o)
        if bad:
            ck.report("oracle:%s:bidir:%s" % (prop.lower(), bad[0]),
                      "%s fails on real contexts connected in both directions: %s" % (prop, bad[1]),
                      dict(rp, queues=o["queues"], pubs=o["pubs"], notices=o["notices"]))
        for nt in o["notices"]:
            terms.append("(%s, %s, %s)" % (clist([S.cs(x) for x in nt["before"]]), clist([S.cs(x) for x in nt["told"]]),
                                           clist([S.cs(x) for x in nt["after"]])))
            metas.append((rp, o, nt, bad))
    bad_idx = ck.run_model("C07.Corr", "peer_notice_ok", terms, "list name * list name * list name", shard=600)
    ck.coverage["peer_notice_disagreements"] = len(bad_idx)
    for i in bad_idx[:3]:
        rp, o, nt, bad = metas[i]
        ck.report("corr:peer-notice:%s" % ("oracle-fails" if bad else "model-differs"),
                  "context %s closed a connection (%s): its router knew the aliases %r before and %r afterwards, but "
                  "handle_peer_context_removed was told %r; the model's step is told the alias of the closed connection%s" % (
                      nt["ctx"], o["how"], nt["before"], nt["after"], nt["told"], ": " + bad[1] if bad else ""),
                  dict(rp, notice=nt, queues=o["queues"], pubs=o["pubs"], broken="correspondence C07.Corr.peer_notice_ok"),
                  found_input=bool(bad))


def replay_bidir(c):
    import qmi.core.context, qmi.core.rpc, qmi.core.pubsub, qmi.core.messaging, qmi.core.task  # noqa
    res = dsched.run_forked([(scenario_bidir, (c["seed"], bool(c.get("lines"))),
                              dict(strategy="replay", schedule=list(c["schedule"] or [])))], nproc=1, wall_timeout=60.0)[0]
    print("status:", res["status"])
    if res["status"] != "ok":
        print(res.get("info") or res.get("trace"))
        return 1
    o = res["obs"]
    print("close:", o["how"], "closed connections:", o["closed"])
    print("published:", o["pubs"], "phases:", o["phase"])
    print("handle_peer_context_removed:", o["notices"])
    print("queues:", o["queues"])
    bad = bidir_oracle(o)
    print("oracle:", bad or "property holds on this schedule")
    return 1 if bad else 0


ADD_REMOVE_FUNCS = ["_add_local_subscriber", "_remove_local_subscriber", "_add_remote_subscriber", "_remove_remote_subscriber",
                    "_subscribe_local", "_subscribe_remote", "_unsubscribe_remote", "publish_signal", "_deliver_local",
                    "_handle_subscription_request", "_handle_subscription_reply"]


def scenario_lastunsub(s, seed, mode, lines=False, concurrent_pub=False):
    """subscribe(R1) racing with the LAST unsubscribe of another receiver R0 on the same signal, then k publications.
    mode: "local" (publisher and receivers in c1), "remote" (R0, R1 in c2, publisher in c1),
    "remote2" (R0 in c2, R1 in c3, publisher in c1)."""
    import random
    import threading as real_threading
    import qmi.core.context as C
    import qmi.core.rpc as R
    import qmi.core.pubsub as P
    from qmi.core.config_defs import CfgQmi, CfgContext
    from qmi.core.exceptions import QMI_TimeoutException
    logging.disable(logging.CRITICAL)
    rng = random.Random(seed)
    obs = {"mode": mode, "calls": {}, "early": [], "pubs": [], "queues": {}, "done": False}
    s.obs = obs
    s.recording = False

    class Pub(R.QMI_RpcObject):
        s = P.QMI_Signal([int])

    port = 57000 + (seed % 500)
    c1 = C.QMI_Context("c1", CfgQmi(contexts={"c1": CfgContext(host="127.0.0.1", tcp_server_port=port)}))
    c1.start()
    c1.make_rpc_object("pub", Pub)
    others = []
    ctx0 = ctx1 = c1
    if mode != "local":
        c2 = C.QMI_Context("c2")
        c2.start()
        c2.connect_to_peer("c1", "127.0.0.1:%d" % port)
        others.append(c2)
        ctx0 = ctx1 = c2
        if mode == "remote2":
            c3 = C.QMI_Context("c3")
            c3.start()
            c3.connect_to_peer("c1", "127.0.0.1:%d" % port)
            others.append(c3)
            ctx1 = c3
    r0, r1 = P.QMI_SignalReceiver(), P.QMI_SignalReceiver()
    ctx0.subscribe_signal("c1", "pub", "s", r0)

    def sub1():
        try:
            ctx1.subscribe_signal("c1", "pub", "s", r1)
            obs["calls"]["sub1"] = "ok"
        except Exception as exc:
            obs["calls"]["sub1"] = type(exc).__name__

    def unsub0():
        try:
            ctx0.unsubscribe_signal("c1", "pub", "s", r0)
            obs["calls"]["unsub0"] = "ok"
        except Exception as exc:
            obs["calls"]["unsub0"] = type(exc).__name__

    def early():
        for i in range(2):
            c1.publish_signal("pub", "s", 50 + i)
            obs["early"].append(50 + i)

    ths = [real_threading.Thread(target=sub1, name="sub1"), real_threading.Thread(target=unsub0, name="unsub0")]
    if concurrent_pub:
        ths.append(real_threading.Thread(target=early, name="early"))
    if lines:
        dsched.enable_line_yields([getattr(P.SignalManager, f) for f in ADD_REMOVE_FUNCS])
    s.recording = True
    for t in ths:
        t.start()
    for t in ths:
        t.join()
    s.recording = False
    dsched.FAKE_TIME.sleep(0.5)
    for i in range(3):
        c1.publish_signal("pub", "s", 100 + i)
        obs["pubs"].append(100 + i)
    dsched.FAKE_TIME.sleep(1.0)
    for nm, r in (("r0", r0), ("r1", r1)):
        q = []
        while True:
            try:
                g = r.get_next_signal(0)
            except QMI_TimeoutException:
                break
            q.append([g.publisher_context, g.publisher_name, g.signal_name, g.args[0] if len(g.args) == 1 else -1])
        obs["queues"][nm] = q
    obs["tables"] = {"c1.lsubs": {k: len(v) for k, v in c1._signal_manager._local_subscriptions.items()},
                     "c1.rsubs": {k: sorted(v) for k, v in c1._signal_manager._remote_subscriptions.items()}}
    obs["done"] = True
    for c in reversed(others):
        c.stop()
    c1.stop()
    return obs


def lastunsub_oracle(obs):
    """R1's subscribe returned and it never unsubscribed: it gets every later publication exactly once, in order; R0
    unsubscribed before them: it gets none of them."""
    if obs["calls"].get("sub1") != "ok" or obs["calls"].get("unsub0") != "ok":
        return "call-failed", "subscribe/unsubscribe did not return normally: %r" % (obs["calls"],)
    late = obs["pubs"]
    for nm, q in obs["queues"].items():
        for rec in q:
            if rec[:3] != ["c1", "pub", "s"] or rec[3] not in late + obs["early"]:
                return "wrong-record", "receiver %s got %r which was never published" % (nm, rec)
        got = [r[3] for r in q]
        if len(set(got)) != len(got):
            return "duplicate-record", "receiver %s got %r" % (nm, got)
        if got != sorted(got):
            return "order", "receiver %s got %r" % (nm, got)
    got1 = [r[3] for r in obs["queues"]["r1"] if r[3] in late]
    if got1 != late:
        return "missing-record", ("R1's subscribe to c1.pub.s returned and R1 never unsubscribed (mode %s; R0, the only other subscriber, "
                                  "unsubscribed concurrently), but of the later publications %r it got %r (tables %r)" % (
                                      obs["mode"], late, got1, obs["tables"]))
    got0 = [r[3] for r in obs["queues"]["r0"] if r[3] in late]
    if got0:
        return "stray-record", "R0 had unsubscribed but still got the later publications %r" % (got0,)
    return None


def run_lastunsub(ck, prop, n, ndfs):
    modes = ["local", "local", "remote", "remote2"]
    jobs = [(scenario_lastunsub, (ck.rng.randint(0, 10 ** 6), modes[i % 4], i % 4 != 3, i % 5 == 0),
             dict(strategy="random" if i % 2 else "pct", seed=i)) for i in range(n)]
    results = dsched.run_forked(jobs, nproc=16, wall_timeout=60.0)
    allres = [(j[1], j[2], r) for j, r in zip(jobs, results)]
    # bounded DFS over the 2-thread core (subscribe R1 || unsubscribe R0), line-level switch points, local signal
    runs = 0
    for res in dsched.explore_dfs(scenario_lastunsub, (ck.seed, "local", True, False), preemption_bound=2, max_runs=ndfs,
                                  nproc=16, wall_timeout=60.0):
        if res["status"] == "_summary":
            ck.coverage.setdefault("dfs", {})["lastunsub/local"] = {"runs": res["runs"], "exhausted_within_preemption_bound": res["exhausted"],
                                                                     "bound": 2}
            continue
        runs += 1
        allres.append(((ck.seed, "local", True, False), dict(strategy="replay", schedule=res.get("prefix")), res))
    for args, kw, res in allres:
        ck.note_case(("lastunsub", args, tuple(res.get("choices") or ())[:60]), True)
        ck.count("lastunsub:%s%s:%s" % (args[1], "+lines" if args[2] else "", res["status"]))
        rp = {"kind": "lastunsub", "seed": args[0], "mode": args[1], "lines": args[2], "concurrent_pub": args[3],
              "schedule": res.get("choices")}
        if res["status"] != "ok" or not (res.get("obs") or {}).get("done"):
            ck.report("oracle:%s:lastunsub:%s:%s" % (prop.lower(), args[1], res["status"]),
                      "subscribe/last-unsubscribe run did not finish (%s): %s" % (res["status"], str(res.get("info") or res.get("trace"))[:600]), rp)
            continue
        bad = lastunsub_oracle(res["obs"])
        if bad:
            ck.report("oracle:%s:lastunsub:%s:%s" % (prop.lower(), args[1], bad[0]),
                      "%s fails on real contexts (subscribe racing with the last unsubscribe of another receiver): %s" % (prop, bad[1]),
                      dict(rp, queues=res["obs"]["queues"], calls=res["obs"]["calls"]))


def replay_lastunsub(c):
    import qmi.core.context, qmi.core.rpc, qmi.core.pubsub, qmi.core.messaging, qmi.core.task  # noqa
    res = dsched.run_forked([(scenario_lastunsub, (c["seed"], c["mode"], bool(c.get("lines")), bool(c.get("concurrent_pub"))),
                              dict(strategy="replay", schedule=list(c["schedule"] or [])))], nproc=1, wall_timeout=60.0)[0]
    print("status:", res["status"])
    if res["status"] != "ok":
        print(res.get("info") or res.get("trace"))
        return 1
    o = res["obs"]
    print("calls:", o["calls"], "published during the race:", o["early"], "afterwards:", o["pubs"])
    print("queues:", o["queues"], "tables:", o["tables"])
    bad = lastunsub_oracle(o)
    print("oracle:", bad or "property holds on this schedule")
    return 1 if bad else 0


def scenario_remove_disc(s, seed, lines=False):
    """The publisher object of c1 is removed while one of its subscriber contexts disconnects; 2-3 subscriber contexts
    on 2 signals.  Afterwards the publisher is re-created and a still-connected context subscribes again."""
    import random
    import threading as real_threading
    import qmi.core.context as C
    import qmi.core.rpc as R
    import qmi.core.pubsub as P
    import qmi.core.messaging as M
    from qmi.core.config_defs import CfgQmi, CfgContext
    from qmi.core.exceptions import QMI_TimeoutException
    logging.disable(logging.CRITICAL)
    rng = random.Random(seed)
    obs = {"lsubs": {}, "queues": {}, "pubs": [], "calls": {}, "done": False}
    s.obs = obs
    s.recording = False

    class Pub(R.QMI_RpcObject):
        s = P.QMI_Signal([int])
        s1 = P.QMI_Signal([int])

    port = 58000 + (seed % 500)
    c1 = C.QMI_Context("c1", CfgQmi(contexts={"c1": CfgContext(host="127.0.0.1", tcp_server_port=port)}))
    c1.start()
    proxy = c1.make_rpc_object("pub", Pub)
    subs = {}
    nsub = rng.choice([2, 3])
    for i, (nm, sg) in enumerate([("c2", "s"), ("c3", "s1"), ("c4", "s")][:nsub]):
        c = C.QMI_Context(nm)
        c.start()
        c.connect_to_peer("c1", "127.0.0.1:%d" % port)
        r = P.QMI_SignalReceiver()
        c.subscribe_signal("c1", "pub", sg, r)
        subs[nm] = (c, sg, r)
    how = rng.choice(["disconnect", "stop"])

    def remover():
        c1.remove_rpc_object(proxy)
        obs["calls"]["remove"] = "ok"

    th = real_threading.Thread(target=remover, name="remover")
    if lines:
        dsched.enable_line_yields([P.SignalManager.handle_object_removed, P.SignalManager.handle_peer_context_removed,
                                   M._SocketManager.remove_peer_connection])
    s.recording = True
    first = rng.random() < 0.5
    if first:
        th.start()
    if rng.random() < 0.5:
        dsched.FAKE_TIME.sleep(rng.choice([0.0, 0.0005, 0.002]))
    c2 = subs["c2"][0]
    if how == "disconnect":
        c2.disconnect_from_peer("c1")
    else:
        c2.stop()
    if not first:
        th.start()
    th.join()
    s.recording = False
    dsched.FAKE_TIME.sleep(1.0)
    for nm, (c, sg, r) in subs.items():
        if nm != "c2":
            obs["lsubs"][nm] = sorted(c._signal_manager._local_subscriptions)
    obs["c1.rsubs"] = {k: sorted(v) for k, v in c1._signal_manager._remote_subscriptions.items()}
    # the publisher comes back; a still-connected context subscribes a new receiver
    c1.make_rpc_object("pub", Pub)
    c3, sg3, _ = subs["c3"]
    rnew = P.QMI_SignalReceiver()
    try:
        c3.subscribe_signal("c1", "pub", sg3, rnew)
        obs["calls"]["resub"] = "ok"
    except Exception as exc:
        obs["calls"]["resub"] = type(exc).__name__
    for i in range(2):
        c1.publish_signal("pub", sg3, 300 + i)
        obs["pubs"].append(300 + i)
    dsched.FAKE_TIME.sleep(1.0)
    q = []
    while True:
        try:
            g = rnew.get_next_signal(0)
        except QMI_TimeoutException:
            break
        q.append(g.args[0] if len(g.args) == 1 else -1)
    obs["queues"]["c3.new"] = q
    obs["done"] = True
    for nm, (c, sg, r) in reversed(list(subs.items())):
        if not (nm == "c2" and how == "stop"):
            c.stop()
    c1.stop()
    return obs


def remove_disc_oracle(obs):
    """Removing a publisher ends the subscriptions on it at both ends: once things have settled no still-connected
    context has a subscription left on it; and the receivers that subscribe to the re-created publisher get its signals."""
    if obs["calls"].get("remove") != "ok":
        return "call-failed", "remove_rpc_object did not return"
    for nm, ls in obs["lsubs"].items():
        if ls:
            return "stale-subscription", ("c1.pub was removed and everything has settled, yet the still-connected context %s keeps the "
                                          "local subscriptions %r (c1 lists %r)" % (nm, ls, obs["c1.rsubs"]))
    if obs["c1.rsubs"]:
        return "stale-remote-subscriber", "c1 still lists remote subscribers %r of the removed publisher" % (obs["c1.rsubs"],)
    if obs["calls"].get("resub") != "ok":
        return "resubscribe-failed", "subscribing to the re-created publisher failed: %r" % (obs["calls"],)
    if obs["queues"]["c3.new"] != obs["pubs"]:
        return "missing-record", "the receiver subscribed to the re-created publisher got %r instead of %r" % (obs["queues"]["c3.new"], obs["pubs"])
    return None


def run_remove_disc(ck, prop, n):
    jobs = [(scenario_remove_disc, (ck.rng.randint(0, 10 ** 6), i % 4 != 3), dict(strategy="random" if i % 2 else "pct", seed=i))
            for i in range(n)]
    results = dsched.run_forked(jobs, nproc=16, wall_timeout=60.0)
    for (fn, args, kw), res in zip(jobs, results):
        ck.note_case(("remove_disc", args, kw["seed"], tuple(res.get("choices") or ())[:60]), True)
        ck.count("remove_disc%s:%s" % ("+lines" if args[1] else "", res["status"]))
        rp = {"kind": "remove_disc", "seed": args[0], "lines": args[1], "sched": kw, "schedule": res.get("choices")}
        if res["status"] != "ok" or not (res.get("obs") or {}).get("done"):
            ck.report("oracle:%s:remove_disc:%s" % (prop.lower(), res["status"]),
                      "remove/disconnect run did not finish (%s): %s" % (res["status"], str(res.get("info") or res.get("trace"))[:600]), rp)
            continue
        bad = remove_disc_oracle(res["obs"])
        if bad:
            ck.report("oracle:%s:remove_disc:%s" % (prop.lower(), bad[0]),
                      "%s fails on real contexts (publisher removed while a subscriber context disconnects): %s" % (prop, bad[1]),
                      dict(rp, obs=res["obs"]))


def replay_remove_disc(c):
    import qmi.core.context, qmi.core.rpc, qmi.core.pubsub, qmi.core.messaging, qmi.core.task  # noqa
    res = dsched.run_forked([(scenario_remove_disc, (c["seed"], bool(c.get("lines"))),
                              dict(strategy="replay", schedule=list(c["schedule"] or [])))], nproc=1, wall_timeout=60.0)[0]
    print("status:", res["status"])
    if res["status"] != "ok":
        print(res.get("info") or res.get("trace"))
        return 1
    print("observations:", res["obs"])
    bad = remove_disc_oracle(res["obs"])
    print("oracle:", bad or "property holds on this schedule")
    return 1 if bad else 0


def thread_oracle(obs, remote):
    """C07 on the call log of real threads: ops are intervals [t0,t1] of a global tick counter."""
    pubs = {e[3]: e for e in obs["log"] if e[0] == "pub"}
    calls = {}
    for e in obs["log"]:
        if e[0] in ("sub", "unsub"):
            if e[3] != "ok":
                return "call-failed", "%s raised %s" % (e[0], e[3])
            calls.setdefault((e[1], e[2]), []).append(e)
    for r, q in obs["queues"].items():
        r = int(r)
        seen = {}
        lastseq = -1
        for (c, p, sg, a, seq) in q:
            if a not in pubs or (c, p, sg) != ("c1", "pub", pubs[a][2]):
                return "wrong-record", "receiver %d got %r which was never published" % (r, (c, p, sg, a))
            seen[a] = seen.get(a, 0) + 1
            if seen[a] > 1:
                return "duplicate-record", "receiver %d got publication %d twice" % (r, a)
            if seq != lastseq + 1:
                return "seqnr", "receiver sequence numbers not consecutive"
            lastseq = seq
        # per publisher thread: publication order
        for k in (0, 1):
            mine = [a for (_, _, _, a, _) in q if a // 1000 == k]
            if mine != sorted(mine):
                return "order", "receiver %d got the publications of thread %d as %r" % (r, k, mine)
        for a, pe in pubs.items():
            sg, t0, t1 = pe[2], pe[4], pe[5]
            cs = sorted(calls.get((r, sg), []), key=lambda e: e[4])
            # definitely subscribed during [t0,t1]: a sub ended before t0 and no unsub overlaps or lies between
            subs_before = [e for e in cs if e[0] == "sub" and e[5] < t0]
            must = False
            if subs_before:
                last_sub_end = max(e[5] for e in subs_before)
                later_unsub = [e for e in cs if e[0] == "unsub" and e[5] > max(e2[4] for e2 in subs_before if e2[5] == last_sub_end) and e[4] < t1]
                # any unsubscribe that is not entirely before the start of the latest completed subscribe
                latest = max(subs_before, key=lambda e: e[5])
                later_unsub = [e for e in cs if e[0] == "unsub" and e[5] > latest[4] and e[4] < t1]
                must = not later_unsub
            # definitely not subscribed: never subscribed before t1, or an unsub ended before t0 with no sub
            # overlapping/after it before t1
            subs_any = [e for e in cs if e[0] == "sub" and e[4] < t1]
            mustnot = False
            if not subs_any:
                mustnot = True
            else:
                unsubs_done = [e for e in cs if e[0] == "unsub" and e[5] < t0]
                if unsubs_done:
                    lu = max(unsubs_done, key=lambda e: e[4])
                    if not [e for e in cs if e[0] == "sub" and e[5] > lu[4] and e[4] < t1]:
                        mustnot = True
            if remote:
                # the request/reply round trip is inside the subscribe call, the message flight is not:
                # a publication is delivered later than it is published; only "never subscribed at all"
                # and "subscribed all the time" are decidable from the call log
                if must and [e for e in cs if e[0] == "unsub"]:
                    must = False
                if mustnot and subs_any:
                    mustnot = False
                if mustnot and [e for e in cs if e[0] == "sub"]:
                    mustnot = False
            if must and seen.get(a, 0) != 1:
                return "missing-record", "receiver %d was subscribed to %s during publication %d but got %d records" % (
                    r, sg, a, seen.get(a, 0))
            if mustnot and seen.get(a, 0) != 0:
                return "stray-record", "receiver %d got publication %d of %s although it was not subscribed" % (r, a, sg)
    return None


# ------------------------------------------------------------------------------ check
def name_cases():
    import qmi.core.util as U
    pool = ODD_NAMES + OBJS + NODES + ["x" * 62 + "\n", "x" * 63 + "\n", "\n", "a\nb", "A-Z_(0)9", "p q", "p$", "$pubsub",
                                      "p/q", "٠", "ª", "p\r", "p\t", "-", "_", "(", ")", "[", "^", "~", "`", "{"]
    out = []
    for s_ in pool:
        out.append((s_, bool(U.is_valid_object_name(s_))))
    return out


def run_sims(ck, profile):
    """Generate the H2 histories of one profile; returns the list of finished simulations."""
    rng = ck.rng
    sims = []
    depth = 2 if ck.tier == "quick" else 3
    seen = set()
    scoped = list(small_scope_histories(depth, PREFIXES))
    if ck.tier == "quick":      # (thorough: depth 3 on all prefixes already; depth 4 would be 20 000 more histories)
        scoped += [(pre, seq) for pre, seq in small_scope_histories(depth + 1, PREFIXES[:1]) if len(seq) == depth + 1]
    for pre, seq in scoped:
        sim = run_scripted(pre, seq, rng)
        sig = repr([e.get("label") for e in sim.trace])
        if sig in seen:
            continue
        seen.add(sig)
        sims.append((sim, "exhaustive"))
    for d in range(0, 3):
        for seq in itertools.product(FANOUT_ALPHA, repeat=d):
            sim = run_fanout(seq, rng)
            sig = repr([e.get("label") for e in sim.trace])
            if sig in seen:
                continue
            seen.add(sig)
            sims.append((sim, "fanout-2-subscriber-contexts"))
    for d in range(0, 2 if ck.tier == "quick" else 3):
        for seq in itertools.product(FANOUT_ALPHA, repeat=d):
            sim = run_fanout(seq, rng, sig2="s1")
            sig = repr([e.get("label") for e in sim.trace])
            if sig not in seen:
                seen.add(sig)
                sims.append((sim, "fanout-prefix-named-signals"))
    nrand = (500 if ck.tier == "quick" else 3500)
    for _ in range(nrand):
        sims.append((random_history(rng, profile), "random"))
    for _ in range(60 if ck.tier == "quick" else 400):
        sims.append((random_history(rng, profile, nnodes=2, nsteps=rng.randint(80, 160)), "random-long"))
    return sims


def check_sims(ck, sims, prefix, keys):
    """Oracle + correspondence for a list of finished simulations."""
    termsN, terms2, metasN, metas2 = [], [], [], []
    for sim, kind in sims:
        labels = [e["label"] for e in sim.trace if "label" in e]
        nsig = sum(1 for t in sim.olog if t[1] == "record")
        ck.note_case(labels, nsig > 0 or any(l[0] == "deliver" for l in labels))
        ck.count("kind:" + kind)
        ck.count("contexts:%d" % len(sim.names))
        ck.count("steps:%s" % ("0-15" if len(labels) <= 15 else "16-60" if len(labels) <= 60 else "61+"))
        for l in labels:
            ck.count("label:" + (l[2][0] if l[0] == "node" else l[0]))
        ck.count("records-delivered", nsig)
        for key, text in S.Oracle(sim).run():
            if key.split(":")[0] in keys or key.startswith("harness:"):
                ck.report("oracle:" + key, "%s fails on the implementation: %s" % (prefix, text), replay_obj(sim))
        termsN.append(S.coq_caseN(sim))
        metasN.append(sim)
        if len(sim.names) == 2:
            terms2.append(S.coq_case2(sim))
            metas2.append(sim)
    for sim in [m for m in metasN if len(m.trace) < 40][:2]:
        ck.sample({"contexts": sim.init_objs, "trace": [str(e.get("label") or ("check", e["check"])) for e in sim.trace][:40]}, 3)
    badN = ck.run_model("C07.Corr", "check_case", termsN, "case", shard=120)
    bad2 = ck.run_model("C07.Corr", "check_case2", terms2, "case2", shard=120)
    ck.coverage["correspondence_disagreements"] = len(badN) + len(bad2)
    ck.coverage["two_node_system_cases"] = len(terms2)
    for which, bad, metas, fn, emit in (("N", badN, metasN, "model_out", S.coq_caseN), ("2", bad2, metas2, "model_out2", S.coq_case2)):
        for i in bad[:3]:
            sim = metas[i]
            mo = ck.model_eval("C07.Corr", "%s %s" % (fn, emit(sim)))
            why = [t for k, t in S.Oracle(sim).run() if k.split(":")[0] in keys]
            ck.report("corr%s:%s" % (which, "oracle-fails" if why else "model-differs"),
                      "implementation and Coq model (system %s) disagree on a history%s" % (
                          which, ": " + why[0] if why else " (the property oracle passes on it)"),
                      dict(replay_obj(sim), model_first_bad=mo, broken="correspondence C07.Corr.check_case" + ("2" if which == "2" else "")),
                      found_input=bool(why))
    return len(termsN), len(terms2)


def replay_obj(sim):
    return {"contexts": sim.init_objs, "ops": sim.toplog, "hooks": sim.hooklog,
            "trace": [[e.get("label") or ["check", e["check"]], e.get("outs")] for e in sim.trace]}


def replay_h2(rep, keys):
    """Re-execute a stored history exactly: the top-level operations in order, and at every hook point
    of a running publish the operations that ran there."""
    c = rep["case"]
    tup = lambda o: tuple(o)
    hooklog = [[tup(o) for o in ops] for ops in c["hooks"]]
    sim = S.Sim({k: list(v) for k, v in c["contexts"].items()}, hook=lambda sim_: hooklog.pop(0) if hooklog else [])
    for op in c["ops"]:
        sim.do(tup(op))
    bad = [(k, t) for k, t in S.Oracle(sim).run() if k.split(":")[0] in keys]
    for e in sim.trace:
        print(e.get("label") or ("check", e["check"], e["obs"]), e.get("outs", ""))
    print("oracle:", bad or "property holds on this history")
    return 1 if bad else 0


def run(ck):
    ck.theory_dir = THEORY
    ck.build_theory(THEORY)
    ck.trusted = [
        "Coq 8.16.1 kernel (vm_compute evaluates the model on the recorded histories)",
        "hand-written model theories/C07/Model.v of SignalManager / is_valid_object_name / the connection pending table, tied to /repo by this run's trace-acceptance correspondence",
        "H2 harness pubsub_sim.py: stub contexts, harness-owned FIFO queues (reliable, ordered, lost only at close), the wait() split, re-entrant interleaving at the lock-free points of publish_signal",
        "dsched deterministic runtime + fake network for the thread-level runs",
    ]
    ck.assumptions = [
        "request ids (random 64-bit in QMI) are fresh",
        "each handler's lock region is atomic; publish_signal is split at its lock regions; other handlers (one lock region + sends) are one step",
        "args tuples are integers (never inspected by the code); queue overflow is C09",
        "peers are honest SignalManagers (messages in a channel were produced by the model's handlers)",
    ]
    import qmi.core.context, qmi.core.rpc, qmi.core.pubsub, qmi.core.messaging, qmi.core.task  # noqa  (before fork)
    # is_valid_object_name on its own
    nc = name_cases()
    badn = ck.run_model("C07.Corr", "check_name", ["(%s, %s)" % (S.cs(s_), cbool(v)) for s_, v in nc], "list N * bool")
    for i in badn[:3]:
        ck.report("corr:valid-name", "is_valid_object_name(%r) = %r differs from the model" % nc[i],
                  {"name": nc[i][0], "impl": nc[i][1], "broken": "correspondence C07.Corr.check_name"}, found_input=False)
    for s_, v in nc:
        if v and "." in s_:
            ck.report("oracle:c07:dot-in-valid-name", "C07 fails: is_valid_object_name accepts %r which contains '.'" % s_,
                      {"name": s_})
    ck.count("name-cases", len(nc))
    sims = run_sims(ck, "c07")
    check_sims(ck, sims, "C07", ("c07",))
    # H3: threads
    nsched = 300 if ck.tier == "quick" else 4000
    jobs = []
    for i in range(nsched):
        remote = (i % 4 == 3)
        jobs.append((scenario_threads, (ck.rng.randint(0, 10 ** 6), remote, i % 2 == 0),
                     dict(strategy="random" if i % 3 else "pct", seed=i)))
    results = dsched.run_forked(jobs, nproc=16, wall_timeout=60.0)
    for (fn, args, kw), res in zip(jobs, results):
        ck.note_case(("threads", args, kw["seed"], tuple(res.get("choices") or ())[:50]), True)
        ck.count("threads:%s%s:%s" % ("remote" if args[1] else "local", "+lines" if args[2] else "", res["status"]))
        rp = {"kind": "threads", "seed": args[0], "remote": args[1], "lines": args[2], "sched": kw, "schedule": res.get("choices")}
        if res["status"] != "ok" or not (res.get("obs") or {}).get("done"):
            ck.report("oracle:c07:threads:%s" % res["status"],
                      "thread-level run did not finish (%s): %s" % (res["status"], str(res.get("info") or res.get("trace"))[:400]), rp)
            continue
        bad = thread_oracle(res["obs"], args[1])
        if bad:
            ck.report("oracle:c07:threads:%s" % bad[0], "C07 fails on real threads: " + bad[1],
                      dict(rp, log=res["obs"]["log"], queues=res["obs"]["queues"]))
        ck.count("threads:records", sum(len(q) for q in res["obs"]["queues"].values()))
    nfan = 240 if ck.tier == "quick" else 3000
    jobs = [(scenario_fanout, (ck.rng.randint(0, 10 ** 6), i % 3 == 0), dict(strategy="random" if i % 2 else "pct", seed=i))
            for i in range(nfan)]
    results = dsched.run_forked(jobs, nproc=16, wall_timeout=60.0)
    for (fn, args, kw), res in zip(jobs, results):
        ck.note_case(("fanout", args, kw["seed"], tuple(res.get("choices") or ())[:50]), True)
        ck.count("fanout%s:%s" % ("+lines" if args[1] else "", res["status"]))
        rp = {"kind": "fanout", "seed": args[0], "lines": args[1], "sched": kw, "schedule": res.get("choices")}
        if res["status"] != "ok" or not (res.get("obs") or {}).get("done"):
            ck.report("oracle:c07:fanout:%s" % res["status"],
                      "fan-out run did not finish (%s): %s" % (res["status"], str(res.get("info") or res.get("trace"))[:400]), rp)
            continue
        bad = fanout_oracle(res["obs"])
        if bad:
            ck.report("oracle:c07:fanout:%s" % bad[0], "C07 fails on real contexts (one publisher, several subscriber contexts): " + bad[1],
                      dict(rp, queues=res["obs"]["queues"], pubs=res["obs"]["pubs"]))
        ck.count("fanout:records", sum(len(q) for q in res["obs"]["queues"].values()))
    run_recreate(ck, "C07", 180 if ck.tier == "quick" else 3000)
    run_bidir(ck, "C07", 150 if ck.tier == "quick" else 2400)
    run_lastunsub(ck, "C07", 160 if ck.tier == "quick" else 3000, 160 if ck.tier == "quick" else 3000)
    run_remove_disc(ck, "C07", 60 if ck.tier == "quick" else 600)
    return ck.finish("exhaustive op sequences (12-letter alphabet, 3 prefixes) + seeded random histories on 1-3 contexts with "
                     "re-entrant interleaving inside publish + random thread schedules of real contexts; non-trivial = at "
                     "least one record or message delivered; distinct by label sequence")


def replay_recreate(c):
    import qmi.core.context, qmi.core.rpc, qmi.core.pubsub, qmi.core.messaging, qmi.core.task  # noqa
    res = dsched.run_forked([(scenario_recreate, (c["seed"], bool(c.get("lines"))),
                              dict(strategy="replay", schedule=list(c["schedule"] or [])))], nproc=1, wall_timeout=60.0)[0]
    print("status:", res["status"])
    if res["status"] != "ok":
        print(res.get("info") or res.get("trace"))
        return 1
    o = res["obs"]
    print("life-cycle events of 'pub':", o["events"])
    print("published by the new object:", o["pubs"])
    print("queues:", o["queues"], "tables:", o["tables"])
    bad = recreate_oracle(o)
    print("oracle:", bad or "property holds on this schedule")
    return 1 if bad else 0


def replay(rep):
    c = rep["case"]
    if c.get("kind") == "recreate":
        return replay_recreate(c)
    if c.get("kind") == "bidir":
        return replay_bidir(c)
    if c.get("kind") == "lastunsub":
        return replay_lastunsub(c)
    if c.get("kind") == "remove_disc":
        return replay_remove_disc(c)
    if c.get("kind") == "fanout":
        import qmi.core.context, qmi.core.rpc, qmi.core.pubsub, qmi.core.messaging, qmi.core.task  # noqa
        res = dsched.run_forked([(scenario_fanout, (c["seed"], bool(c.get("lines"))),
                                  dict(strategy="replay", schedule=list(c["schedule"] or [])))], nproc=1, wall_timeout=60.0)[0]
        print("status:", res["status"])
        if res["status"] != "ok":
            print(res.get("info") or res.get("trace"))
            return 1
        print("published:", res["obs"]["pubs"])
        print("queues:", res["obs"]["queues"])
        bad = fanout_oracle(res["obs"])
        print("oracle:", bad or "property holds on this schedule")
        return 1 if bad else 0
    if c.get("kind") == "threads":
        import qmi.core.context, qmi.core.rpc, qmi.core.pubsub, qmi.core.messaging, qmi.core.task  # noqa
        res = dsched.run_forked([(scenario_threads, (c["seed"], c["remote"], bool(c.get("lines"))),
                                  dict(strategy="replay", schedule=list(c["schedule"] or [])))], nproc=1, wall_timeout=60.0)[0]
        print("status:", res["status"])
        if res["status"] != "ok":
            print(res.get("info") or res.get("trace"))
            return 1
        print("log:", res["obs"]["log"])
        print("queues:", res["obs"]["queues"])
        bad = thread_oracle(res["obs"], c["remote"])
        print("oracle:", bad or "property holds on this schedule")
        return 1 if bad else 0
    if "name" in c:
        import qmi.core.util as U
        print("is_valid_object_name(%r) = %r" % (c["name"], U.is_valid_object_name(c["name"])))
        return 1 if "." in c["name"] and U.is_valid_object_name(c["name"]) else 0
    return replay_h2(rep, ("c07",))
