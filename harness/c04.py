"""C04 — object lock: one owner at a time, and only the owner gets through.

Three drives of the REAL code, all compared with the Coq model theories/C04/Model.v and with an
independent python re-statement of the property (the oracles below):

 A. direct (H1): _RpcThread._handle_lock_rpc_request / _handle_method_rpc_request called on an
    un-started _RpcThread with a stub context; exhaustive over lock state {free, A, B} x the four
    lock actions + method request x request token {None, A, B}, for several shapes of (A, B).
 B. proxy histories (H1): real QMI_RpcProxy objects (lock / unlock / force_unlock / is_locked / method
    stubs, blocking and non-blocking) whose context is a synchronous loop-back stub delivering
    requests straight to the handlers of A and replies straight to the real QMI_RpcFuture; tokens come
    from the real QMI_Context.make_unique_token of real (un-started) QMI_Context instances, some of
    which share a name; plus raw hand-made requests in between.
 C. real contexts: a started server QMI_Context and 0-3 started client QMI_Context instances (some
    sharing a name) connected over loop-back TCP in this process, proxies obtained with
    make_rpc_object / get_rpc_object_by_name, every history under a watchdog.
"""
import itertools
import logging
import os
import re
import sys
import threading
import time
from common import poke  # noqa: E402

from common import cN, cnat, cbool, clist, copt

THEORY = "C04"
ACTIONS = ["ACQUIRE", "RELEASE", "FORCE_RELEASE", "QUERY"]
COQ_ACTION = {"ACQUIRE": "Acquire", "RELEASE": "Release", "FORCE_RELEASE": "ForceRelease", "QUERY": "Query"}

# ----------------------------------------------------------------------------------------------
# canonical numbering of names / token strings (only equality matters; see Model.v)
# ----------------------------------------------------------------------------------------------
_IDS = {}


def _id(kind, s):
    d = _IDS.setdefault(kind, {})
    if s not in d:
        d[s] = len(d) + 1
    return d[s]


def ctok(t):
    """('ctx','tok') or None -> Coq option token"""
    if t is None:
        return "None"
    return "(Some (%s, TCustom %s))" % (cN(_id("name", t[0])), cN(_id("str", t[1])))


def ctok1(t):
    return "(%s, TCustom %s)" % (cN(_id("name", t[0])), cN(_id("str", t[1])))


def creply(r):
    if r[0] == "none":
        return "RNone"
    if r[0] == "denied":
        return "RDenied"
    if r[0] == "locked":
        return "RLocked"
    if r[0] == "tok":
        return "(RTok %s)" % ctok1(r[1])
    return "(RTok (0%N, TCustom 0%N))"      # 'weird': matches no model reply (ids start at 1)


def cout(x):
    if x[0] == "bool":
        return "OutBool %s" % cbool(x[1])
    if x[0] == "unit":
        return "OutUnit"
    if x[0] == "exec":
        return "OutExec %s" % cbool(x[1])
    if x[0] == "reply":
        return "OutReply %s" % creply(x[1])
    return "OutReply (RTok (0%N, TCustom 0%N))"   # 'weird'


# ----------------------------------------------------------------------------------------------
# A. direct drive of the worker's handlers
# ----------------------------------------------------------------------------------------------
def _imports():
    from qmi.core import rpc
    from qmi.core.messaging import QMI_MessageHandlerAddress as Addr
    return rpc, Addr


_OBJ_CLASS = None


def obj_class():
    global _OBJ_CLASS
    if _OBJ_CLASS is None:
        rpc, _ = _imports()

        class LockProbe(rpc.QMI_RpcObject):
            """Test object: bump(x) records x — the side effect that shows a method body ran."""

            def __init__(self, ctx, name):
                super().__init__(ctx, name)
                self.log = []

            @rpc.rpc_method
            def bump(self, x):
                self.log.append(x)
                return x
        _OBJ_CLASS = LockProbe
    return _OBJ_CLASS


class StubCtx:
    def __init__(self, name):
        self.name = name
        self.sent = []

    def send_message(self, m):
        self.sent.append(m)


class Worker:
    """An un-started _RpcThread with its object; requests are handled by direct calls."""

    def __init__(self, srvname="srv"):
        rpc, Addr = _imports()
        self.rpc, self.Addr = rpc, Addr
        self.srvname = srvname
        self.ctx = StubCtx(srvname)
        self.th = rpc._RpcThread(self.ctx, lambda: None)
        self.obj = obj_class()(self.ctx, "obj")
        poke(self.th, '_rpc_object', self.obj)
        self.dead = None

    def T(self, t):
        return None if t is None else self.rpc.QMI_LockTokenDescriptor(t[0], t[1])

    def owner(self):
        t = self.th._locking_token
        return None if t is None else (t[0], t[1])

    def canon_reply(self, req, rep):
        rpc = self.rpc
        if not (type(rep) is rpc.QMI_LockRpcReplyMessage and rep.request_id == req.request_id
                and rep.source_address == req.destination_address
                and rep.destination_address == req.source_address):
            return ("weird", repr(rep))
        t = rep.lock_token
        if t is None:
            return ("none",)
        if not (isinstance(t, tuple) and len(t) == 2):
            return ("weird", repr(t))
        if tuple(t) == (self.srvname, rpc.ACCESS_DENIED_TOKEN_PLACEHOLDER):
            return ("denied",)
        if tuple(t) == (self.srvname, rpc.OBJECT_LOCKED_TOKEN_PLACEHOLDER):
            return ("locked",)
        return ("tok", (t[0], t[1]))

    def lock_request(self, action, tok, src=("cl", "$f")):
        rpc = self.rpc
        req = rpc.QMI_LockRpcRequestMessage(self.Addr(*src), self.Addr(self.srvname, "obj"), self.T(tok),
                                            rpc.QMI_LockRpcAction[action])
        return req

    def handle_lock(self, req):
        """-> ('ok', reply message) or ('exc', class name)"""
        try:
            return ("ok", self.th._handle_lock_rpc_request(req))
        except BaseException as e:   # the worker loop has no handler: the thread would die here
            self.dead = type(e).__name__
            return ("exc", type(e).__name__)

    def method_request(self, tok, x, src=("cl", "$f")):
        return self.rpc.QMI_MethodRpcRequestMessage(self.Addr(*src), self.Addr(self.srvname, "obj"), "bump", (x,), {},
                                                    self.T(tok))

    def handle_method(self, req):
        try:
            return ("ok", self.th._handle_method_rpc_request(req))
        except BaseException as e:
            self.dead = type(e).__name__
            return ("exc", type(e).__name__)

    def canon_method_reply(self, req, rep, x):
        rpc = self.rpc
        if not (type(rep) is rpc.QMI_MethodRpcReplyMessage and rep.request_id == req.request_id
                and rep.source_address == req.destination_address
                and rep.destination_address == req.source_address):
            return ("weird", repr(rep))
        if rep.state == rpc.QMI_RpcFutureState.RESULT_IS_VALUE and rep.result == x:
            return ("exec", True)
        if rep.state == rpc.QMI_RpcFutureState.OBJECT_IS_LOCKED and rep.result is None:
            return ("exec", False)
        return ("weird", "%r %r" % (rep.state, rep.result))


def step_direct(state, action, tok):
    """One lock request in lock state `state`. -> ('ok', after, reply) | ('exc', name, after)"""
    w = Worker()
    poke(w.th, '_locking_token', w.T(state))
    req = w.lock_request(action, tok)
    r = w.handle_lock(req)
    if r[0] == "exc":
        return ("exc", r[1], w.owner())
    return ("ok", w.owner(), w.canon_reply(req, r[1]))


def gate_direct(state, tok, x=7):
    w = Worker()
    poke(w.th, '_locking_token', w.T(state))
    req = w.method_request(tok, x)
    r = w.handle_method(req)
    if r[0] == "exc":
        return ("exc", r[1], w.owner(), list(w.obj.log))
    return ("ok", w.owner(), w.canon_method_reply(req, r[1], x), list(w.obj.log))


def oracle_step(state, action, tok, res):
    """C04 for one lock request, on the implementation's observation. None or (key, text)."""
    where = "%s in state %s with %s" % (action, "free" if state is None else "locked",
                                        "no token" if tok is None else
                                        ("the owner's token" if tok == state else "a token"))
    if res[0] == "exc":
        return ("total:%s:%s%s" % (action, "free" if state is None else "locked",
                                   ":notoken" if (tok is None and action == "ACQUIRE") else ""),
                "lock request gets no reply: %s raises %s in the worker (thread dies, caller waits forever, "
                "object disabled)" % (where, res[1]))
    _, after, rep = res
    if rep[0] == "weird":
        return ("reply:malformed:%s" % action, "malformed reply to %s: %r" % (where, rep))
    if action == "ACQUIRE":
        if tok is None:
            exp = (state, ("denied",))
        elif state is None or state == tok:
            exp = (tok, ("tok", tok))
        else:
            exp = (state, ("denied",))
    elif action == "RELEASE":
        exp = (None, ("none",)) if (state is None or state == tok) else (state, ("denied",))
    elif action == "FORCE_RELEASE":
        exp = (None, ("none",))
    else:
        exp = (state, ("none",) if state is None else ("locked",))
    if after != exp[0]:
        return ("mutex:%s:owner" % action,
                "%s: owner afterwards is %r, the property demands %r" % (where, after, exp[0]))
    if rep != exp[1]:
        return ("reply:%s" % action, "%s: reply %r, the property demands %r" % (where, rep, exp[1]))
    return None


def oracle_gate(state, tok, res):
    if res[0] == "exc":
        return ("gate:exception", "method request raised %s out of the handler" % res[1])
    _, after, rep, log = res
    should_run = state is None or state == tok
    if rep[0] == "weird":
        return ("gate:malformed", "malformed method reply %r" % (rep,))
    if after != state:
        return ("gate:owner-changed", "a method request changed the lock owner %r -> %r" % (state, after))
    ran = len(log) == 1
    if ran != should_run or rep != ("exec", should_run):
        return ("gate:%s" % ("ran-without-lock" if ran else "owner-refused"),
                "method request with token %r on an object owned by %r: body ran=%r, reply %r; the property demands ran=%r"
                % (tok, state, ran, rep, should_run))
    return None


def coq_step(state, action, tok, res):
    obs = "None" if res[0] == "exc" else "(Some (%s, %s))" % (ctok(res[1]), creply(res[2]))
    return "CStep %s %s %s %s" % (ctok(state), COQ_ACTION[action], ctok(tok), obs)


def coq_gate(state, tok, res):
    if res[0] == "exc":
        return "CGate %s %s %s (Some (0%%N, TCustom 0%%N))" % (ctok(state), ctok(tok), cbool(False))
    ran = (res[2] == ("exec", True)) and len(res[3]) == 1
    if res[2][0] == "weird" or (res[2] == ("exec", True)) != (len(res[3]) == 1):
        return "CGate %s %s %s (Some (0%%N, TCustom 0%%N))" % (ctok(state), ctok(tok), cbool(ran))
    return "CGate %s %s %s %s" % (ctok(state), ctok(tok), cbool(ran), ctok(res[1]))


# ----------------------------------------------------------------------------------------------
# A'. the real request loop _RpcThread.run with reply-delivery failure as an input
# ----------------------------------------------------------------------------------------------
class LossyCtx:
    """Stub context of the worker: records every reply handed to send_message and raises
    QMI_MessageDeliveryException for the chosen ones (the requester's context is gone)."""

    def __init__(self, name, fail, nreq, on_last):
        self.name, self.fail, self.nreq, self.on_last = name, fail, nreq, on_last
        self.sent = []

    def send_message(self, m):
        from qmi.core.exceptions import QMI_MessageDeliveryException
        i = len(self.sent)
        self.sent.append(m)
        if i == self.nreq - 1:
            self.on_last()                 # all requests answered: ask the loop to end (public shutdown())
        if i in self.fail:
            raise QMI_MessageDeliveryException("peer context gone (harness)")


def run_worker(reqs, srvname="srv"):
    """reqs: list of ("lock", action, token, deliverable) / ("call", token, x, deliverable).
    All requests are queued with push_rpc_request, then the REAL _RpcThread.run() is executed (synchronously, in
    this thread) until the last reply was handed to the context.  -> dict(replies, owner, log, died)"""
    rpc, Addr = _imports()
    box = {}
    n = len(reqs)
    ctx = LossyCtx(srvname, {i for i, r in enumerate(reqs) if not r[3]}, n, lambda: box["th"].shutdown())

    def maker():
        box["obj"] = obj_class()(ctx, "obj")
        return box["obj"]
    th = rpc._RpcThread(ctx, maker)
    box["th"] = th
    msgs = []
    for k, r in enumerate(reqs):
        src = Addr("gone" if not r[3] else "cl", "$f%d" % k)
        T = (lambda t: None if t is None else rpc.QMI_LockTokenDescriptor(t[0], t[1]))
        if r[0] == "lock":
            m = rpc.QMI_LockRpcRequestMessage(src, Addr(srvname, "obj"), T(r[2]), rpc.QMI_LockRpcAction[r[1]])
        else:
            m = rpc.QMI_MethodRpcRequestMessage(src, Addr(srvname, "obj"), "bump", (r[2],), {}, T(r[1]))
        msgs.append(m)
        th.push_rpc_request(m)
    died = None
    if n:
        try:
            th.run()
        except BaseException as e:
            died = type(e).__name__
    w = Worker.__new__(Worker)          # only for the canonicalisation helpers
    w.rpc, w.srvname = rpc, srvname
    replies = []
    for m, rep, r in zip(msgs, ctx.sent, reqs):
        if r[0] == "lock":
            replies.append(("lock", w.canon_reply(m, rep)))
        else:
            replies.append(w.canon_method_reply(m, rep, r[2]))
    t = th._locking_token
    return {"replies": replies, "owner": None if t is None else (t[0], t[1]),
            "log": list(box["obj"].log) if "obj" in box else [], "died": died, "answered": len(ctx.sent)}


def oracle_worker(reqs, res):
    """The property on one pass through the worker loop: owner changes only by acquire-when-free,
    release-by-owner, force-release; delivery outcomes play no role.  None or (key, text)."""
    owner, log = None, []
    last_loss = None
    for k, r in enumerate(reqs):
        if k >= len(res["replies"]):
            return ("worker:no-reply-produced", "request %d %r never reached send_message (worker died: %s)"
                    % (k, r, res["died"]))
        got = res["replies"][k]
        before = owner
        if r[0] == "lock":
            act, tok = r[1], r[2]
            if act == "ACQUIRE":
                if tok is None:
                    exp = ("denied",)
                elif owner is None or owner == tok:
                    owner, exp = tok, ("tok", tok)
                else:
                    exp = ("denied",)
            elif act == "RELEASE":
                if owner is None or owner == tok:
                    owner, exp = None, ("none",)
                else:
                    exp = ("denied",)
            elif act == "FORCE_RELEASE":
                owner, exp = None, ("none",)
            else:
                exp = ("none",) if owner is None else ("locked",)
            ok = got == ("lock", exp)
        else:
            should = owner is None or owner == r[1]
            if should:
                log.append(r[2])
            ok = got == ("exec", should)
        if not ok:
            if last_loss is not None:
                j, lr, lstate, lrel = last_loss
                return ("reply-loss:%s:%s:%s" % (lr[1] if lr[0] == "lock" else "method", lstate, lrel),
                        "the reply to request %d %r (object %s, request token = %s) could not be delivered; afterwards "
                        "request %d %r got %r where the property demands the outcome for owner %r — an undeliverable "
                        "reply must not change the lock" % (j, lr[:3], lstate, lrel, k, r[:3], got, before))
            return ("worker:%s" % (r[1] if r[0] == "lock" else "method"),
                    "request %d %r with owner %r got %r" % (k, r[:3], before, got))
        if not r[3]:
            tok = r[2] if r[0] == "lock" else r[1]
            last_loss = (k, r, "free" if before is None else "locked",
                         "none" if tok is None else ("token" if before is None else "owner" if tok == before else "other"))
    if res["died"]:
        return ("worker:died", "the worker loop ended with %s" % res["died"])
    if res["owner"] != owner or res["log"] != log:
        if last_loss is not None:
            j, lr, lstate, lrel = last_loss
            return ("reply-loss:%s:%s:%s" % (lr[1] if lr[0] == "lock" else "method", lstate, lrel),
                    "after the undeliverable reply to request %d %r the owner is %r (log %r); the property demands "
                    "%r (log %r)" % (j, lr[:3], res["owner"], res["log"], owner, log))
        return ("worker:final-state", "final owner %r / log %r, expected %r / %r" % (res["owner"], res["log"], owner, log))
    return None


def attribute_loss(reqs, why):
    """a reply-loss finding names the most recent undeliverable reply; find the one that really matters: the
    first undeliverable reply that alone (all others delivered) still makes the history fail"""
    if not why or not why[0].startswith("reply-loss:"):
        return reqs, why
    alld = [q[:3] + (True,) for q in reqs]
    w = oracle_worker(alld, run_worker(alld))
    if w:                       # fails with every reply delivered as well: not a matter of reply loss
        return alld, w
    for j, r in enumerate(reqs):
        if r[3]:
            continue
        alone = [q if (i == j or q[3]) else q[:3] + (True,) for i, q in enumerate(reqs)]
        w = oracle_worker(alone, run_worker(alone))
        if w and w[0].startswith("reply-loss:"):
            return alone, w
    return reqs, why


def coq_work(reqs, res):
    items = []
    for r in reqs:
        if r[0] == "lock":
            items.append("(RqLock %s %s, %s)" % (COQ_ACTION[r[1]], ctok(r[2]), cbool(r[3])))
        else:
            items.append("(RqCall %s %s, %s)" % (ctok(r[1]), cN(r[2]), cbool(r[3])))
    obs = []
    for g in res["replies"]:
        if g[0] == "lock":
            obs.append("WLock %s" % creply(g[1]))
        elif g[0] == "exec":
            obs.append("WExec %s" % cbool(g[1]))
        else:
            obs.append("WLock (RTok (0%N, TCustom 0%N))")
    return "CWork %s %s %s %s" % (clist(items), clist(obs), ctok(res["owner"]),
                                  "[" + ";".join(str(x) for x in res["log"]) + "]%N")


def worker_table(pairs):
    """every request kind x lock state {free, A (first grant earlier), A re-granted idempotently} x request token
    {none, owner, other} x deliverable / undeliverable, followed by probes (QUERY, calls with A, B, no token)"""
    for A, B in pairs:
        for setup in ([], [("lock", "ACQUIRE", A, True)], [("lock", "ACQUIRE", B, True)],
                      [("lock", "ACQUIRE", A, True), ("lock", "ACQUIRE", A, True)]):
            for tok in (None, A, B):
                for deliverable in (True, False):
                    tests = [("lock", a, tok, deliverable) for a in ACTIONS] + [("call", tok, 5, deliverable)]
                    for t in tests:
                        probes = [("lock", "QUERY", None, True), ("call", A, 1, True), ("call", B, 2, True),
                                  ("call", None, 3, True), ("lock", "ACQUIRE", B, True), ("lock", "QUERY", None, True)]
                        yield setup + [t] + probes


def token_pairs(ck):
    rng = ck.rng
    pairs = [(("c1", "x"), ("c1", "y")),          # same context, different strings
             (("c1", "x"), ("c2", "x")),          # different contexts, SAME string
             (("srv", "x"), ("c1", "x")),         # owning context vs client, same string
             (("cl", "$lock_1"), ("cl", "$lock_2")),
             (("cl", ""), ("cl", " ")),
             (("c1", "__OBJECT_LOCKED__"), ("c2", "__ACCESS_DENIED__"))]  # placeholder strings, foreign contexts
    n = 6 if ck.tier == "quick" else 200
    alphabet = "abXY_$09"
    for _ in range(n):
        def rs():
            return "".join(rng.choice(alphabet) for _ in range(rng.randint(0, 6)))
        a = (rng.choice(["c1", "c2", "srv"]), rs())
        b = (rng.choice(["c1", "c2", "srv"]), rs())
        if a != b:
            pairs.append((a, b))
    return pairs


# ----------------------------------------------------------------------------------------------
# B. proxy histories over a synchronous loop-back context
# ----------------------------------------------------------------------------------------------
class WorkerDied(Exception):
    pass


class LoopCtx:
    """Context stand-in for proxies/futures: real token/address source, synchronous delivery."""

    def __init__(self, real, hub, inst):
        self.real, self.hub, self.inst = real, hub, inst
        self.name = real.name
        self.handlers = {}

    def make_unique_token(self, prefix="$lock_"):
        t = self.real.make_unique_token(prefix=prefix)
        self.hub.generated.append((self.inst, (t[0], t[1])))
        return t

    def make_unique_address(self, prefix):
        return self.real.make_unique_address(prefix)

    def register_message_handler(self, h):
        self.handlers[h.address.object_id] = h

    def unregister_message_handler(self, h):
        self.handlers.pop(h.address.object_id, None)

    def send_message(self, msg):
        self.hub.deliver(self, msg)


_CTX_POOL = []


def new_real_context(name):
    """A real, un-started QMI_Context of which only the token / address source is used.  Its internal
    '$context' RPC object (a worker thread per instance, ~3 ms to start and stop) is not created: the
    constructor's call of _internal_make_rpc_object is stubbed for the duration of the constructor."""
    from qmi.core.context import QMI_Context
    orig = QMI_Context._internal_make_rpc_object
    QMI_Context._internal_make_rpc_object = lambda self, *a, **k: None
    try:
        return QMI_Context(name)
    finally:
        QMI_Context._internal_make_rpc_object = orig


class Hub:
    def __init__(self, inst_names):
        rpc, _ = _imports()
        self.rpc = rpc
        self.w = Worker("srv")
        self.generated = []            # (instance index, token) per make_unique_token call, in order
        self.ctxs = [LoopCtx(new_real_context(n), self, i) for i, n in enumerate(inst_names)]
        self.last_lock_req = None

    def deliver(self, src, msg):
        rpc = self.rpc
        if self.w.dead:
            raise WorkerDied(self.w.dead)
        if isinstance(msg, rpc.QMI_LockRpcRequestMessage):
            self.last_lock_req = msg
            r = self.w.handle_lock(msg)
        else:
            r = self.w.handle_method(msg)
        if r[0] == "exc":
            raise WorkerDied(r[1])
        h = src.handlers.get(msg.source_address.object_id)
        if h is not None:
            h.handle_message(r[1])


# ----------------------------------------------------------------------------------------------
# B'. same-named contexts constructed under an IDENTICAL ambient state
# ----------------------------------------------------------------------------------------------
AMBIENT_SOURCES = {
    "random": "global PRNG: random.seed(k) (or random.setstate(<one saved state>)) immediately before every "
              "constructor call, numpy.random.seed too when numpy is loaded; the previous state is restored afterwards",
    "time": "time.time/time_ns/monotonic/monotonic_ns/perf_counter/perf_counter_ns/process_time/process_time_ns/"
            "thread_time/thread_time_ns return constants during the constructor; datetime.datetime (module attribute, "
            "and the name in qmi.core.context if imported there) is a subclass with constant now()/utcnow()/today()",
    "pid": "os.getpid() / os.getppid() return constants during the constructor",
    "thread": "every constructor runs in a fresh thread with the same name (CPython re-uses the thread ident; whether "
              "it did is recorded); threading.get_native_id() returns a constant during the constructor",
    "id": "builtins.id() and builtins.hash() return constants for QMI_Context instances during the constructor; in "
          "addition sequential lifetimes: the previous instance is dropped and collected before the next constructor "
          "runs, so that the allocator may hand out the same address (whether it did is recorded)",
    "order": "identical construction sequence for every instance (same harness calls in the same order between the "
             "equalisation and the constructor); PYTHONHASHSEED=0 (set by ./check) makes hash() of equal strings equal",
}
NOT_EQUALISED = ("os.urandom / getrandom(), secrets, random.SystemRandom, uuid.uuid4: the operating system's entropy "
                 "source is the legitimate origin of the nonce and is never patched")


class _Ambient:
    """Context manager: equalise the chosen ambient sources for the duration of one constructor call."""

    def __init__(self, sources, k, full):
        self.sources, self.k, self.full = sources, k, full
        self.undo = []

    def _patch(self, mod, name, value):
        if hasattr(mod, name):
            old = getattr(mod, name)
            setattr(mod, name, value)
            self.undo.append((mod, name, old))

    def __enter__(self):
        import random as _random
        import time as _time
        import datetime as _datetime
        import threading as _threading
        src = self.sources
        if "random" in src:
            st = _random.getstate()
            self.undo.append(("random-state", st, None))
            if self.k == "setstate":
                _random.setstate(_SAVED_RANDOM_STATE)
            else:
                _random.seed(self.k)
            np = sys.modules.get("numpy")
            if np is not None:
                try:
                    nst = np.random.get_state()
                    self.undo.append(("numpy-state", nst, np))
                    np.random.seed(0 if self.k == "setstate" else int(self.k) % (2 ** 32))
                except Exception:
                    pass
        if "time" in src:
            for nm, v in (("time", 1700000000.25), ("time_ns", 1700000000250000000), ("monotonic", 12345.5),
                          ("monotonic_ns", 12345500000000), ("perf_counter", 777.125), ("perf_counter_ns", 777125000000),
                          ("process_time", 1.5), ("process_time_ns", 1500000000), ("thread_time", 0.5),
                          ("thread_time_ns", 500000000)):
                self._patch(_time, nm, (lambda v=v: v))
            real_dt = _datetime.datetime

            class FixedDatetime(real_dt):
                @classmethod
                def now(cls, tz=None):
                    return real_dt.fromtimestamp(1700000000.25, tz)

                @classmethod
                def utcnow(cls):
                    return real_dt(2023, 11, 14, 22, 13, 20, 250000)

                @classmethod
                def today(cls):
                    return real_dt.fromtimestamp(1700000000.25)
            self._patch(_datetime, "datetime", FixedDatetime)
            ctxmod = sys.modules.get("qmi.core.context")
            if ctxmod is not None and getattr(ctxmod, "datetime", None) is real_dt:
                self._patch(ctxmod, "datetime", FixedDatetime)
        if "pid" in src:
            self._patch(os, "getpid", lambda: 4242)
            self._patch(os, "getppid", lambda: 4241)
        if "thread" in src and not self.full:
            self._patch(_threading, "get_native_id", lambda: 424242)
        if "id" in src:
            import builtins
            from qmi.core.context import QMI_Context
            real_id, real_hash = builtins.id, builtins.hash
            self._patch(builtins, "id", lambda o: 0x7F0000001000 if isinstance(o, QMI_Context) else real_id(o))
            self._patch(builtins, "hash", lambda o: 0x7F0000001 if isinstance(o, QMI_Context) else real_hash(o))
        return self

    def __exit__(self, *exc):
        import random as _random
        for item in reversed(self.undo):
            if item[0] == "random-state":
                _random.setstate(item[1])
            elif item[0] == "numpy-state":
                item[2].random.set_state(item[1])
            else:
                setattr(item[0], item[1], item[2])
        self.undo = []
        return False


import random as _random_mod   # noqa: E402
_SAVED_RANDOM_STATE = _random_mod.Random(987654321).getstate()


def construct_equalised(name, sources, k, full=False, keep=False):
    """One real QMI_Context(name) constructed with the chosen ambient sources equalised.
    full=True: the complete constructor (with its internal '$context' worker, stopped again at once);
    otherwise the constructor without that worker (see new_real_context).  -> (context, info)"""
    from qmi.core.context import QMI_Context
    box = {}

    def make():
        try:
            with _Ambient(sources, k, full):
                box["ctx"] = QMI_Context(name) if full else new_real_context(name)
            box["ident"] = threading.get_ident()
        except BaseException as e:      # reported by the caller as a broken tie
            box["exc"] = e
    if "thread" in sources:
        t = threading.Thread(target=make, name="ctx-maker")
        t.start()
        t.join(30)
    else:
        make()
    if "exc" in box:
        raise box["exc"]
    c = box["ctx"]
    if full and not keep:
        try:
            m = c._rpc_object_map.get("$context")
            if m is not None:
                m.stop()
        except Exception:
            pass
    return c, {"ident": box.get("ident"), "id": id(c)}


def run_equalised(n, sources, k, full=False, name="client"):
    """n same-named contexts, each constructed under the SAME ambient state, each then locks the one object
    through its own proxy, calls a method, and draws two more tokens.  Same observation format as run_hist;
    proxy i-1 lives in instance i (instance 0 is the object's own context and has no proxy here)."""
    import gc
    rpc, _ = _imports()
    from qmi.core.exceptions import QMI_RuntimeException
    hub = Hub([])
    w = hub.w
    insts = ["srv"] + [name] * n
    proxies = list(range(1, n + 1))
    px, obs, ops, infos = [], [], [], []
    seq = "id" in sources

    def observe(out):
        req = hub.last_lock_req
        sent = None if (req is None or req.lock_token is None) else (req.lock_token[0], req.lock_token[1])
        obs.append({"out": out, "sent": sent, "sent_action": None if req is None else req.lock_action.name,
                    "owner": w.owner(),
                    "ptoks": [None if p._lock_token is None else tuple(p._lock_token) for p in px] + [None] * (n - len(px)),
                    "nbtoks": [None if p.rpc_nonblocking._lock_token is None else tuple(p.rpc_nonblocking._lock_token)
                               for p in px] + [None] * (n - len(px)),
                    "ran": len(w.obj.log) - observe.log_before, "gen": []})
    if seq:      # warm-up: the slot a dropped context leaves behind is what the allocator hands out next
        warm = construct_equalised(name, sources, k, full)[0]
        del warm
        gc.collect()
    for i in range(1, n + 1):
        real, info = construct_equalised(name, sources, k, full)
        tries = 0
        while seq and infos and info["id"] != infos[-1]["id"] and tries < 8:
            # the allocator did not hand out the previous instance's address: drop this one unused and try again
            tries += 1
            del real
            gc.collect()
            real, info = construct_equalised(name, sources, k, full)
        infos.append(info)
        ctx = LoopCtx(real, hub, i)
        p = rpc.QMI_RpcProxy(ctx, w.obj.rpc_object_descriptor)
        px.append(p)
        # lock
        hub.last_lock_req = None
        observe.log_before = len(w.obj.log)
        r = p.lock()
        ops.append(("lock", i - 1, None))
        observe(("bool", r) if isinstance(r, bool) else ("weird", repr(r)))
        # method call
        hub.last_lock_req = None
        observe.log_before = len(w.obj.log)
        try:
            r = p.bump(100 + i)
            out = ("exec", True) if r == 100 + i else ("weird", repr(r))
        except QMI_RuntimeException as e:
            out = ("exec", False) if "locked" in str(e) else ("weird", repr(e))
        ops.append(("call", i - 1, 100 + i))
        observe(out)
        # two more tokens of this instance (counter values 2 and 3), for the all-pairs comparison
        ctx.make_unique_token()
        ctx.make_unique_token()
        if seq:
            ctx.real = None
            del real
            gc.collect()
    res = {"obs": obs, "died": None, "log": list(w.obj.log), "generated": list(hub.generated), "owner": w.owner(),
           "crashes": [], "rejected": []}
    achieved = {"thread_idents_equal": len({x["ident"] for x in infos}) == 1 if "thread" in sources else None,
                "ids_equal": len({x["id"] for x in infos}) < len(infos) if seq else None}
    return insts, proxies, ops, res, achieved


def equalised_variants(tier):
    seeds = [0, 1, 20240611, 2 ** 32 - 1, "setstate"]
    out = []
    for n in (2, 3):
        for k in seeds:
            out.append((n, ("random",), k, False))
            out.append((n, ("random", "time", "pid"), k, False))
            out.append((n, ("random", "time", "pid", "thread", "id"), k, False))
        for src in (("time",), ("pid",), ("thread",), ("id",), ("time", "pid", "thread"), ()):
            out.append((n, src, 0, False))
        out.append((n, ("random", "time", "pid"), 20240611, True))      # the complete constructor
        out.append((n, ("random",), 7, True))
    if tier != "quick":
        for k in range(2, 40):
            out.append((2, ("random", "time", "pid", "thread"), k, False))
    out.sort(key=lambda v: (len(v[1]), v[3], v[0]))      # smaller source sets first (stable)
    return out


def oracle_equalised(insts, proxies, ops, res):
    """mutual exclusion for the same-named contexts + pairwise distinct automatic tokens (all counter values)"""
    for w in oracle_hist(insts, proxies, ops, res):
        yield w
    for w in oracle_tokens(insts, res["generated"]):
        yield w
    first = res["obs"][0]
    owner1 = first["owner"]
    for j in range(1, len(proxies)):
        lk, cl = res["obs"][2 * j], res["obs"][2 * j + 1]
        if lk["out"] != ("bool", False) or cl["out"] != ("exec", False) or cl["ran"] != 0 or lk["owner"] != owner1:
            yield ("mutex:same-named-contexts-both-hold-the-lock",
                   "context #%d named %r: lock() -> %r with token %r while context #1 owns the object with %r; its "
                   "method call -> %r (body ran %d time(s))" % (j + 1, insts[1], lk["out"][1], lk["sent"], owner1,
                                                                 cl["out"], cl["ran"]))
            return


def run_hist(insts, proxies, ops):
    """insts: context names (index 0 is the owning context 'srv'); proxies: instance index per proxy;
    ops: list of tuples.  Returns dict with per-op observations (truncated at a worker death)."""
    rpc, _ = _imports()
    from qmi.core.exceptions import QMI_RuntimeException
    hub = Hub(insts)
    w = hub.w
    px = [rpc.QMI_RpcProxy(hub.ctxs[i], w.obj.rpc_object_descriptor) for i in proxies]
    obs = []         # per op: dict(out=..., tok=token used or None, owner=owner after, ptoks=[...])
    died = None
    crashes, rejected = [], []
    for k, o in enumerate(ops):
        kind = o[0]
        ngen = len(hub.generated)
        owner_before = w.owner()
        ptoks_before = [p._lock_token for p in px]
        hub.last_lock_req = None
        log_before = len(w.obj.log)
        try:
            if kind == "lock":
                r = px[o[1]].lock(lock_token=o[2]) if o[2] is not None else px[o[1]].lock()
                out = ("bool", r) if isinstance(r, bool) else ("weird", repr(r))
            elif kind == "unlock":
                r = px[o[1]].unlock(lock_token=o[2]) if o[2] is not None else px[o[1]].unlock()
                out = ("bool", r) if isinstance(r, bool) else ("weird", repr(r))
            elif kind == "force":
                r = px[o[1]].force_unlock()
                out = ("unit",) if r is None else ("weird", repr(r))
            elif kind == "islocked":
                r = px[o[1]].is_locked()
                out = ("bool", r) if isinstance(r, bool) else ("weird", repr(r))
            elif kind in ("call", "callnb"):
                try:
                    r = px[o[1]].bump(o[2]) if kind == "call" else px[o[1]].rpc_nonblocking.bump(o[2]).wait()
                    out = ("exec", True) if r == o[2] else ("weird", repr(r))
                except QMI_RuntimeException as e:
                    out = ("exec", False) if "locked" in str(e) else ("weird", repr(e))
            elif kind == "rawlock":
                req = w.lock_request(o[1], o[2], src=("raw", "$x"))
                hub.last_lock_req = req
                r = w.handle_lock(req)
                if r[0] == "exc":
                    raise WorkerDied(r[1])
                out = ("reply", w.canon_reply(req, r[1]))
            elif kind == "rawcall":
                req = w.method_request(o[1], o[2], src=("raw", "$x"))
                r = w.handle_method(req)
                if r[0] == "exc":
                    raise WorkerDied(r[1])
                out = w.canon_method_reply(req, r[1], o[2])
            else:
                raise ValueError(kind)
        except WorkerDied as e:
            # The handler raised before touching any state (checked: owner and proxies unchanged below);
            # record the crash, revive the stand-in worker and go on, so that the rest of the history
            # is still compared.  The crashing operation is dropped from the history given to the model.
            crashes.append((k, str(e), owner_before, o))
            if w.owner() != owner_before or ptoks_before != [p._lock_token for p in px]:
                died = (k, str(e) + " (and the lock state changed)")
                break
            w.dead = None
            obs.append(None)
            continue
        except ValueError as e:
            if kind == "lock" and hub.last_lock_req is None and len(hub.generated) == ngen:
                obs.append(None)      # refused client-side before any request was sent (reserved token)
                rejected.append(k)
                continue
            raise
        req = hub.last_lock_req
        sent = None
        if req is not None and req.lock_token is not None:
            sent = (req.lock_token[0], req.lock_token[1])
        obs.append({"out": out, "sent": sent,
                    "sent_action": None if req is None else req.lock_action.name,
                    "owner": w.owner(),
                    "ptoks": [None if p._lock_token is None else tuple(p._lock_token) for p in px],
                    "nbtoks": [None if p.rpc_nonblocking._lock_token is None else tuple(p.rpc_nonblocking._lock_token)
                               for p in px],
                    "ran": len(w.obj.log) - log_before,
                    "gen": [g for g in hub.generated[ngen:]]})
    return {"obs": obs, "died": died, "log": list(w.obj.log), "generated": list(hub.generated),
            "owner": w.owner(), "crashes": crashes, "rejected": rejected}


def oracle_hist(insts, proxies, ops, res, level="stub"):
    """The property, re-stated on what was observed.  Yields (key, text)."""
    owner = None
    ptoks = [None] * len(proxies)
    log_expected = 0
    for k, (o, ob) in enumerate(zip(ops, res["obs"])):
        kind, out = o[0], ob["out"]
        if out[0] == "weird":
            yield ("hist:weird-result:%s" % kind, "op %d %r returned %r" % (k, o, out))
            return
        if ob["nbtoks"] != ob["ptoks"]:
            yield ("proxy:nonblocking-token-differs", "after op %d %r the proxy's blocking and non-blocking "
                   "halves remember different tokens %r / %r" % (k, o, ob["ptoks"], ob["nbtoks"]))
            return
        after = ob["owner"]
        if kind == "lock":
            p = o[1]
            t = ob["sent"]
            if t is None or ob["sent_action"] != "ACQUIRE":
                yield ("proxy:lock-request", "lock() sent %r with token %r" % (ob["sent_action"], t))
                return
            if o[2] is not None and t != (insts[proxies[p]], o[2]):
                yield ("proxy:lock-custom-token", "lock(lock_token=%r) sent token %r" % (o[2], t))
                return
            grant = owner is None or owner == t
            if owner is not None and owner != t and after != owner:
                yield ("mutex:lock-stolen", "op %d: lock with %r while owned by %r changed the owner to %r"
                       % (k, t, owner, after))
                return
            exp_owner = t if grant else owner
            if after != exp_owner:
                yield ("mutex:acquire-owner", "op %d: lock with %r in state %r left owner %r" % (k, t, owner, after))
                return
            if out != ("bool", grant):
                rpc = _imports()[0]
                placeholder = (o[2] in (rpc.ACCESS_DENIED_TOKEN_PLACEHOLDER, rpc.OBJECT_LOCKED_TOKEN_PLACEHOLDER)
                               and t[0] == insts[0])
                yield ("proxy:lock-result" + (":placeholder-token" if placeholder else ""),
                       "op %d: lock() returned %r but the object's owner is %r and the "
                       "request token %r" % (k, out[1], after, t))
                return
            exp_p = t if grant else ptoks[p]
            if ob["ptoks"][p] != exp_p:
                yield ("proxy:lock-memory", "op %d: after lock() -> %r the proxy remembers %r (expected %r)"
                       % (k, out[1], ob["ptoks"][p], exp_p))
                return
            ptoks[p] = exp_p
            owner = exp_owner
        elif kind == "unlock":
            p = o[1]
            t = (insts[proxies[p]], o[2]) if o[2] is not None else ptoks[p]
            if ob["sent_action"] != "RELEASE" or ob["sent"] != t:
                yield ("proxy:unlock-request", "op %d: unlock sent %r with %r, expected RELEASE with %r"
                       % (k, ob["sent_action"], ob["sent"], t))
                return
            ok = owner is None or owner == t
            exp_owner = None if ok else owner
            if after != exp_owner:
                yield ("mutex:release-owner", "op %d: unlock with %r while owned by %r left owner %r (only the "
                       "owner's token may release)" % (k, t, owner, after))
                return
            if out != ("bool", ok):
                yield ("proxy:unlock-result", "op %d: unlock() returned %r; owner before %r, token %r" % (k, out[1], owner, t))
                return
            if ok:
                ptoks[p] = None
            if ob["ptoks"][p] != ptoks[p]:
                yield ("proxy:unlock-memory", "op %d: after unlock() -> %r the proxy remembers %r" % (k, out[1], ob["ptoks"][p]))
                return
            owner = exp_owner
        elif kind == "force":
            p = o[1]
            if after is not None:
                yield ("mutex:force-owner", "op %d: force_unlock left owner %r" % (k, after))
                return
            if out != ("unit",) or ob["ptoks"][p] is not None:
                yield ("proxy:force-memory", "op %d: after force_unlock the proxy remembers %r" % (k, ob["ptoks"][p]))
                return
            ptoks[p] = None
            owner = None
        elif kind == "islocked":
            if after != owner:
                yield ("query:owner-changed", "op %d: is_locked changed the owner %r -> %r" % (k, owner, after))
                return
            if out != ("bool", owner is not None):
                yield ("query:untruthful", "op %d: is_locked() = %r while the owner is %r" % (k, out[1], owner))
                return
        elif kind in ("call", "callnb", "rawcall"):
            t = ptoks[o[1]] if kind != "rawcall" else o[1]
            should = owner is None or owner == t
            if after != owner:
                yield ("gate:owner-changed", "op %d: a method call changed the owner" % k)
                return
            if ob["ran"] != (1 if should else 0) or out != ("exec", should):
                yield ("gate:%s" % ("ran-without-lock" if ob["ran"] else "owner-refused"),
                       "op %d: %s with token %r on an object owned by %r: body ran %d time(s), result %r"
                       % (k, kind, t, owner, ob["ran"], out))
                return
            log_expected += 1 if should else 0
        elif kind == "rawlock":
            why = oracle_step(owner, o[1], o[2], ("ok", after, out[1]))
            if why:
                yield why
                return
            owner = after
        if kind not in ("call", "callnb", "rawcall") and ob["ran"] != 0:
            yield ("gate:lock-request-ran-method", "op %d %r executed a method body" % (k, o))
            return
        if ob["ptoks"] != ptoks:
            yield ("proxy:foreign-memory-changed", "op %d %r changed the remembered tokens to %r (expected %r)"
                   % (k, o, ob["ptoks"], ptoks))
            return
    if res["died"]:
        k, exc = res["died"]
        yield crash_finding(ops[k], owner, exc, k)


def crash_finding(o, owner, exc, k=-1):
    act = {"lock": "ACQUIRE", "unlock": "RELEASE", "force": "FORCE_RELEASE", "islocked": "QUERY"}.get(o[0])
    if o[0] == "rawlock":
        act = o[1]
    notok = o[0] == "rawlock" and o[2] is None and o[1] == "ACQUIRE"
    return ("total:%s:%s%s" % (act or o[0], "free" if owner is None else "locked", ":notoken" if notok else ""),
            "%r (owner %r): %s in the worker — no reply, the caller waits forever and the object "
            "is disabled for every later request" % (o, owner, exc))


def oracle_tokens(insts, generated):
    """automatically generated tokens of different make_unique_token calls must all differ"""
    seen = {}
    for idx, (inst, tok) in enumerate(generated):
        if tok in seen:
            j, inst0 = seen[tok]
            if inst0 == inst:
                rel = "same-instance"
            elif insts[inst0] == insts[inst]:
                rel = "same-name-instances"
            else:
                rel = "different-names"
            yield ("tokens:auto-collision:" + rel,
                   "make_unique_token call #%d (context instance %d, name %r) and call #%d (instance %d, name %r) "
                   "returned the same token %r" % (j, inst0, insts[inst0], idx, inst, insts[inst], tok))
            return
        seen[tok] = (idx, inst)


def coq_hist(insts, proxies, ops, res):
    """layer 1: operations with the tokens actually used"""
    terms = []
    for o, ob in zip(ops, res["obs"]):
        k = o[0]
        if k == "lock":
            terms.append("OLock %s %s" % (cnat(o[1]), ctok1(ob["sent"]) if ob["sent"] else "(0%N, TCustom 0%N)"))
        elif k == "unlock":
            terms.append("OUnlock %s %s" % (cnat(o[1]), ctok((insts[proxies[o[1]]], o[2]) if o[2] is not None else None)))
        elif k == "force":
            terms.append("OForce %s" % cnat(o[1]))
        elif k == "islocked":
            terms.append("OIsLocked %s" % cnat(o[1]))
        elif k in ("call", "callnb"):
            terms.append("OCall %s %s" % (cnat(o[1]), cN(o[2])))
        elif k == "rawlock":
            terms.append("ORawLock %s %s" % (COQ_ACTION[o[1]], ctok(o[2])))
        elif k == "rawcall":
            terms.append("ORawCall %s %s" % (ctok(o[1]), cN(o[2])))
    outs = [cout(ob["out"]) for ob in res["obs"]]
    n = len(res["obs"])
    final_owner = res["obs"][-1]["owner"] if n else None
    final_ptoks = res["obs"][-1]["ptoks"] if n else [None] * len(proxies)
    return "CHist %s %s %s %s %s" % (clist(terms), clist(outs), ctok(final_owner),
                                     "[" + ";".join(str(x) for x in res["log"]) + "]%N",
                                     clist([ctok(t) for t in final_ptoks]))


def coq_prog(insts, proxies, ops, res):
    """layer 2: client program with automatic tokens; None if the history has raw requests"""
    if any(o[0] in ("rawlock", "rawcall") for o in ops[:len(res["obs"])]):
        return None
    # instance = (iid, nonce, name); the model is given DISTINCT nonces for distinct instances — the hypothesis
    # [nonces_ok] of the distinctness theorems — and must then reproduce what the real contexts did
    cfg = clist(["mkCtx %s %s %s" % (cN(proxies[p] + 1), cN(proxies[p] + 1), cN(_id("name", insts[proxies[p]])))
                 for p in range(len(proxies))])
    terms = []
    for o in ops[:len(res["obs"])]:
        k = o[0]
        if k == "lock":
            terms.append("PLock %s %s" % (cnat(o[1]), copt(o[2], lambda s: cN(_id("str", s)))))
        elif k == "unlock":
            terms.append("PUnlock %s %s" % (cnat(o[1]), copt(o[2], lambda s: cN(_id("str", s)))))
        elif k == "force":
            terms.append("PForce %s" % cnat(o[1]))
        elif k == "islocked":
            terms.append("PIsLocked %s" % cnat(o[1]))
        else:
            terms.append("PCall %s %s" % (cnat(o[1]), cN(o[2])))
    outs = [cout(ob["out"]) for ob in res["obs"]]
    return "CProg %s %s %s" % (cfg, clist(terms), clist(outs))


def coq_tok(insts, generated):
    ids = {}
    obs = []
    for _, t in generated:
        obs.append(ids.setdefault(t, len(ids) + 1))
    calls = clist(["mkCtx %s %s %s" % (cN(i + 1), cN(i + 1), cN(_id("name", insts[i]))) for i, _ in generated])
    return "CTok %s %s" % (calls, "[" + ";".join(str(x) for x in obs) + "]%N")


CUSTOMS = ["k1", "k2"]


def gen_config(rng, max_clients=3):
    nclients = rng.choice([0, 1, 2, 2, 3][:max_clients + 2])
    names = ["srv"]
    for _ in range(nclients):
        names.append(rng.choice(["cl", "cl", "cl2", "srv2"]))
    nprox = rng.randint(1, 4)
    proxies = [0 if (len(names) == 1 or rng.random() < 0.35) else rng.randrange(1, len(names)) for _ in range(nprox)]
    if len(names) > 2 and rng.random() < 0.5:
        # make sure two same-named client instances both have a proxy
        same = [i for i in range(1, len(names)) if names.count(names[i]) > 1]
        if len(same) >= 2:
            proxies = (proxies + [same[0], same[1]])[-4:] if len(proxies) >= 3 else proxies + [same[0], same[1]]
    return names, proxies


def gen_ops(rng, names, proxies, n, raw=True):
    ops = []
    ctr = 0
    toks = [(nm, c) for nm in set(names) for c in CUSTOMS]
    for _ in range(n):
        p = rng.randrange(len(proxies))
        k = rng.choices(["lock", "lockc", "unlock", "unlockc", "force", "islocked", "call", "callnb", "rawlock", "rawcall"],
                        weights=[5, 2, 4, 1.5, 1.2, 2, 5, 1.5, 1.0 if raw else 0, 0.7 if raw else 0])[0]
        ctr += 1
        if k == "lock":
            ops.append(("lock", p, None))
        elif k == "lockc":
            ops.append(("lock", p, rng.choice(CUSTOMS)))
        elif k == "unlock":
            ops.append(("unlock", p, None))
        elif k == "unlockc":
            ops.append(("unlock", p, rng.choice(CUSTOMS)))
        elif k == "force":
            ops.append(("force", p))
        elif k == "islocked":
            ops.append(("islocked", p))
        elif k in ("call", "callnb"):
            ops.append((k, p, ctr))
        elif k == "rawlock":
            ops.append(("rawlock", rng.choice(ACTIONS), rng.choice(toks + [None])))
        else:
            ops.append(("rawcall", rng.choice(toks + [None]), ctr))
    return ops


RESERVED_TOKEN_SCENARIO = True


def eval_hist(insts, proxies, ops, kind="hist", **kw):
    """Run a history on the real code and judge it.  Operations that crashed the worker (stub drive),
    were skipped (TCP drive) or were refused client-side are dropped from the history that is judged by
    the oracle and given to the model; each crash is a finding of its own."""
    if kind == "hist":
        raw = run_hist(insts, proxies, ops)
    else:
        raw = run_tcp(insts, proxies, ops, **kw)
    ops2, res2 = drop_skipped(ops, raw)
    if kind != "hist":
        fill_sent_tcp(insts, proxies, ops2, res2)
    whys = list(oracle_hist(insts, proxies, ops2, res2)) + list(oracle_holders(insts, proxies, ops2, res2, raw["generated"]))
    crashes = [crash_finding(o, ow, exc, k) for (k, exc, ow, o) in raw.get("crashes", [])]
    collide = list(oracle_tokens(insts, raw["generated"]))
    return {"ops": ops2, "res": res2, "raw": raw, "whys": whys, "crashes": crashes, "collide": collide}


def oracle_holders(insts, proxies, ops, res, generated):
    """at no time do two different proxies remember the same AUTOMATIC token (one generated by make_unique_token)"""
    auto = {t for _, t in generated}
    for k, ob in enumerate(res["obs"]):
        pt = ob["ptoks"]
        for p in range(len(pt)):
            for q in range(p + 1, len(pt)):
                if pt[p] is not None and pt[p] == pt[q] and pt[p] in auto:
                    rel = ("the same context instance" if proxies[p] == proxies[q] else
                           "two context instances with the same name" if insts[proxies[p]] == insts[proxies[q]] else
                           "differently named contexts")
                    yield ("mutex:two-proxies-hold-the-same-automatic-token",
                           "after op %d %r proxies %d and %d (in %s) both remember the automatic token %r; the object is "
                           "owned by %r" % (k, ops[k], p, q, rel, pt[p], ob["owner"]))
                    return


def report_hist(ck, kind, insts, proxies, ops, ev, equalise=None):
    rep = {"kind": kind, "insts": insts, "proxies": proxies, "ops": ops}
    if equalise is not None:
        rep["equalise"] = [list(equalise[0]), equalise[1]]
    for key, text in ev["whys"] + ev["crashes"] + ev["collide"]:
        nkey = re.sub(r"-?\d+", "N", key)
        r2 = rep
        if kind == "hist" and ck.known_open(nkey) is None and not any(v.key == nkey for v in ck.violations):
            sops = shrink_hist(insts, proxies, ops, key)
            if len(sops) < len(ops):
                ev2 = eval_hist(insts, proxies, sops, "hist")
                t2 = [t for k, t in ev2["whys"] + ev2["crashes"] + ev2["collide"] if k == key]
                if t2:
                    r2, text = dict(rep, ops=sops, unshrunk_ops=ops), t2[0]
        where = " (real contexts over TCP)" if kind == "tcp" else ""
        if equalise is not None:
            where = " (real contexts over TCP; the client contexts constructed with identical %s, random %r)" % (
                "+".join(equalise[0]), equalise[1])
            key = "%s:equalised[%s]" % (key, "+".join(equalise[0]))
        ck.report(key, "C04 fails on the implementation%s: %s" % (where, text),
                  dict(r2, impl_last=[ob["out"] for ob in ev["res"]["obs"][-3:]], died=ev["res"]["died"]))


def add_hist_terms(terms, metas, kind, insts, proxies, ev, with_pattern):
    ops2, res2, whys, collide = ev["ops"], ev["res"], ev["whys"], ev["collide"]
    rep = {"kind": kind, "insts": insts, "proxies": proxies, "ops": ops2}
    terms.append(coq_hist(insts, proxies, ops2, res2))
    metas.append((dict(rep, layer="tokens-as-used"), whys[0] if whys else None))
    cp = coq_prog(insts, proxies, ops2, res2)
    if cp is not None:
        terms.append(cp)
        metas.append((dict(rep, layer="automatic-tokens"), collide[0] if collide else (whys[0] if whys else None)))
    if with_pattern and ev["raw"]["generated"]:
        terms.append(coq_tok(insts, ev["raw"]["generated"]))
        metas.append((dict(rep, layer="token-pattern", generated=ev["raw"]["generated"]),
                      collide[0] if collide else None))


def shrink_hist(insts, proxies, ops, key):
    def bad(o):
        ev = eval_hist(insts, proxies, o, "hist")
        return any(k == key for k, _ in ev["whys"] + ev["crashes"] + ev["collide"])
    i = 0
    ops = list(ops)
    while i < len(ops):
        t = ops[:i] + ops[i + 1:]
        try:
            if bad(t):
                ops = t
                continue
        except Exception:
            pass
        i += 1
    return ops


# ----------------------------------------------------------------------------------------------
# C. real contexts over loop-back TCP
# ----------------------------------------------------------------------------------------------
def run_tcp(insts, proxies, ops, skip_cells=(), op_timeout=4.0, equalise=None):
    """Same observations as run_hist, with real started contexts; insts[0] is the server.
    A stuck operation is reported as died=(k, 'HANG')."""
    rpc, _ = _imports()
    from qmi.core.context import QMI_Context
    from qmi.core.config_defs import CfgQmi, CfgContext
    from qmi.core.exceptions import QMI_RuntimeException
    Probe = obj_class()
    cfg = CfgQmi(contexts={insts[0]: CfgContext(host="127.0.0.1", tcp_server_port=0)})
    srv = QMI_Context(insts[0], cfg)
    ctxs = [srv]
    generated = []
    res = {"obs": [], "died": None, "log": [], "generated": generated, "owner": None, "skipped": 0}
    started = []
    old_hook = threading.excepthook
    threading.excepthook = lambda args: None     # a dying worker / abandoned caller must not spam stderr
    try:
        srv.start()
        started.append(srv)
        port = srv.get_tcp_server_port()
        p0 = srv.make_rpc_object("obj", Probe)
        th = srv._rpc_object_map["obj"]._rpc_thread
        obj = th._rpc_object
        for nm in insts[1:]:
            if equalise is not None:     # (sources, k): client contexts constructed under an identical ambient state
                c = construct_equalised(nm, equalise[0], equalise[1], full=True, keep=True)[0]
            else:
                c = QMI_Context(nm)
            c.start()
            started.append(c)
            c.connect_to_peer(insts[0], "127.0.0.1:%d" % port)
            ctxs.append(c)
        for i, c in enumerate(ctxs):
            def wrap(c=c, i=i, orig=c.make_unique_token):
                def f(prefix="$lock_"):
                    t = orig(prefix=prefix)
                    generated.append((i, (t[0], t[1])))
                    return t
                return f
            c.make_unique_token = wrap()
        px = []
        for i in proxies:
            px.append(p0 if (i == 0 and not px.count(p0)) else ctxs[i].get_rpc_object_by_name("%s.obj" % insts[0]))

        def owner():
            t = th._locking_token
            return None if t is None else (t[0], t[1])

        state = {"k": 0, "done": False}

        def body():
            for k, o in enumerate(ops):
                state["k"] = k
                kind = o[0]
                act = {"lock": "ACQUIRE", "unlock": "RELEASE", "force": "FORCE_RELEASE", "islocked": "QUERY"}.get(kind)
                if act is not None and (act, owner() is None) in skip_cells:
                    # the direct drive (A) showed that this request shape gets no reply (worker dies): over real
                    # contexts the caller would wait forever; it is reported there, not re-tried here
                    res["skipped"] += 1
                    res["obs"].append(None)
                    continue
                ngen = len(generated)
                log_before = len(obj.log)
                if kind == "lock":
                    r = px[o[1]].lock(lock_token=o[2]) if o[2] is not None else px[o[1]].lock()
                    out = ("bool", r) if isinstance(r, bool) else ("weird", repr(r))
                elif kind == "unlock":
                    r = px[o[1]].unlock(lock_token=o[2]) if o[2] is not None else px[o[1]].unlock()
                    out = ("bool", r) if isinstance(r, bool) else ("weird", repr(r))
                elif kind == "force":
                    r = px[o[1]].force_unlock()
                    out = ("unit",) if r is None else ("weird", repr(r))
                elif kind == "islocked":
                    r = px[o[1]].is_locked()
                    out = ("bool", r) if isinstance(r, bool) else ("weird", repr(r))
                else:
                    try:
                        r = px[o[1]].bump(o[2]) if kind == "call" else px[o[1]].rpc_nonblocking.bump(o[2]).wait()
                        out = ("exec", True) if r == o[2] else ("weird", repr(r))
                    except QMI_RuntimeException as e:
                        out = ("exec", False) if "locked" in str(e) else ("weird", repr(e))
                p = px[o[1]]
                sent_action = {"lock": "ACQUIRE", "unlock": "RELEASE", "force": "FORCE_RELEASE",
                               "islocked": "QUERY"}.get(kind)
                res["obs"].append({"out": out, "sent": None, "sent_action": sent_action, "owner": owner(),
                                   "ptoks": [None if q._lock_token is None else tuple(q._lock_token) for q in px],
                                   "nbtoks": [None if q.rpc_nonblocking._lock_token is None
                                              else tuple(q.rpc_nonblocking._lock_token) for q in px],
                                   "ran": len(obj.log) - log_before, "gen": generated[ngen:]})
            state["done"] = True

        t = threading.Thread(target=body, daemon=True)
        t.start()
        t.join(op_timeout + 0.02 * len(ops))
        if not state["done"]:
            res["died"] = (state["k"], "HANG (no reply within %.1f s; worker alive=%r)" % (op_timeout, th.is_alive()))
            res["obs"] = res["obs"][:state["k"]]
        res["log"] = list(obj.log)
        res["owner"] = owner()
    finally:
        for c in reversed(started):
            try:
                c.stop()
            except Exception:
                pass
        time.sleep(0.05 if res["died"] else 0)
        threading.excepthook = old_hook
    return res


def fill_sent_tcp(insts, proxies, ops, res):
    """In the TCP drive the request is not intercepted; reconstruct the token each request carried from
    the documented proxy behaviour (custom -> (ctx name, string); automatic -> the value the wrapped
    make_unique_token returned during the call; otherwise the proxy's remembered token)."""
    ptoks = [None] * len(proxies)
    for o, ob in zip(ops, res["obs"]):
        if ob is None:
            continue
        k = o[0]
        if k == "lock":
            if o[2] is not None:
                ob["sent"] = (insts[proxies[o[1]]], o[2])
            else:
                ob["sent"] = ob["gen"][0][1] if ob["gen"] else None
        elif k == "unlock":
            ob["sent"] = (insts[proxies[o[1]]], o[2]) if o[2] is not None else ptoks[o[1]]
        elif k in ("force", "islocked"):
            ob["sent"] = ptoks[o[1]]
        ptoks = list(ob["ptoks"])


def drop_skipped(ops, res):
    """remove the operations that were skipped / crashed the worker / were refused client-side (obs None)"""
    keep = [i for i, ob in enumerate(res["obs"]) if ob is not None]
    ops2 = [ops[i] for i in keep] + list(ops[len(res["obs"]):])
    res = dict(res)
    res["obs"] = [res["obs"][i] for i in keep]
    if res["died"]:
        res["died"] = (len(res["obs"]), res["died"][1])
    return ops2, res


# ----------------------------------------------------------------------------------------------
# run
# ----------------------------------------------------------------------------------------------
def scenario_concurrent_tokens(s, nthreads, per_thread, same_name):
    """H3: several threads of one context (and of a second, same-named context) generate lock tokens
    concurrently; every source line of make_unique_token is a scheduling point."""
    import threading as real_threading
    import logging
    import dsched
    from qmi.core.context import QMI_Context
    logging.disable(logging.CRITICAL)
    dsched.enable_line_yields([QMI_Context.make_unique_token])
    ctxs = [QMI_Context("cl")] + ([QMI_Context("cl")] if same_name else [])
    toks = []

    def work(ctx):
        for _ in range(per_thread):
            t = ctx.make_unique_token()
            toks.append((t.context_id, t.token))
    ths = [real_threading.Thread(target=work, args=(ctxs[i % len(ctxs)],)) for i in range(nthreads)]
    for t in ths:
        t.start()
    for t in ths:
        t.join()
    return {"tokens": toks}


VANISH_INITS = ["free", "survivor-custom", "survivor-auto", "victim-custom", "victim-auto"]
VANISH_REQS = ["lock-custom", "lock-auto", "unlock", "unlock-custom", "force", "islocked", "call"]


def scenario_vanishing_client(s, spec):
    """H3 + fake network: real server context with one object, a surviving client and a victim client (same or
    different context name).  The object is busy with a slow method; the victim's request (spec['req']) is queued
    behind it; the victim's context stops / disconnects before the request is handled, so the reply cannot be
    delivered; then the survivors go on.  Returns plain observations."""
    import threading as real_threading
    import logging
    import dsched as _ds
    logging.disable(logging.CRITICAL)
    from qmi.core.context import QMI_Context
    from qmi.core.config_defs import CfgQmi, CfgContext
    from qmi.core.rpc import QMI_RpcObject, rpc_method

    class Gate(QMI_RpcObject):
        def __init__(self, ctx, name):
            super().__init__(ctx, name)
            self.log = []

        @rpc_method
        def hold(self, dur):
            _ds.FAKE_TIME.sleep(dur)
            return "held"

        @rpc_method
        def bump(self, x):
            self.log.append(x)
            return x
    cfg = CfgQmi(contexts={"srv": CfgContext(tcp_server_port=5001)})
    srv = QMI_Context("srv", cfg)
    srv.start()
    p0 = srv.make_rpc_object("obj", Gate)
    th = srv._rpc_object_map["obj"]._rpc_thread
    obj = th._rpc_object
    c1 = QMI_Context("cli", cfg)
    c1.start()
    c1.connect_to_peer("srv", "127.0.0.1:5001")
    c2 = QMI_Context(spec["victim_name"], cfg)
    c2.start()
    c2.connect_to_peer("srv", "127.0.0.1:5001")
    ps, pv = c1.get_rpc_object_by_name("srv.obj"), c2.get_rpc_object_by_name("srv.obj")
    gen = []
    orig = c2.make_unique_token

    def rec(prefix="$lock_"):
        t = orig(prefix=prefix)
        gen.append((t[0], t[1]))
        return t
    c2.make_unique_token = rec

    def owner():
        t = th._locking_token
        return None if t is None else (t[0], t[1])

    def tk(p):
        return None if p._lock_token is None else (p._lock_token[0], p._lock_token[1])
    out = {"spec": spec, "setup_ok": True}
    init = spec["init"]
    if init == "survivor-custom":
        out["setup_ok"] = ps.lock(lock_token="x")
    elif init == "survivor-auto":
        out["setup_ok"] = ps.lock()
    elif init == "victim-custom":
        out["setup_ok"] = pv.lock(lock_token="x")
    elif init == "victim-auto":
        out["setup_ok"] = pv.lock()
    out["owner_before"] = owner()
    out["survivor_token"], out["victim_token"] = tk(ps), tk(pv)
    holder = pv if init.startswith("victim") else ps
    fut = holder.rpc_nonblocking.hold(2.0)
    _ds.FAKE_TIME.sleep(0.5)
    req = spec["req"]
    pend = {}

    def pending():
        try:
            if req == "lock-custom":
                pend["r"] = pv.lock(lock_token="x")
            elif req == "lock-auto":
                pend["r"] = pv.lock()
            elif req == "unlock":
                pend["r"] = pv.unlock()
            elif req == "unlock-custom":
                pend["r"] = pv.unlock(lock_token="x")
            elif req == "force":
                pend["r"] = pv.force_unlock()
            elif req == "islocked":
                pend["r"] = pv.is_locked()
            else:
                pend["r"] = pv.bump(99)
        except BaseException as e:  # noqa  (the client goes away while waiting)
            pend["exc"] = type(e).__name__
    t = real_threading.Thread(target=pending)
    t.start()
    _ds.FAKE_TIME.sleep(0.5)
    out["queued"] = len(th._fifo)
    out["sent_auto"] = list(gen)
    if spec["vanish"] == "stop":
        c2.stop()
    else:
        c2.disconnect_from_peer("srv")
    _ds.FAKE_TIME.sleep(3.0)          # hold() ends, the queued request is handled, its reply has nowhere to go
    try:
        out["hold"] = fut.wait(5.0)
    except BaseException as e:  # noqa
        out["hold"] = "EXC " + type(e).__name__
    t.join()
    out["pending_result"] = repr(pend.get("r")) if "r" in pend else "EXC " + str(pend.get("exc"))
    out["worker_alive"] = th.is_alive()
    out["owner_after"] = owner()
    out["log_after"] = list(obj.log)
    surv = {}
    try:
        surv["survivor_is_locked"] = ps.is_locked()
        n0 = len(obj.log)
        try:
            p0.bump(7)
            surv["observer_call"] = True
        except BaseException as e:  # noqa
            surv["observer_call"] = False
        surv["observer_call_ran"] = len(obj.log) - n0
        surv["observer_lock"] = p0.lock()
        if surv["observer_lock"]:
            surv["observer_unlock"] = p0.unlock()
        n0 = len(obj.log)
        try:
            ps.bump(8)
            surv["survivor_call"] = True
        except BaseException as e:  # noqa
            surv["survivor_call"] = False
        surv["survivor_call_ran"] = len(obj.log) - n0
        surv["owner_end"] = owner()
    except BaseException as e:  # noqa
        surv["exc"] = repr(e)[:200]
    out["survivors"] = surv
    for c in (c2, c1, srv):
        try:
            c.stop()
        except BaseException:  # noqa
            pass
    return out


def oracle_vanish(ob):
    """the owner changes only by acquire-when-free, release-by-owner, force-release — whether or not the reply can
    be delivered; the survivors then see exactly that owner.  None or (key, text)."""
    spec = ob["spec"]
    before = None if ob["owner_before"] is None else tuple(ob["owner_before"])
    vt = None if ob["victim_token"] is None else tuple(ob["victim_token"])
    st = None if ob["survivor_token"] is None else tuple(ob["survivor_token"])
    req = spec["req"]
    if not ob["setup_ok"]:
        return ("vanish:setup", "setup lock was not granted: %r" % (ob,))
    custom = (spec["victim_name"], "x")
    if req == "lock-custom":
        act, tok = "ACQUIRE", custom
    elif req == "lock-auto":
        act, tok = "ACQUIRE", (tuple(ob["sent_auto"][-1]) if ob["sent_auto"] else None)
    elif req == "unlock":
        act, tok = "RELEASE", vt
    elif req == "unlock-custom":
        act, tok = "RELEASE", custom
    elif req == "force":
        act, tok = "FORCE_RELEASE", vt
    elif req == "islocked":
        act, tok = "QUERY", vt
    else:
        act, tok = "method", vt
    exp = before
    if act == "ACQUIRE" and before is None and tok is not None:
        exp = tok
    elif act == "RELEASE" and before is not None and before == tok:
        exp = None
    elif act == "FORCE_RELEASE":
        exp = None
    after = None if ob["owner_after"] is None else tuple(ob["owner_after"])
    rel = "none" if tok is None else ("token" if before is None else "owner" if tok == before else "other")
    where = "%s by a client (context %r) that %s while its request was queued; object %s before, request token = %s" % (
        act, spec["victim_name"], "stopped" if spec["vanish"] == "stop" else "disconnected",
        "free" if before is None else "locked by %r" % (before,), rel)
    handled = ob["queued"] >= 1
    allowed = {exp} if handled else {exp, before}
    if not ob["worker_alive"]:
        return ("vanish:worker-died", where + ": the object's worker thread is dead afterwards")
    if after not in allowed:
        return ("reply-loss:%s:%s:%s:real-contexts" % (act, "free" if before is None else "locked", rel),
                where + ": afterwards the owner is %r; the property demands %r (nobody sent unlock-with-the-owner's-"
                "token or force_unlock%s)" % (after, exp, "" if act not in ("RELEASE", "FORCE_RELEASE") else " other than this request"))
    sv = ob["survivors"]
    if "exc" in sv:
        return ("vanish:survivor-exception", where + ": a surviving proxy raised %s" % sv["exc"])
    if sv["survivor_is_locked"] != (after is not None):
        return ("query:untruthful:after-vanish", where + ": is_locked() = %r while the owner is %r" % (sv["survivor_is_locked"], after))
    if sv["observer_call"] != (after is None) or sv["observer_call_ran"] != (1 if after is None else 0):
        return ("gate:after-vanish:observer", where + ": a proxy without token called a method while the owner is %r: "
                "executed=%r (body ran %d time(s))" % (after, sv["observer_call"], sv["observer_call_ran"]))
    if sv["observer_lock"] != (after is None):
        return ("mutex:after-vanish:observer-lock", where + ": another proxy's lock() returned %r while the owner is %r"
                % (sv["observer_lock"], after))
    should = after is None or after == st
    if sv["survivor_call"] != should or sv["survivor_call_ran"] != (1 if should else 0):
        return ("gate:after-vanish:survivor", where + ": the surviving client's call (token %r) while the owner is %r: "
                "executed=%r" % (st, after, sv["survivor_call"]))
    return None


def vanish_specs(tier):
    out = []
    for names in ("cli", "cl2"):
        for vanish in ("stop", "disconnect"):
            for init in VANISH_INITS:
                for req in VANISH_REQS:
                    out.append({"victim_name": names, "vanish": vanish, "init": init, "req": req})
    return out


def run_vanishing(ck):
    import dsched
    import qmi.core.context  # noqa
    import qmi.core.rpc  # noqa
    import qmi.core.messaging  # noqa
    specs = vanish_specs(ck.tier)
    if ck.tier != "quick":
        specs = specs * 6            # the same 140 situations under more schedules
    jobs = [(scenario_vanishing_client, (sp,), dict(strategy="fifo" if i % 3 == 0 else "random", seed=ck.seed * 131 + i))
            for i, sp in enumerate(specs)]
    t0 = time.time()
    nq = 0
    seen_v = set()
    for i, res in enumerate(dsched.run_forked(jobs, nproc=16, wall_timeout=60)):
        sp = specs[i]
        ck.note_case(("vanish", tuple(sorted(sp.items())), tuple(res.get("choices") or ())), True)
        ck.count("vanish:" + res["status"])
        ck.count("vanish:req:" + sp["req"])
        ck.count("vanish:%s:%s" % ("same-name" if sp["victim_name"] == "cli" else "other-name", sp["vanish"]))
        rep = {"kind": "vanish", "spec": sp, "strategy": jobs[i][2]["strategy"], "sched_seed": jobs[i][2]["seed"],
               "schedule": res.get("choices")}
        if res["status"] != "ok":
            ck.report("vanish:scenario-%s:%s" % (res["status"], sp["req"]),
                      "scenario 'client vanishes with a queued %s request' did not finish (%s): %s"
                      % (sp["req"], res["status"], str(res.get("trace") or res.get("info"))[:300]), rep)
            continue
        ob = res["obs"]
        if ob["queued"] >= 1:
            nq += 1
        why = oracle_vanish(ob)
        if why:
            seen_v.add(why[0])
            if len(seen_v) <= 4:
                ck.report(why[0], "C04 fails on the implementation (real contexts, fake network): " + why[1],
                          dict(rep, impl={k: v for k, v in ob.items() if k != "spec"}))
            else:
                ck.count("vanish:further-distinct-failure-kinds-not-listed")
    ck.coverage["vanishing_client"] = {"scenarios": len(specs), "request_was_queued_when_the_client_vanished": nq,
                                      "seconds": round(time.time() - t0, 1)}


def scenario_lock_timeout(s, spec):
    """H3 + fake network, virtual time: the object is busy in a 2 s method; a client proxy calls lock(timeout=t)
    meanwhile (object free / locked by another client that unlocks at 0.5 s / locked for good); when everything is
    idle again, what lock() REPORTED is compared with the real state."""
    import threading as real_threading
    import logging
    import dsched as _ds
    logging.disable(logging.CRITICAL)
    from qmi.core.context import QMI_Context
    from qmi.core.config_defs import CfgQmi, CfgContext
    from qmi.core.rpc import QMI_RpcObject, rpc_method

    class Gate(QMI_RpcObject):
        def __init__(self, ctx, name):
            super().__init__(ctx, name)
            self.log = []

        @rpc_method
        def hold(self, dur):
            _ds.FAKE_TIME.sleep(dur)
            return "held"

        @rpc_method
        def bump(self, x):
            self.log.append(x)
            return x
    cfg = CfgQmi(contexts={"srv": CfgContext(tcp_server_port=5001)})
    srv = QMI_Context("srv", cfg)
    srv.start()
    p3 = srv.make_rpc_object("obj", Gate)          # third party: never locks
    th = srv._rpc_object_map["obj"]._rpc_thread
    obj = th._rpc_object
    c1 = QMI_Context("cli", cfg)
    c1.start()
    c1.connect_to_peer("srv", "127.0.0.1:5001")
    c2 = QMI_Context("oth", cfg)
    c2.start()
    c2.connect_to_peer("srv", "127.0.0.1:5001")
    pr, po = c1.get_rpc_object_by_name("srv.obj"), c2.get_rpc_object_by_name("srv.obj")
    gen = []
    orig = c1.make_unique_token

    def rec(prefix="$lock_"):
        t = orig(prefix=prefix)
        gen.append((t[0], t[1]))
        return t
    c1.make_unique_token = rec

    def owner():
        t = th._locking_token
        return None if t is None else (t[0], t[1])

    def tk(p):
        return None if p._lock_token is None else (p._lock_token[0], p._lock_token[1])
    out = {"spec": spec, "setup_ok": True}
    state = spec["state"]
    if state != "free":
        out["setup_ok"] = po.lock()
    holder = p3 if state == "free" else po
    fut = holder.rpc_nonblocking.hold(2.0)
    _ds.FAKE_TIME.sleep(0.1)
    rep = {}

    def requester():
        try:
            rep["r"] = pr.lock(timeout=spec["t"], lock_token="x") if spec["custom"] else pr.lock(timeout=spec["t"])
        except BaseException as e:  # noqa
            rep["exc"] = type(e).__name__
    tr = real_threading.Thread(target=requester)
    tr.start()
    if state == "other-unlocks":
        _ds.FAKE_TIME.sleep(0.4)
        un = {}
        tu = real_threading.Thread(target=lambda: un.setdefault("r", po.unlock()))
        tu.start()
    _ds.FAKE_TIME.sleep(8.0)             # everything idle: hold done, every queued request handled
    tr.join()
    if state == "other-unlocks":
        tu.join()
        out["other_unlock"] = un.get("r")
    try:
        out["hold"] = fut.wait(5.0)
    except BaseException as e:  # noqa
        out["hold"] = "EXC " + type(e).__name__
    out["reported"] = rep.get("r") if "r" in rep else "EXC " + str(rep.get("exc"))
    out["sent_tokens"] = [("cli", "x")] if spec["custom"] else list(gen)
    out["requester_token"], out["other_token"] = tk(pr), tk(po)
    out["queue_len"] = len(th._fifo)
    out["owner"] = owner()
    ob = {}
    try:
        ob["is_locked"] = pr.is_locked()
        n0 = len(obj.log)
        try:
            p3.bump(7)
            ob["third_call"] = True
        except BaseException:  # noqa
            ob["third_call"] = False
        ob["third_ran"] = len(obj.log) - n0
        n0 = len(obj.log)
        try:
            pr.bump(8)
            ob["requester_call"] = True
        except BaseException:  # noqa
            ob["requester_call"] = False
        ob["requester_ran"] = len(obj.log) - n0
        ob["owner_end"] = owner()
    except BaseException as e:  # noqa
        ob["exc"] = repr(e)[:200]
    out["probe"] = ob
    for c in (c2, c1, srv):
        try:
            c.stop()
        except BaseException:  # noqa
            pass
    return out


def oracle_lock_timeout(ob):
    sp = ob["spec"]
    where = "lock(timeout=%s%s) while the object is busy for 2 s and %s" % (
        sp["t"], ", lock_token='x'" if sp["custom"] else "",
        {"free": "unlocked", "other-unlocks": "locked by another client that unlocks 0.5 s later",
         "other-keeps": "locked by another client for good"}[sp["state"]])
    if not ob["setup_ok"]:
        return ("lock-timeout:setup", where + ": setup lock not granted")
    owner = None if ob["owner"] is None else tuple(ob["owner"])
    rt = None if ob["requester_token"] is None else tuple(ob["requester_token"])
    ot = None if ob["other_token"] is None else tuple(ob["other_token"])
    sent = [tuple(t) for t in ob["sent_tokens"]]
    rep = ob["reported"]
    if rep not in (True, False):
        return ("lock-timeout:exception", where + ": lock() raised %r" % (rep,))
    if owner is not None and owner not in (rt, ot):
        return ("mutex:locked-by-a-token-no-proxy-holds",
                where + ": lock() reported %r; when everything is idle the object is locked by %r, a token no live proxy "
                "remembers (requester remembers %r, the other client %r) — every proxy is refused, only force_unlock "
                "helps" % (rep, owner, rt, ot))
    if rep is True and not (owner is not None and owner == rt):
        return ("proxy:lock-timeout-reported-true-not-owner", where + ": reported True, owner %r, requester remembers %r" % (owner, rt))
    if rep is False and (owner in sent or rt in sent):
        return ("proxy:lock-timeout-reported-false-but-owns", where + ": reported False (denied), yet afterwards the owner "
                "is %r and the requester remembers %r (tokens it asked with: %r)" % (owner, rt, sent))
    if ob["queue_len"] != 0:
        return ("lock-timeout:requests-left-in-queue", where + ": %d request(s) still queued at idle" % ob["queue_len"])
    pb = ob["probe"]
    if "exc" in pb:
        return ("lock-timeout:probe-exception", where + ": " + pb["exc"])
    if pb["is_locked"] != (owner is not None):
        return ("query:untruthful:after-lock-timeout", where + ": is_locked() = %r, owner %r" % (pb["is_locked"], owner))
    if pb["third_call"] != (owner is None) or pb["third_ran"] != (1 if owner is None else 0):
        return ("gate:after-lock-timeout:third", where + ": a third proxy's call executed=%r while the owner is %r" % (pb["third_call"], owner))
    should = owner is None or owner == rt
    if pb["requester_call"] != should or pb["requester_ran"] != (1 if should else 0):
        return ("gate:after-lock-timeout:requester", where + ": the requester's call executed=%r; owner %r, its token %r"
                % (pb["requester_call"], owner, rt))
    # what the pinned semantics must report: every ACQUIRE is answered before lock() looks at the clock again
    if sp["state"] in ("free", "other-unlocks") and rep is not True and sp["state"] == "free":
        return ("proxy:lock-timeout-free-object-denied", where + ": the object was unlocked all the time, lock() reported False")
    return None


def run_lock_timeout(ck):
    import dsched
    import qmi.core.context  # noqa
    import qmi.core.rpc  # noqa
    import qmi.core.messaging  # noqa
    specs = [{"t": t, "state": st, "custom": cu} for t in (0.05, 0.3, 1.0, 3.0)
             for st in ("free", "other-unlocks", "other-keeps") for cu in (False, True)]
    reps = 1 if ck.tier == "quick" else 8
    jobs = [(scenario_lock_timeout, (sp,), dict(strategy="fifo" if k == 0 else "random", seed=ck.seed * 977 + 31 * k + i))
            for k in range(reps) for i, sp in enumerate(specs)]
    t0 = time.time()
    for i, res in enumerate(dsched.run_forked(jobs, nproc=16, wall_timeout=60)):
        sp = jobs[i][1][0]
        ck.note_case(("lock-timeout", tuple(sorted(sp.items())), tuple(res.get("choices") or ())), True)
        ck.count("lock-timeout:" + res["status"])
        ck.count("lock-timeout:state:" + sp["state"])
        rep = {"kind": "lock-timeout", "spec": sp, "schedule": res.get("choices")}
        if res["status"] != "ok":
            ck.report("lock-timeout:scenario-%s" % res["status"], "scenario lock(timeout) on a busy object did not finish "
                      "(%s): %s" % (res["status"], str(res.get("trace") or res.get("info"))[:300]), rep)
            continue
        ob = res["obs"]
        ck.count("lock-timeout:reported:%r" % (ob["reported"],))
        why = oracle_lock_timeout(ob)
        if why:
            ck.report(why[0], "C04 fails on the implementation (real contexts, fake network, virtual time): " + why[1],
                      dict(rep, impl={k: v for k, v in ob.items() if k != "spec"}))
    ck.coverage["lock_timeout"] = {"scenarios": len(jobs), "seconds": round(time.time() - t0, 1)}


def run_concurrent_tokens(ck):
    import dsched
    import qmi.core.context  # noqa
    n = 120 if ck.tier == "quick" else 3000
    jobs = [(scenario_concurrent_tokens, (2 + i % 3, 2, bool(i % 2)), dict(strategy="random", seed=ck.seed * 4099 + i, switch_prob=0.5))
            for i in range(n)]
    for i, res in enumerate(dsched.run_forked(jobs, nproc=16, wall_timeout=30)):
        ck.note_case(("conc-tokens", i, tuple(res.get("choices") or ())), True)
        ck.count("conc-tokens:" + res["status"])
        if res["status"] != "ok":
            ck.report("oracle:conc-tokens:%s" % res["status"], "concurrent token generation did not finish: %s" % str(res.get("trace") or res.get("info"))[:300],
                      {"concurrent_tokens": True, "args": list(jobs[i][1]), "schedule": res.get("choices")})
            continue
        toks = [tuple(t) for t in res["obs"]["tokens"]]
        if len(set(toks)) != len(toks):
            dup = sorted(t for t in set(toks) if toks.count(t) > 1)[0]
            ck.report("tokens:auto-collision:concurrent", "two concurrently generated automatic lock tokens are equal: %r "
                      "(threads of %s context(s) named 'cl' calling make_unique_token at the same time)" % (dup, "two same-named" if jobs[i][1][2] else "one"),
                      {"concurrent_tokens": True, "args": list(jobs[i][1]), "schedule": res.get("choices"), "tokens": toks})


def run(ck):
    logging.disable(logging.CRITICAL)
    ck.theory_dir = THEORY
    ck.build_theory(THEORY)
    run_concurrent_tokens(ck)
    run_vanishing(ck)
    run_lock_timeout(ck)
    ck.trusted = [
        "Coq 8.16.1 kernel (vm_compute evaluates the model on the cases; no native_compute)",
        "hand-written model theories/C04/Model.v of _RpcThread._handle_lock_rpc_request/_handle_method_rpc_request, "
        "QMI_RpcProxy.lock/unlock/force_unlock/is_locked and QMI_Context.make_unique_token, tied to /repo by this run",
        "python harness c04.py: stub context for the un-started _RpcThread, synchronous loop-back context for proxies, "
        "canonicalisation of tokens to numbers (only == is used by the code) and of replies",
        "hypothesis nonces_ok of the distinctness theorems (two distinct same-named QMI_Context instances never carry "
        "the same nonce) is NOT proved: the nonce is an input drawn by the real constructor from the operating system's "
        "entropy (os.urandom, 64 bits); the tie checks it on the real constructor for pairs and triples of same-named "
        "contexts built under an identical ambient state (PRNG seed/state, clocks, pid, thread, id(), construction "
        "order) — OS entropy itself is never equalised, and a genuine 2^-64 coincidence or a broken OS source is out of reach",
        "the worker handles one request at a time (C03); pickling of tokens over TCP preserves == (C02/C06)",
        "reply delivery is an input: the real _RpcThread.run loop is executed synchronously with a stub context whose "
        "send_message raises QMI_MessageDeliveryException for chosen replies; real contexts whose client stops or "
        "disconnects with a queued request run under harness/dsched.py (deterministic scheduler, fake network, "
        "virtual time) — that emulation is trusted",
    ]
    ck.assumptions = [
        "custom tokens do not start with '$lock_' and are not the reply placeholders '__ACCESS_DENIED__' / "
        "'__OBJECT_LOCKED__' in the object's own context (a user typing those collides on purpose)",
        "lock(timeout>0) is exercised on a busy object under virtual time (24 situations); elsewhere lock() is used with "
        "timeout=0 (single attempt)",
        "reading of the property for undeliverable replies: 'released only by an unlock carrying the owner's token or by "
        "force-unlock' leaves no room for taking a lock back because the requester vanished — neither an idempotent "
        "re-grant nor a fresh grant; the pinned code keeps the lock in both cases and that is the only accepted outcome",
        "requests are handled sequentially (the blocking proxy API issues one at a time); concurrency of the "
        "worker queue is C03's subject",
    ]
    rng = ck.rng
    terms, metas = [], []

    # ---- A. exhaustive table --------------------------------------------------------------
    crash_cells = set()
    for A, B in token_pairs(ck):
        for state in (None, A, B):
            for tok in (None, A, B):
                for action in ACTIONS:
                    res = step_direct(state, action, tok)
                    ck.note_case(("step", state, action, tok), True)
                    ck.count("table:lock-request")
                    ck.count("table:%s" % action)
                    why = oracle_step(state, action, tok, res)
                    rep = {"kind": "step", "state": state, "action": action, "token": tok, "impl": res}
                    if why:
                        ck.report(why[0], "C04 fails on the implementation: " + why[1], rep)
                        if res[0] == "exc":
                            crash_cells.add((action, state is None))
                    terms.append(coq_step(state, action, tok, res))
                    metas.append((rep, why))
                res = gate_direct(state, tok)
                ck.note_case(("gate", state, tok), True)
                ck.count("table:method-request")
                why = oracle_gate(state, tok, res)
                rep = {"kind": "gate", "state": state, "token": tok, "impl": res}
                if why:
                    ck.report(why[0], "C04 fails on the implementation: " + why[1], rep)
                terms.append(coq_gate(state, tok, res))
                metas.append((rep, why))
    ck.sample(metas[5][0], 4)

    # ---- A'. the real worker loop with reply-delivery failure as an input ---------------------------
    t_w = time.time()
    wpairs = [(("cli", "x"), ("cli", "y")), (("cli", "$lock_1"), ("cl2", "$lock_1")), (("srv", "x"), ("cli", "x"))]
    wcases = list(worker_table(wpairs))
    toks = [("cli", "x"), ("cli", "y"), ("srv", "x"), None]
    for _ in range(300 if ck.tier == "quick" else 6000):
        seq = []
        for k in range(rng.randint(1, 25)):
            d = rng.random() < 0.65
            if rng.random() < 0.7:
                seq.append(("lock", rng.choice(ACTIONS), rng.choice(toks), d))
            else:
                seq.append(("call", rng.choice(toks), k, d))
        wcases.append(seq)
    seen_w = set()
    for reqs in wcases:
        res = run_worker(reqs)
        ck.note_case(("work", tuple(reqs)), True)
        ck.count("worker-loop:histories")
        ck.count("worker-loop:requests", len(reqs))
        ck.count("worker-loop:undeliverable-replies", sum(1 for r in reqs if not r[3]))
        why = oracle_worker(reqs, res)
        if why and res["died"] and not any(not r[3] for r in reqs[:res["answered"] + 1]):
            why = None if not crash_cells else why      # a crash of the handler itself is table A's finding
        rep = {"kind": "work", "reqs": reqs, "impl": res}
        term = coq_work(reqs, res)
        if why:
            reqs_a, why = attribute_loss(reqs, why)
            if reqs_a is not reqs:
                reqs = reqs_a
                rep = {"kind": "work", "reqs": reqs, "impl": run_worker(reqs)}
            if not any(v.key == re.sub(r"-?\d+", "N", why[0]) for v in ck.violations):
                sreqs = shrink_work(reqs, why[0])
                if len(sreqs) < len(reqs):
                    r2 = run_worker(sreqs)
                    w2 = oracle_worker(sreqs, r2)
                    if w2 and w2[0] == why[0]:
                        rep, why = {"kind": "work", "reqs": sreqs, "impl": r2, "unshrunk": reqs}, w2
            nkey = re.sub(r"-?\d+", "N", why[0])
            seen_w.add(nkey)
            if len(seen_w) <= 4 or nkey in [v.key for v in ck.violations]:
                ck.report(why[0], "C04 fails on the implementation (real _RpcThread.run loop): " + why[1], rep)
            else:
                ck.count("worker-loop:further-distinct-failure-kinds-not-listed")
        terms.append(term)
        metas.append((rep, why))
    ck.coverage["worker_loop_s"] = round(time.time() - t_w, 1)
    ck.sample({"kind": "work", "reqs": wcases[7]}, 5)

    # ---- token source alone: two QMI_Context instances with the same name -----------------------
    for names in (["cl", "cl"], ["cl", "cl", "cl2", "cl"], ["a", "b"], ["x"]):
        cs = [new_real_context(n) for n in names]
        gen = []
        order = [rng.randrange(len(cs)) for _ in range(12)] + list(range(len(cs)))
        for i in order:
            t = cs[i].make_unique_token()
            gen.append((i, (t[0], t[1])))
            if not (isinstance(t, tuple) and len(t) == 2 and t[0] == names[i] and isinstance(t[1], str)):
                ck.report("tokens:shape", "make_unique_token returned %r in context %r" % (t, names[i]),
                          {"kind": "tok", "names": names, "order": order})
        ck.note_case(("tok", tuple(names), tuple(order)), True)
        ck.count("tokens:source-sequences")
        why = next(oracle_tokens(names, gen), None)
        rep = {"kind": "tok", "names": names, "order": order, "impl": gen}
        if why:
            ck.report(why[0], "C04 fails on the implementation: " + why[1], rep)
        terms.append(coq_tok(names, gen))
        metas.append((rep, why))
    ck.sample(metas[-4][0], 4)

    # ---- B'. same-named contexts constructed under an identical ambient state -------------------------
    # The distinctness theorems assume [nonces_ok]: distinct same-named instances carry distinct nonces.  The
    # nonce is drawn by the real constructor; here every ambient source EXCEPT the operating system's entropy
    # is made identical for the instances compared, then each locks through its own proxy.
    t_e = time.time()
    achieved_all = {"thread_idents_equal": 0, "ids_equal": 0, "scenarios": 0}
    failed_sources = []
    for n, sources, k, full in equalised_variants(ck.tier):
        insts, proxies, ops, res, achieved = run_equalised(n, sources, k, full)
        label = "+".join(sources) if sources else "nothing"
        ck.note_case(("equalised", n, sources, str(k), full), True)
        ck.count("equalised:%d-contexts" % n)
        ck.count("equalised:sources:%s%s" % (label, ":full-constructor" if full else ""))
        achieved_all["scenarios"] += 1
        for a in ("thread_idents_equal", "ids_equal"):
            achieved_all[a] += 1 if achieved[a] else 0
        whys = list(oracle_equalised(insts, proxies, ops, res))
        rep = {"kind": "equalised", "n": n, "sources": list(sources), "k": k, "full": full, "achieved": achieved}
        if whys and any(set(f) <= set(sources) for f in failed_sources):
            ck.count("equalised:fails-like-a-smaller-source-set-already-reported")
            whys_report = []
        else:
            whys_report = whys
            if whys:
                failed_sources.append(sources)
        for key, text in whys_report:
            ck.report("%s:equalised[%s]" % (key, label),
                      "C04 fails on the implementation: %d contexts named %r, each constructed with identical %s%s: %s"
                      % (n, insts[1], label, "" if "random" not in sources else " (random %s)" %
                         ("setstate" if k == "setstate" else "seed %r" % (k,)), text),
                      dict(rep, generated=res["generated"], impl=[ob["out"] for ob in res["obs"]]))
        ev = {"ops": ops, "res": res, "raw": res, "whys": whys[:1], "crashes": [], "collide": [w for w in whys if w[0].startswith("tokens:")] or whys[:1]}
        add_hist_terms(terms, metas, "equalised", insts, proxies, ev, with_pattern=True)
    ck.coverage["equalised_ambient"] = {
        "equalised_sources": AMBIENT_SOURCES, "never_equalised": NOT_EQUALISED,
        "scenarios": achieved_all["scenarios"],
        "scenarios_where_thread_idents_were_equal": achieved_all["thread_idents_equal"],
        "scenarios_where_two_instances_had_the_same_id()": achieved_all["ids_equal"],
        "seconds": round(time.time() - t_e, 2)}

    # ---- B. proxy histories over the loop-back context -------------------------------------------
    nhist = 2000 if ck.tier == "quick" else 20000
    scripted = [
        (["srv", "cl", "cl"], [1, 2], [("lock", 0, None), ("lock", 1, None), ("call", 0, 1), ("call", 1, 2),
                                       ("islocked", 0), ("unlock", 1, None), ("call", 0, 3)]),
        (["srv"], [0, 0], [("lock", 0, None), ("lock", 0, None), ("call", 1, 1), ("unlock", 1, None),
                           ("force", 1), ("call", 1, 2), ("unlock", 0, None), ("islocked", 0)]),
        (["srv"], [0], [("force", 0), ("islocked", 0), ("call", 0, 1)]),
        (["srv", "cl"], [0, 1], [("lock", 0, "k1"), ("lock", 1, "k1"), ("unlock", 1, "k1"), ("unlock", 0, "k1"),
                                 ("rawlock", "ACQUIRE", None), ("rawlock", "QUERY", None), ("callnb", 1, 4)]),
    ]
    if RESERVED_TOKEN_SCENARIO:
        # a custom token equal to a reply placeholder, used from the object's own context
        scripted.append((["srv"], [0, 0], [("lock", 0, None), ("lock", 1, "__ACCESS_DENIED__"), ("call", 1, 1),
                                           ("islocked", 1), ("unlock", 0, None), ("lock", 1, "__OBJECT_LOCKED__"),
                                           ("islocked", 0), ("unlock", 1, None)]))
    hists = [(n, p, o, "scripted") for n, p, o in scripted]
    # exhaustive small scope: every history up to length L over two proxies in two SAME-NAMED client
    # instances (and, thorough tier, two proxies in the owning context)
    L = 3 if ck.tier == "quick" else 4
    alphabet = [("lock", 0, None), ("lock", 1, None), ("lock", 0, "k1"), ("lock", 1, "k1"), ("unlock", 0, None),
                ("unlock", 1, None), ("unlock", 1, "k1"), ("force", 1), ("islocked", 0), ("call", 0, 1), ("call", 1, 2)]
    for cfgx in ([(["srv", "cl", "cl"], [1, 2])] if ck.tier == "quick" else
                 [(["srv", "cl", "cl"], [1, 2]), (["srv"], [0, 0])]):
        for n in range(1, L + 1):
            for combo in itertools.product(alphabet, repeat=n):
                hists.append((cfgx[0], cfgx[1], list(combo), "exhaustive"))
    for _ in range(nhist):
        names, proxies = gen_config(rng)
        hists.append((names, proxies, gen_ops(rng, names, proxies, rng.randint(1, 40)), "random"))
    t_b = time.time()
    for names, proxies, ops, kind in hists:
        ev = eval_hist(names, proxies, ops, "hist")
        ops2, res2 = ev["ops"], ev["res"]
        nontrivial = any(o[0] == "lock" for o in ops2) and any(o[0] in ("call", "callnb", "rawcall") for o in ops2)
        ck.note_case(("hist", tuple(names), tuple(proxies), tuple(ops)), nontrivial)
        ck.count("hist:%s" % kind)
        ck.count("hist:len:%s" % ("1-5" if len(ops) <= 5 else "6-20" if len(ops) <= 20 else "21-40"))
        ck.count("hist:clients:%d" % (len(names) - 1))
        ck.count("hist:same-name-clients" if len(set(names[1:])) < len(names[1:]) else "hist:distinct-names")
        ck.count("hist:proxies:%d" % len(proxies))
        ck.count("hist:ops-dropped-because-the-worker-raised(known crash)", len(ev["raw"]["crashes"]))
        if res2["died"]:
            ck.count("hist:truncated")
        for o in ops2[:len(res2["obs"])]:
            ck.count("op:" + o[0] + (":custom" if o[0] in ("lock", "unlock") and o[2] is not None else ""))
        report_hist(ck, "hist", names, proxies, ops, ev)
        add_hist_terms(terms, metas, "hist", names, proxies, ev, with_pattern=True)
    ck.coverage["stub_histories_s"] = round(time.time() - t_b, 1)
    ck.sample({"insts": hists[-1][0], "proxies": hists[-1][1], "ops": hists[-1][2]}, 4)

    # ---- C. real contexts over loop-back TCP -----------------------------------------------------
    force_free_crashes = ("FORCE_RELEASE", True) in crash_cells
    ntcp = 150 if ck.tier == "quick" else 1500
    tcp = [(["srv", "cl", "cl"], [1, 2, 0], [("lock", 0, None), ("lock", 1, None), ("call", 0, 1), ("call", 1, 2),
                                              ("call", 2, 3), ("islocked", 2), ("unlock", 1, None), ("unlock", 0, None),
                                              ("lock", 2, None), ("call", 0, 4), ("force", 1), ("call", 0, 5)], "scripted")]
    if force_free_crashes:
        # confirm end to end, once, what the direct drive showed: the caller never returns
        tcp.append((["srv", "cl"], [1, 0], [("islocked", 0), ("force", 0), ("islocked", 1)], "confirm-hang"))
    # real same-named client contexts constructed (complete constructor) under an identical ambient state
    eq_ops2 = [("lock", 0, None), ("call", 0, 1), ("lock", 1, None), ("call", 1, 2), ("islocked", 1),
               ("unlock", 1, None), ("call", 0, 3), ("unlock", 0, None), ("lock", 1, None), ("lock", 0, None)]
    eq_ops3 = eq_ops2[:4] + [("lock", 2, None), ("call", 2, 5), ("unlock", 2, None), ("unlock", 0, None)]
    for k in (20240611, 0, "setstate"):
        tcp.append((["srv", "client", "client"], [1, 2], eq_ops2, "equalised", (("random", "time", "pid"), k)))
    tcp.append((["srv", "client", "client", "client"], [1, 2, 3], eq_ops3, "equalised", (("random", "time", "pid"), 1)))
    for _ in range(ntcp):
        names, proxies = gen_config(rng)
        tcp.append((names, proxies, gen_ops(rng, names, proxies, rng.randint(1, 25), raw=False), "random"))
    t_tcp = time.time()
    hangs = 0
    for item in tcp:
        names, proxies, ops, kind = item[:4]
        equalise = item[4] if len(item) > 4 else None
        if hangs >= 3:
            ck.count("tcp:not-run-after-3-hanging-histories")
            continue
        ev = eval_hist(names, proxies, ops, "tcp",
                       skip_cells=(() if kind == "confirm-hang" else frozenset(crash_cells)),
                       op_timeout=1.5 if kind == "confirm-hang" else (30.0 if hangs == 0 else 5.0), equalise=equalise)
        if ev["res"]["died"] and kind != "confirm-hang":
            hangs += 1
        ops2, res2 = ev["ops"], ev["res"]
        ck.count("tcp:skipped-request-shapes-that-crash-the-worker-in-the-direct-drive", ev["raw"].get("skipped", 0))
        ck.note_case(("tcp", tuple(names), tuple(proxies), tuple(ops2)), any(o[0] == "lock" for o in ops2))
        ck.count("tcp:%s" % kind)
        ck.count("tcp:same-name-clients" if len(set(names[1:])) < len(names[1:]) else "tcp:distinct-names")
        report_hist(ck, "tcp", names, proxies, ops, ev, equalise=equalise)
        add_hist_terms(terms, metas, "tcp", names, proxies, ev, with_pattern=False)
    ck.coverage["tcp_histories_s"] = round(time.time() - t_tcp, 1)
    ck.sample({"tcp": True, "insts": tcp[-1][0], "proxies": tcp[-1][1], "ops": tcp[-1][2]}, 4)

    # ---- model ------------------------------------------------------------------------------------
    bad = ck.run_model("C04.Corr", "check_case", terms, "case", shard=300)
    ck.coverage["correspondence_cases"] = len(terms)
    ck.coverage["correspondence_disagreements"] = len(bad)
    reported = 0
    for i in bad:
        rep, why = metas[i]
        if why is not None:
            # the oracle already reported this case under its own key (violation or known finding)
            ck.count("corr:disagreement-explained-by-oracle-finding")
            continue
        if reported >= 5:
            continue
        reported += 1
        mo = ck.model_eval("C04.Corr", "model_out (%s)" % terms[i])
        ck.report("corr:model-differs:%s" % rep.get("kind"),
                  "implementation and Coq model disagree (the property oracle passes on this case)",
                  dict(rep, coq_case=terms[i], model_output=mo, broken="correspondence C04.Corr.check_case"),
                  found_input=False)
    return ck.finish("exhaustive (lock state x action x token) table for several token pairs + seeded random histories "
                     "over 1-4 proxies in 1-4 context instances (stub loop-back and real TCP); non-trivial = history "
                     "has a lock and a method call (table cells all count); distinct by content hash")


def shrink_work(reqs, key):
    reqs = list(reqs)
    i = 0
    while i < len(reqs):
        t = reqs[:i] + reqs[i + 1:]
        try:
            w = oracle_worker(t, run_worker(t))
        except Exception:
            w = None
        if w and w[0] == key:
            reqs = t
        else:
            i += 1
    return reqs


def _tup(x):
    if isinstance(x, list):
        return tuple(_tup(y) for y in x)
    return x


def replay(rep):
    if rep["case"].get("kind") == "lock-timeout":
        import dsched
        import qmi.core.context  # noqa
        import qmi.core.rpc  # noqa
        import qmi.core.messaging  # noqa
        c = rep["case"]
        res = dsched.run_forked([(scenario_lock_timeout, (c["spec"],),
                                  dict(strategy="replay", schedule=list(c.get("schedule") or [])))], nproc=1, wall_timeout=60)[0]
        print("status:", res["status"])
        if res["status"] != "ok":
            print(str(res.get("trace") or res.get("info"))[:600])
            return 1
        for k, v in res["obs"].items():
            print("  %-16s %r" % (k, v))
        why = oracle_lock_timeout(res["obs"])
        print("oracle:", ("%s — %s" % why) if why else "property holds on this case")
        return 1 if why else 0
    if rep["case"].get("kind") == "vanish":
        import dsched
        import qmi.core.context  # noqa
        import qmi.core.rpc  # noqa
        import qmi.core.messaging  # noqa
        c = rep["case"]
        res = dsched.run_forked([(scenario_vanishing_client, (c["spec"],),
                                  dict(strategy="replay", schedule=list(c.get("schedule") or [])))], nproc=1, wall_timeout=60)[0]
        print("status:", res["status"])
        if res["status"] != "ok":
            print(str(res.get("trace") or res.get("info"))[:600])
            return 1
        ob = res["obs"]
        for k in ("spec", "owner_before", "survivor_token", "victim_token", "queued", "pending_result", "hold",
                  "owner_after", "survivors"):
            print("  %-16s %r" % (k, ob.get(k)))
        why = oracle_vanish(ob)
        print("oracle:", ("%s — %s" % why) if why else "property holds on this case")
        return 1 if why else 0
    if rep["case"].get("concurrent_tokens"):
        import dsched
        import qmi.core.context  # noqa
        c = rep["case"]
        res = dsched.run_forked([(scenario_concurrent_tokens, tuple(c["args"]), dict(strategy="replay", schedule=list(c.get("schedule") or [])))], nproc=1)[0]
        toks = [tuple(t) for t in (res.get("obs") or {}).get("tokens", [])]
        bad = res["status"] != "ok" or len(set(toks)) != len(toks)
        print(res["status"], toks, "COLLISION" if bad else "all distinct")
        return 1 if bad else 0
    return _replay_hist(rep)


def _replay_hist(rep):
    logging.disable(logging.CRITICAL)
    c = rep["case"]
    kind = c.get("kind")
    why = None
    if kind == "step":
        st, tok = _tup(c["state"]), _tup(c["token"])
        res = step_direct(st, c["action"], tok)
        print("implementation:", res)
        why = oracle_step(st, c["action"], tok, res)
        term = coq_step(st, c["action"], tok, res)
    elif kind == "gate":
        st, tok = _tup(c["state"]), _tup(c["token"])
        res = gate_direct(st, tok)
        print("implementation:", res)
        why = oracle_gate(st, tok, res)
        term = coq_gate(st, tok, res)
    elif kind == "tok":
        cs = [new_real_context(n) for n in c["names"]]
        gen = []
        for i in c["order"]:
            t = cs[i].make_unique_token()
            gen.append((i, (t[0], t[1])))
        print("implementation:", gen)
        why = next(oracle_tokens(c["names"], gen), None)
        term = coq_tok(c["names"], gen)
    elif kind == "work":
        reqs = [_tup(r) for r in c["reqs"]]
        res = run_worker(reqs)
        for r, g in zip(reqs, res["replies"]):
            print("  %-60r -> %r%s" % (r[:3], g, "" if r[3] else "   [reply NOT deliverable]"))
        print("  final owner:", res["owner"], " log:", res["log"], " died:", res["died"])
        why = oracle_worker(reqs, res)
        term = coq_work(reqs, res)
    elif kind == "equalised":
        insts, proxies, ops, res, achieved = run_equalised(c["n"], tuple(c["sources"]), c["k"], c["full"])
        print("contexts: %d named %r, each constructed with identical: %s (random: %r); achieved: %r"
              % (c["n"], insts[1], "+".join(c["sources"]) or "nothing", c["k"], achieved))
        for o, ob in zip(ops, res["obs"]):
            print("  %-28r -> %r   sent=%r owner=%r" % (o, ob["out"], ob["sent"], ob["owner"]))
        print("  tokens generated (instance, token):", res["generated"])
        whys = list(oracle_equalised(insts, proxies, ops, res))
        want = [w for w in whys if (rep.get("key") or "").startswith(re.sub(r"-?\d+", "N", w[0]))]
        why = (want or whys or [None])[0]
        term = coq_prog(insts, proxies, ops, res)
    elif kind in ("hist", "tcp"):
        ops = [_tup(o) for o in c["ops"]]
        kw = {} if kind == "hist" else {"op_timeout": 3.0}
        if c.get("equalise"):
            kw["equalise"] = (tuple(c["equalise"][0]), c["equalise"][1])
        ev = eval_hist(c["insts"], c["proxies"], ops, kind, **kw)
        for o, ob in zip(ev["ops"], ev["res"]["obs"]):
            print("  %-40r -> %r   owner=%r  remembered=%r" % (o, ob["out"], ob["owner"], ob["ptoks"]))
        for k, exc, ow, o in ev["raw"].get("crashes", []):
            print("  op %d %r (owner %r): worker raised %s -> no reply (operation dropped from the history above)" % (k, o, ow, exc))
        if ev["res"]["died"]:
            print("  worker died / hung at op %d: %s" % ev["res"]["died"])
        whys = ev["whys"] + ev["crashes"] + ev["collide"]
        want = [w for w in whys if (rep.get("key") or "").startswith(re.sub(r"-?\d+", "N", w[0]))]
        why = (want or whys or [None])[0]
        term = coq_hist(c["insts"], c["proxies"], ev["ops"], ev["res"])
    else:
        print("unknown replay kind", kind)
        return 2
    try:
        import common
        ck = common.Check("C04")
        print("model:", ck.model_eval("C04.Corr", "model_out (%s)" % term))
        print("model agrees with implementation:", ck.model_eval("C04.Corr", "check_case (%s)" % term))
        ck.clean_cases()
    except Exception as e:   # the model side is informative only
        print("model evaluation unavailable:", e)
    print("oracle:", ("%s — %s" % why) if why else "property holds on this case")
    return 1 if why else 0
