"""C06 — peer connections deliver whole messages in order and contain bad peers.

Tie to /repo: the REAL qmi.core.messaging._PeerTcpConnection, managed by the REAL _SocketManager, is
driven without network, threads or asyncio loop: a scripted socket object (recv honours the buffer
size, sendall records), a stub event loop (add_reader/remove_reader bookkeeping only) and a stub
message router (context_name, deliver_message recording every hand-over, notify_* recording).
Data is delivered by calling conn._handle_read() exactly when the scripted socket is readable; for
outgoing connections the first frame goes through conn.receive_handshake() as MessageRouter.
connect_to_peer does.  The same byte stream / script is evaluated by the Coq model
(theories/C06/Model.v, function `run`) and the outcomes are compared (events, closed?, peer name,
pending ids, residual buffer length).  Independently of the model, `oracle` restates C06 on the
implementation's observations from a reference reading of the wire format.
"""
import copy
import logging
import pickle
import re
import socket as _socket

from common import cN, cnat, cbool, clist, cbytes, copt

THEORY = "C06"
LOCAL = "L"


# ------------------------------------------------------------------------------------------------
# messages
# ------------------------------------------------------------------------------------------------

def build_msg(d):
    """message descriptor (JSON-able dict) -> real QMI message object"""
    from qmi.core import messaging as M
    from qmi.core.rpc import QMI_MethodRpcRequestMessage, QMI_MethodRpcReplyMessage, QMI_RpcFutureState
    from qmi.core.pubsub import QMI_SignalMessage
    A = M.QMI_MessageHandlerAddress
    k = d["k"]
    if k == "hs":
        return M.QMI_InitialHandshakeMessage(d["src"][0], d.get("ver", "0.0"), bool(d["srv"]))
    src, dst = A(*d["src"]), A(*d["dst"])
    body, pad = d.get("body", 0), d.get("pad", 0)
    args = (body,) if not pad else (body, b"\xa5" * pad)
    if k == "oth":
        return M.QMI_Message(src, dst) if (body == 0 and not pad) else QMI_SignalMessage(src, dst, "sig", args)
    if k == "req":
        m = M.QMI_RequestMessage(src, dst) if (body == 0 and not pad) else \
            QMI_MethodRpcRequestMessage(src, dst, "meth", args, {})
        m.request_id = d["id"]
        return m
    if k == "rep":
        if body == 0:
            return M.QMI_ReplyMessage(src, dst, d["id"])
        return QMI_MethodRpcReplyMessage(src, dst, d["id"], QMI_RpcFutureState.RESULT_IS_VALUE, body)
    if k == "err":
        return M.QMI_ErrorReplyMessage(src, dst, d["id"], "err%d" % body)
    raise ValueError(k)


def canon(m):
    """real message -> (kind, src, dst, body) with kind ('H',srv)|('Q',id)|('R',id,iserr)|('O',);
    ('weird', text) if it does not have the expected shape"""
    from qmi.core import messaging as M
    from qmi.core.rpc import QMI_MethodRpcRequestMessage, QMI_MethodRpcReplyMessage
    from qmi.core.pubsub import QMI_SignalMessage
    try:
        src = (m.source_address.context_id, m.source_address.object_id)
        dst = (m.destination_address.context_id, m.destination_address.object_id)
        body = 0
        if isinstance(m, M.QMI_InitialHandshakeMessage):
            kind = ("H", bool(m.is_server_handshake))
        elif isinstance(m, M.QMI_RequestMessage):
            kind = ("Q", m.request_id)
            if isinstance(m, QMI_MethodRpcRequestMessage):
                body = m.method_args[0]
        elif isinstance(m, M.QMI_ErrorReplyMessage):
            kind = ("R", m.request_id, True)
            mm = re.fullmatch(r"err(\d+)", m.error_msg)
            body = int(mm.group(1)) if mm else 0
        elif isinstance(m, M.QMI_ReplyMessage):
            kind = ("R", m.request_id, False)
            if isinstance(m, QMI_MethodRpcReplyMessage):
                body = m.result
        elif isinstance(m, M.QMI_Message):
            kind = ("O",)
            if isinstance(m, QMI_SignalMessage):
                body = m.args[0]
        else:
            return ("weird", type(m).__name__)
        ok = all(isinstance(x, str) for x in src + dst + tuple(kind[1:2] if kind[0] in "QR" else ())) \
            and isinstance(body, int) and not isinstance(body, bool) and 0 <= body < 2 ** 31
        return (kind, src, dst, body) if ok else ("weird", repr((kind, src, dst, body))[:200])
    except Exception as e:  # malformed object
        return ("weird", "%s: %s" % (type(e).__name__, e))


def full(m):
    """every slot of the message, for the 'unmodified' comparison"""
    slots = []
    for cls in type(m).__mro__:
        for s in getattr(cls, "__slots__", ()):
            v = getattr(m, s, "<unset>")
            slots.append((s, repr(v) if not isinstance(v, tuple) or len(repr(v)) < 300
                          else "tuple:%d:%d" % (len(v), hash(v))))
    return (type(m).__name__, tuple(sorted(slots)))


def frame(p):
    return b"P" + len(p).to_bytes(8, "little") + p


def wire(d):
    return frame(pickle.dumps(build_msg(d)))


# ------------------------------------------------------------------------------------------------
# stubs
# ------------------------------------------------------------------------------------------------

class ScriptSock:
    def __init__(self, fd, log):
        self.fd, self.log = fd, log
        self.rx = bytearray()
        self.eof = False
        self.closed = False
        self.pull = None
        self.nsent = 0

    def getsockname(self):
        return ("127.0.0.1", 1000 + self.fd)

    def getpeername(self):
        return ("127.0.0.1", 2000 + self.fd)

    def fileno(self):
        return self.fd

    def settimeout(self, t):
        pass

    def recv(self, n):
        if self.closed:
            raise OSError(9, "Bad file descriptor")
        while not self.rx and not self.eof:
            if self.pull is None or not self.pull():
                raise _socket.timeout("timed out")
        if self.rx:
            out = bytes(self.rx[:n])
            del self.rx[:n]
            return out
        return b""

    def sendall(self, data):
        if self.closed:
            raise OSError(9, "Bad file descriptor")
        self.nsent += 1
        data = bytes(data)
        try:
            assert data[0] == 0x50 and int.from_bytes(data[1:9], "little") == len(data) - 9
            m = pickle.loads(data[9:])
            self.log.append(("sent", canon(m), full(m)))
        except Exception:
            self.log.append(("sent", ("weird", data[:40].hex()), None))

    def close(self):
        self.closed = True


class Loop:
    def __init__(self):
        self.readers = {}
        self.removed = []

    def add_reader(self, fd, cb):
        self.readers[fd] = cb

    def remove_reader(self, fd):
        self.removed.append(fd)
        return self.readers.pop(fd, None) is not None


class Router:
    context_name = LOCAL

    def __init__(self, rejects):
        self.rejects = set(rejects)
        self.log = None
        self.sock = None
        self.in_read = False
        self.added, self.removed = [], []

    def deliver_message(self, message):
        from qmi.core.exceptions import QMI_MessageDeliveryException
        tag = "deliver" if (self.in_read and not self.sock.closed) else "fail"
        obj = getattr(getattr(message, "destination_address", None), "object_id", None)
        if tag == "fail" and obj in self.rejects:
            tag = "refused"     # a locally generated error reply whose requester has no handler any more
        self.log.append((tag, canon(message), full(message)))
        if obj in self.rejects:
            raise QMI_MessageDeliveryException("no handler %r" % (obj,))
        if obj == "crash" and tag == "deliver":
            raise RuntimeError("handler crashed")

    def notify_peer_context_added(self, name):
        self.added.append(name)

    def notify_peer_context_removed(self, name):
        self.removed.append(name)


_SILENCED = False


def _silence_logging():
    """The check never reads QMI's log output (texts, levels and the presence of log lines are the
    implementation's free choice); it is only kept off the terminal."""
    global _SILENCED
    if not _SILENCED:
        lg = logging.getLogger("qmi.core.messaging")
        lg.addHandler(logging.NullHandler())
        lg.propagate = False
        _SILENCED = True


_REAL_MAX = None


def real_max():
    """MAX_MESSAGE_SIZE as the code under test defines it (a parameter of the model, not a constant of the check)"""
    global _REAL_MAX
    if _REAL_MAX is None:
        from qmi.core import messaging as M
        _REAL_MAX = int(M._PeerTcpConnection.MAX_MESSAGE_SIZE)
    return _REAL_MAX


# ------------------------------------------------------------------------------------------------
# the implementation run
# ------------------------------------------------------------------------------------------------

def impl_run(case):
    from qmi.core import messaging as M
    A = M.QMI_MessageHandlerAddress
    _silence_logging()
    log = []
    sock = ScriptSock(7, log)
    router = Router(case["rejects"])
    router.log, router.sock = log, sock
    loop = Loop()
    sm = M._SocketManager(loop, router)
    stream = bytes.fromhex(case["stream"])
    script = case["script"]
    incoming = case["incoming"]
    st = {"i": 1, "pos": 0}
    szs = {}
    assert script and script[0][0] == "send" and script[0][1]["k"] == "hs"

    def is_open():
        return sock.fd in loop.readers

    escaped = []

    def handle_read():
        """the event loop's callback wrapper: an exception leaving the reader callback is logged by asyncio and the
        reader stays registered - observed here as an ('escape', class) event, judged by the oracle"""
        router.in_read = True
        try:
            conn._handle_read()
        except Exception as e:  # noqa
            escaped.append(type(e).__name__)
            log.append(("escape", type(e).__name__))
        finally:
            router.in_read = False

    def pump():
        """deliver the readable data; if that closes the connection, the receive path met an error (EOF is a
        separate script op): record it, without looking at exception class, text or log output, just before the
        error replies that close() generated in the same step"""
        before, guard = len(log), 0
        was_open = is_open()
        while sock.rx and is_open():
            n_esc = len(escaped)
            handle_read()
            if len(escaped) > n_esc:
                break
            guard += 1
            assert guard < 200000
        if was_open and not is_open():
            pos = next((j for j in range(before, len(log)) if log[j][0] in ("fail", "refused")), len(log))
            log.insert(pos, ("error",))

    if incoming:
        alias = "$client_1"
        sm.add_incoming_connection(sock)                       # sends the server handshake
        conn = sm._peer_context_map[alias]
        if case["max"] is not None:
            conn.MAX_MESSAGE_SIZE = case["max"]
    else:
        alias = case["peer"]
        conn = M._PeerTcpConnection(router, sock, alias, is_incoming=False)
        conn.send_handshake()
        if case["max"] is not None:
            conn.MAX_MESSAGE_SIZE = case["max"]

        def pull():
            if st["i"] < len(script) and script[st["i"]][0] == "recv":
                n = script[st["i"]][1]
                sock.rx += stream[st["pos"]:st["pos"] + n]
                st["pos"] += n
                st["i"] += 1
                return True
            if st["i"] < len(script) and script[st["i"]][0] == "eof":
                sock.eof = True
                st["i"] += 1
                return True
            return False
        sock.pull = pull
        router.in_read = True
        try:                                                   # as MessageRouter.connect_to_peer does
            conn.receive_handshake(5.0)
            ok = True
        except AssertionError:
            raise
        except Exception:
            if not sock.eof:            # not the peer closing before the handshake was complete: a violation
                log.append(("error",))
            conn.close()
            ok = False
        router.in_read = False
        sock.pull = None
        if ok:
            sm.add_outgoing_connection(conn)
            pump()
    szs[0] = 0      # the handshake is sent before the harness lowers MAX_MESSAGE_SIZE (small-max cases)

    # the bystander: another client connected to the same context
    bylog = []
    sock2 = ScriptSock(8, bylog)
    sm.add_incoming_connection(sock2)
    by_alias = [a for a in sm.get_peer_context_names() if a != alias]
    by_alias = by_alias[0] if by_alias else None

    while st["i"] < len(script):
        op = script[st["i"]]
        idx = st["i"]
        st["i"] += 1
        if op[0] == "recv":
            chunk = stream[st["pos"]:st["pos"] + op[1]]
            st["pos"] += op[1]
            if is_open():
                sock.rx += chunk
                pump()
        elif op[0] == "eof":
            if is_open():
                sock.eof = True
                handle_read()
        elif op[0] == "disc":
            if is_open():
                sm.disconnect_from_peer(alias)
        elif op[0] == "send":
            d = dict(op[1])
            d["dst"] = [alias, d["dst"][1]]
            m = build_msg(d)
            m2 = copy.copy(m)
            m2.destination_address = A(conn.peer_context_name or "", m.destination_address.object_id)
            szs[idx] = len(pickle.dumps(m2))
            try:
                sm.send_message(m)
            except AssertionError:
                log.append(("assert",))

    obs = {
        "events": log,
        "closed": bool(sock.closed),
        "peer": conn.peer_context_name,
        "pending": list(conn._pending_requests.keys()),
        "buflen": len(conn._recv_buf),
        "szs": szs,
        "alias": alias,
        "in_map": sm.has_peer_context(alias),
        "reader": is_open(),
        "in_wrappers": conn in sm._socket_wrappers,
        "removed_notes": router.removed.count(alias),
        "added_notes": router.added.count(alias),
    }

    # the other connection of the context must still work
    by = {"ok": False, "why": "no bystander connection"}
    if by_alias is not None:
        router.log, router.sock = bylog, sock2
        conn2 = sm._peer_context_map.get(by_alias)
        try:
            sock2.rx += wire({"k": "hs", "src": ["by"], "srv": False}) + \
                wire({"k": "oth", "src": ["by", "s"], "dst": [LOCAL, "o1"], "body": 77})
            g = 0
            while sock2.rx and sock2.fd in loop.readers and g < 100:
                router.in_read = True
                conn2._handle_read()
                router.in_read = False
                g += 1
            dl = [e[1] for e in bylog if e[0] == "deliver"]
            good = (dl == [(("O",), (by_alias, "s"), (LOCAL, "o1"), 77)] and not sock2.closed
                    and sm.has_peer_context(by_alias) and sock2.fd in loop.readers)
            by = {"ok": bool(good), "why": "" if good else "bystander connection: delivered %r closed=%r in_map=%r"
                  % (dl, sock2.closed, sm.has_peer_context(by_alias))}
        except Exception as e:
            by = {"ok": False, "why": "bystander connection raised %s: %s" % (type(e).__name__, e)}
        finally:
            router.in_read = False
            obs["bystander"] = by
    return obs


# ------------------------------------------------------------------------------------------------
# reference reading of the wire format + property oracle
# ------------------------------------------------------------------------------------------------

def ref_parse(stream, maxsz):
    """well-formed frames at the front of the stream as (end offset, payload); then how it ends:
    ('clean'|'partial', None) or ('BadMarker'|'TooBig', number of bytes after which it is detectable)"""
    frames, o = [], 0
    while o < len(stream):
        if stream[o] != 0x50:
            return frames, ("BadMarker", o + 1)
        if len(stream) < o + 9:
            return frames, ("partial", None)
        n = int.from_bytes(stream[o + 1:o + 9], "little")
        if n > maxsz:
            return frames, ("TooBig", o + 9)
        if len(stream) < o + 9 + n:
            return frames, ("partial", None)
        frames.append((o + 9 + n, bytes(stream[o + 9:o + 9 + n])))
        o += 9 + n
    return frames, ("clean", None)


def unpickle(p):
    from qmi.core.messaging import QMI_Message
    try:
        m = pickle.loads(p)
    except Exception:
        return None
    return m if isinstance(m, QMI_Message) else None


def expected(case, obs):
    """What C06 demands for this script (stated from the wire format and the property text, not from
    the code): list of expected happenings."""
    from qmi.core import messaging as M
    A = M.QMI_MessageHandlerAddress
    stream = bytes.fromhex(case["stream"])
    maxsz = case["max"] if case["max"] is not None else real_max()
    incoming, alias, rejects = case["incoming"], obs["alias"], set(case["rejects"])
    frames, tail = ref_parse(stream, maxsz)
    ex = {"deliver": [], "fail": [], "senterr": [], "closed": False, "sent": 0}
    state = {"open": True, "peer": None, "k": 0, "recv": 0}
    pending = {}

    def close():
        for rid, (src, dst) in pending.items():      # EVERY pending request, whatever happens to the others
            ex["fail"].append((rid, src, src[1] in rejects))
        pending.clear()
        state["open"] = False
        ex["closed"] = True

    def handle(p):
        m = unpickle(p)
        if m is None:
            return close()
        hs = isinstance(m, M.QMI_InitialHandshakeMessage)
        if state["peer"] is None:
            if not hs or bool(m.is_server_handshake) == bool(incoming):
                return close()                      # missing or wrong-direction handshake
            state["peer"] = m.source_address.context_id
            return
        if hs:
            return close()                          # repeated handshake
        if m.destination_address.context_id != LOCAL or m.source_address.context_id != state["peer"]:
            return close()                          # forged destination / source
        m.source_address = A(alias, m.source_address.object_id)
        if isinstance(m, M.QMI_ReplyMessage):
            pending.pop(m.request_id, None)
        ex["deliver"].append(full(m))
        if isinstance(m, M.QMI_RequestMessage) and m.destination_address.object_id in rejects:
            ex["senterr"].append(m.request_id)

    for idx, op in enumerate(case["script"]):
        if op[0] == "recv":
            if state["open"]:
                state["recv"] += op[1]
                while state["open"] and state["k"] < len(frames) and frames[state["k"]][0] <= state["recv"]:
                    handle(frames[state["k"]][1])
                    state["k"] += 1
                if state["open"] and state["k"] == len(frames) and tail[0] in ("BadMarker", "TooBig") \
                        and state["recv"] >= tail[1]:
                    close()
        elif op[0] in ("eof", "disc"):
            if state["open"]:
                close()
        elif op[0] == "send":
            d = op[1]
            if d["k"] == "hs":
                ex["sent"] += 1
                continue
            isreq = d["k"] == "req"
            src = (d["src"][0], d["src"][1])
            if not state["open"]:
                if isreq:
                    ex["fail"].append((d["id"], src, src[1] in rejects))
            elif state["peer"] is None:              # not connected yet as far as the router can tell
                if isreq:
                    ex["fail"].append((d["id"], src, src[1] in rejects))
            elif obs["szs"].get(idx, 0) > maxsz:
                if isreq:
                    ex["fail"].append((d["id"], src, src[1] in rejects))
            else:
                ex["sent"] += 1
                if isreq:
                    pending.setdefault(d["id"], (src, None))
    ex["pending"] = list(pending.keys())
    return ex


def oracle(case, obs):
    """C06 on the implementation's observations; None or (key, description)."""
    ev = obs["events"]
    for e in ev:
        if e[0] == "escape":
            return ("read-handler-exception-escapes", "%s left the connection's read handler while it processed data from the "
                    "peer: the event loop only logs it, the bad peer is not contained (connection closed=%r, still registered=%r, "
                    "pending requests failed=%r)" % (e[1], obs["closed"], obs["reader"],
                                                     any(x[0] == "fail" for x in ev)))
    for e in ev:
        if e[0] in ("deliver", "fail", "refused", "sent") and e[1][0] == "weird":
            return ("malformed-message-object", "a %s message has an unexpected shape: %r" % (e[0], e[1][1]))
    ex = expected(case, obs)
    got_deliver = [e[2] for e in ev if e[0] == "deliver"]
    if got_deliver != ex["deliver"]:
        n = 0
        while n < len(got_deliver) and n < len(ex["deliver"]) and got_deliver[n] == ex["deliver"][n]:
            n += 1
        if len(got_deliver) > len(ex["deliver"]) and n == len(ex["deliver"]):
            return ("delivered-too-much", "message #%d was delivered although the connection had to be closed "
                    "before it / it is not a complete valid message: %r" % (n, got_deliver[n]))
        if len(got_deliver) < len(ex["deliver"]) and n == len(got_deliver):
            return ("message-lost", "message #%d of %d was never delivered: %r" % (n, len(ex["deliver"]), ex["deliver"][n]))
        return ("delivered-differs", "delivered message #%d differs from the message sent: got %r expected %r"
                % (n, got_deliver[n], ex["deliver"][n]))
    if obs["closed"] != ex["closed"]:
        return ("closed-state", "connection closed=%r but the property demands closed=%r" % (obs["closed"], ex["closed"]))
    flags = (obs["in_map"], obs["reader"], obs["in_wrappers"])
    if obs["closed"] and (any(flags) or (obs["removed_notes"] != 1 and (case["incoming"] or obs["added_notes"]))):
        return ("closed-but-registered", "socket closed but still registered: in peer map=%r reader=%r wrappers=%r "
                "removal notifications=%d" % (flags + (obs["removed_notes"],)))
    if not obs["closed"] and (not all(flags) or obs["removed_notes"]):
        return ("open-but-unregistered", "socket open but in peer map=%r reader=%r wrappers=%r" % flags)
    got_fail = []
    for e in ev:
        if e[0] in ("fail", "refused"):
            kind, src, dst, _ = e[1]
            if kind[0] != "R" or not kind[2]:
                return ("fail-not-error-reply", "a non-error message was generated locally: %r" % (e[1],))
            got_fail.append((kind[1], dst, e[0] == "refused"))
    # the clause itself: every pending request whose requester can still be reached gets exactly one
    # delivery error, regardless of the requests whose error reply the router refuses
    got_ok = [x[:2] for x in got_fail if not x[2]]
    exp_ok = [x[:2] for x in ex["fail"] if not x[2]]
    if got_ok != exp_ok:
        lost = [x for x in exp_ok if x not in got_ok]
        return ("pending-fail", "error replies delivered for pending requests %r, the property demands exactly %r"
                "%s (refused by the router meanwhile: %r)"
                % (got_ok, exp_ok, "; never failed: %r" % (lost,) if lost else "",
                   [x[:2] for x in got_fail if x[2]]))
    # (which refused deliveries were attempted is not part of the property; the model comparison covers it)
    if not obs["closed"] and obs["pending"] != ex["pending"]:
        return ("pending-table", "pending table %r, expected %r" % (obs["pending"], ex["pending"]))
    got_senterr = [e[1][0][1] for e in ev if e[0] == "sent" and e[1][0][0] == "R" and e[1][0][2]]
    if got_senterr != ex["senterr"]:
        return ("sent-error-replies", "error replies sent to the peer %r, expected %r" % (got_senterr, ex["senterr"]))
    if sum(1 for e in ev if e[0] == "sent") != ex["sent"] + len(ex["senterr"]):
        return ("sent-count", "%d frames written, expected %d" % (sum(1 for e in ev if e[0] == "sent"),
                                                                  ex["sent"] + len(ex["senterr"])))
    if not obs["bystander"]["ok"]:
        return ("bystander", "another connection of the context stopped working: " + obs["bystander"]["why"])
    return None


# ------------------------------------------------------------------------------------------------
# Coq case
# ------------------------------------------------------------------------------------------------

class Intern:
    def __init__(self):
        self.t = {}

    def __call__(self, s):
        if s not in self.t:
            self.t[s] = len(self.t) + 1
        return cN(self.t[s])


def c_msg(cm, I):
    kind, src, dst, body = cm
    if kind[0] == "H":
        k = "KHandshake %s" % cbool(kind[1])
    elif kind[0] == "Q":
        k = "KRequest %s" % I(("id", kind[1]))
    elif kind[0] == "R":
        k = "KReply %s %s" % (I(("id", kind[1])), cbool(kind[2]))
    else:
        k = "KOther"
    return "(mkmsg (%s) (%s, %s) (%s, %s) %s)" % (k, I(src[0]), I(("o", src[1])), I(dst[0]), I(("o", dst[1])), cN(body))


def c_event(e, I):
    if e[0] in ("deliver", "fail", "refused", "sent"):
        if e[1][0] == "weird":
            return "EOutOfFuel"
        return "%s %s" % ({"deliver": "EDeliver", "fail": "EFail", "refused": "ERefused", "sent": "ESent"}[e[0]],
                          c_msg(e[1], I))
    if e[0] == "error":
        return "EErr"       # the connection was closed by the receive path; which exception, with which text, is
        #                     the implementation's choice and is not observed
    if e[0] == "assert":
        return "EAssert"
    return "EOutOfFuel"


def coq_case(case, obs, literal=False):
    """Coq term of type Corr.case, or None when the case is python-only (too large / malformed).
    literal=True: every byte of the stream is given literally; otherwise payloads of well-formed
    frames (which the framing layer hands to pickle unread) are length-preserving surrogates
    `blob k n`, k distinct per distinct payload, and long unparsable tails are cut to 32 literal bytes
    + blob 0."""
    stream = bytes.fromhex(case["stream"])
    if len(stream) > (3000 if literal else 200000):
        return None
    maxsz = case["max"] if case["max"] is not None else real_max()
    I = Intern()
    frames, tail = ref_parse(stream, maxsz)
    names, lets, tab, pieces, o = {}, [], [], [], 0
    for end, p in frames:
        if p not in names:
            if literal:
                names[p] = "p%d" % len(names)
                lets.append("let %s := %s in" % (names[p], cbytes(p)))
            else:
                names[p] = "(blob %s %s)" % (cN(len(names) + 1), cN(len(p)))
            m = unpickle(p)
            if m is None:
                tab.append("(%s, None)" % names[p])
            else:
                cm = canon(m)
                if cm[0] == "weird":
                    return None
                tab.append("(%s, Some %s)" % (names[p], c_msg(cm, I)))
        pieces.append(cbytes(stream[o:end - len(p)]))
        pieces.append(names[p])
        o = end
    rest = stream[o:]
    if literal or len(rest) <= 48:
        pieces.append(cbytes(rest))
    else:
        pieces.append(cbytes(rest[:32]))
        pieces.append("(blob 0%%N %s)" % cN(len(rest) - 32))
    sc = []

    def flush(run):
        if run[1] == 1:
            sc.append("SRecv %s" % cN(run[0]))
        elif run[1] > 1:
            sc.append("SRecvs %s %s" % (cN(run[1]), cN(run[0])))
    run = [0, 0]
    for idx, op in enumerate(case["script"]):
        if op[0] == "recv":
            if run[1] and run[0] == op[1]:
                run[1] += 1
            else:
                flush(run)
                run = [op[1], 1]
            continue
        flush(run)
        run = [0, 0]
        if op[0] == "eof":
            sc.append("SEof")
        elif op[0] == "disc":
            sc.append("SDisc")
        else:
            d = op[1]
            if d["k"] == "hs":
                cm = (("H", bool(d["srv"])), (LOCAL, "$router"), ("", ""), 0)
            else:
                cm = canon(build_msg(dict(d, dst=[obs["alias"], d["dst"][1]])))
            sc.append("SSend %s %s" % (c_msg(cm, I), cN(obs["szs"].get(idx, 0))))
    flush(run)
    if obs["peer"] is not None and not isinstance(obs["peer"], str):
        return None
    cfg = "(mkcfg %s %s %s %s %s)" % (I(LOCAL), I(obs["alias"]), cbool(case["incoming"]), cN(maxsz),
                                      clist([I(("o", r)) for r in case["rejects"]]))
    o_t = "(%s, %s, %s, %s, %s)" % (clist([c_event(e, I) for e in obs["events"]]), cbool(obs["closed"]),
                                    copt(obs["peer"], I), clist([I(("id", r)) for r in obs["pending"]]),
                                    cN(obs["buflen"]))
    return "(%s (%s, %s, (%s), %s, %s))" % (" ".join(lets), cfg, clist(tab), " ++ ".join(pieces), clist(sc), o_t)


# ------------------------------------------------------------------------------------------------
# generator
# ------------------------------------------------------------------------------------------------

OBJS = ["o1", "o2", "$pubsub", "gone", "crash"]
REQUESTERS = ["f1", "f2", "gonefut"]
REJECTS = ["gone", "gonefut"]
IDS = ["r1", "r2", "r3", "r4"]
FAULTS = ["marker", "len_max1", "len_2_63", "len_ff", "nonmsg", "garbage_framed", "garbage", "trunc_eof",
          "dup_hs", "wrongdir_hs", "no_hs", "forged_src", "forged_dst", "empty_payload"]


def rand_peer_msg(rng, peer, pad=0):
    k = rng.choice(["oth", "oth", "req", "req", "rep", "rep", "err"])
    d = {"k": k, "src": [peer, rng.choice(["s1", "s2", "$pubsub"])],
         "dst": [LOCAL, rng.choices(OBJS + REQUESTERS, weights=[4, 3, 2, 2, 1, 2, 2, 1])[0]],
         "body": rng.choice([0, 0, 1, 2, 3, 1000, 2 ** 31 - 1])}
    if k != "oth":
        d["id"] = rng.choice(IDS + ["zz"])
    if pad:
        d["pad"] = pad
        if k in ("rep", "err"):
            d["k"] = "oth"
    return d


def fault_item(rng, kind, peer, incoming, alias, maxsz):
    """bytes of the offending item"""
    if kind == "marker":
        b = bytearray(wire(rand_peer_msg(rng, peer)))
        b[0] = rng.choice([0x00, 0x51, 0x70, 0xff, 0x4f, 0x80])
        return bytes(b)
    if kind == "len_max1":
        return b"P" + (maxsz + 1).to_bytes(8, "little") + bytes(rng.randrange(256) for _ in range(rng.randint(0, 20)))
    if kind == "len_2_63":
        return b"P" + (1 << 63).to_bytes(8, "little") + b"xyz"
    if kind == "len_ff":
        return b"P" + b"\xff" * 8 + bytes(rng.randint(0, 4))
    if kind == "nonmsg":
        return frame(pickle.dumps(rng.choice([42, ("a", 1), None, "str", {"k": 1}, [LOCAL, peer]])))
    if kind == "garbage_framed":
        return frame(bytes(rng.randrange(256) for _ in range(rng.randint(1, 40))))
    if kind == "empty_payload":
        return frame(b"")
    if kind == "garbage":
        return bytes(rng.randrange(256) for _ in range(rng.randint(1, 30)))
    if kind == "dup_hs":
        return wire({"k": "hs", "src": [rng.choice([peer, "other"])], "srv": not incoming})
    if kind == "wrongdir_hs":
        return wire({"k": "hs", "src": [peer], "srv": incoming})
    if kind == "forged_src":
        d = rand_peer_msg(rng, peer)
        d["src"][0] = rng.choice(["evil", alias, LOCAL, peer + "x", "", peer.upper()])
        if d["src"][0] == peer:
            d["src"][0] = "evil"
        return wire(d)
    if kind == "forged_dst":
        d = rand_peer_msg(rng, peer)
        d["dst"][0] = rng.choice(["other", peer, alias, "", LOCAL.lower()])
        if d["dst"][0] == LOCAL:
            d["dst"][0] = "other"
        return wire(d)
    raise ValueError(kind)


def cuts_to_script(total, cuts):
    pts = sorted(set(c for c in cuts if 0 < c < total))
    out, prev = [], 0
    for c in pts + [total]:
        if c > prev:
            out.append(["recv", c - prev])
            prev = c
    return out


def segment(rng, stream, bounds, mode):
    n = len(stream)
    if n == 0:
        return []
    if mode == "one":
        return [["recv", n]]
    if mode == "bytes":
        return [["recv", 1] for _ in range(n)]
    if mode == "header":
        cs = []
        for _ in range(rng.randint(1, 3)):
            cs.append(rng.choice(bounds) + rng.randint(0, 9))
        return cuts_to_script(n, cs)
    if mode == "frames":
        return cuts_to_script(n, bounds)
    return cuts_to_script(n, [rng.randint(1, max(1, n - 1)) for _ in range(rng.randint(1, 8))])


def make_case(rng, incoming, nmsgs, fault=None, fpos=0, seg="random", nsends=0, maxsz=None, after=1,
              disc=False, late_sends=0, pads=(), cuts=None, bucket="random"):
    peer = rng.choice(["peerctx", "P2", "ctx-with-long-name_0123456789"])
    alias = "$client_1" if incoming else peer
    mx = maxsz if maxsz is not None else real_max()
    items = []
    if fault != "no_hs" and not (fault == "wrongdir_hs" and fpos == 0):
        items.append(wire({"k": "hs", "src": [peer], "srv": not incoming}))
    pads = list(pads)
    for j in range(nmsgs):
        items.append(wire(rand_peer_msg(rng, peer, pads.pop(0) if pads else 0)))
    eof = False
    if fault == "no_hs":
        fpos = 0
    elif fault == "trunc_eof":
        fpos = min(fpos, len(items) - 1)
        cutat = rng.randint(0, len(items[fpos]) - 1)
        items = items[:fpos] + [items[fpos][:cutat]]
        eof = True
    elif fault is not None:
        fpos = min(fpos, len(items))
        if fault in ("dup_hs",) and fpos == 0:
            fpos = 1 if items else 0
        items.insert(fpos, fault_item(rng, fault, peer, incoming, alias, mx))
    if fault is not None and fault != "trunc_eof":
        for _ in range(after):
            items.append(wire(rand_peer_msg(rng, peer)))
    stream = b"".join(items)
    bounds, o = [], 0
    for it in items:
        bounds.append(o)
        o += len(it)
    script = cuts_to_script(len(stream), cuts) if cuts is not None else segment(rng, stream, bounds or [0], seg)
    if eof or (rng.random() < 0.08 and not disc):
        script.append(["eof"])
    # position from which sends are allowed (outgoing: only once the first frame is decided)
    frames, tail = ref_parse(stream, mx)
    need = frames[0][0] if frames else (tail[1] if tail[1] is not None else None)
    first_ok, acc = None, 0
    for i, op in enumerate(script):
        if op[0] == "recv":
            acc += op[1]
        if need is not None and acc >= need and first_ok is None:
            first_ok = i + 1
    if first_ok is None:
        first_ok = len(script)
        if not incoming and (not script or script[-1][0] != "eof"):
            script.append(["eof"])
            first_ok = len(script)
    extra = []
    for _ in range(nsends):
        k = rng.choice(["req", "req", "req", "oth", "rep"])
        d = {"k": k, "src": [LOCAL, rng.choice(REQUESTERS)], "dst": [alias, rng.choice(["s1", "s2"])],
             "body": rng.choice([0, 5, 6])}
        if k != "oth":
            d["id"] = rng.choice(IDS)
        extra.append(["send", d])
    if disc:
        extra.append(["disc"])
    for x in extra:
        script.insert(rng.randint(first_ok, len(script)), x)
    for _ in range(late_sends):
        script.append(["send", {"k": rng.choice(["req", "oth"]), "src": [LOCAL, rng.choice(REQUESTERS)],
                                "dst": [alias, "s1"], "id": rng.choice(IDS + ["late"]), "body": 0}])
    script.insert(0, ["send", {"k": "hs", "src": [LOCAL, "$router"], "srv": incoming}])
    return {"incoming": incoming, "peer": peer, "max": maxsz, "rejects": REJECTS, "stream": stream.hex(),
            "script": script, "bucket": bucket, "fault": fault or "none", "seg": seg if cuts is None else "cut"}


def gen_cases(ck):
    rng = ck.rng
    cases = []
    thorough = ck.tier != "quick"
    # A: one clean stream (handshake + 2 messages + local request/reply), every cut position near the
    #    frame headers and a stride elsewhere; both directions
    for incoming in (True, False):
        base = make_case(rng, incoming, 2, seg="one", bucket="sweep-cut")
        stream = bytes.fromhex(base["stream"])
        frames, _ = ref_parse(stream, real_max())
        starts = [0] + [e for e, _ in frames]
        pts = set()
        for s in starts:
            pts.update(range(max(1, s - 3), min(len(stream), s + 13)))
        pts.update(range(1, len(stream), 3 if thorough else 9))
        for c in sorted(pts):
            cs = dict(base)
            cs["script"] = [base["script"][0]] + cuts_to_script(len(stream), [c])
            cs["seg"] = "cut"
            cases.append(cs)
        # all pairs of cuts inside the header of the second frame
        s = starts[1]
        for a in range(s, s + 10):
            for b in range(a + 1, s + 11):
                cs = dict(base)
                cs["script"] = [base["script"][0]] + cuts_to_script(len(stream), [a, b])
                cs["seg"] = "cut2"
                cases.append(cs)
    # B: every fault kind at every position, each segmentation, both directions
    for rep in range(1 if not thorough else 4):
        for fault in FAULTS:
            for fpos in range(0, 4):
                for seg in ("one", "bytes", "random", "header", "frames"):
                    for incoming in (True, False):
                        cases.append(make_case(rng, incoming, 2, fault=fault, fpos=fpos, seg=seg,
                                               nsends=rng.choice([0, 0, 1, 2]), after=rng.choice([1, 2]),
                                               late_sends=rng.choice([0, 0, 1]), bucket="fault-sweep"))
    # C: random mixtures
    for _ in range(900 if not thorough else 14000):
        fault = rng.choice(FAULTS) if rng.random() < 0.55 else None
        nm = rng.choice([0, 1, 2, 3, 4, 6, 9])
        cases.append(make_case(rng, rng.random() < 0.5, nm, fault=fault, fpos=rng.randint(0, nm + 1),
                               seg=rng.choice(["one", "bytes", "random", "random", "header", "frames"]) if nm < 7
                               else rng.choice(["one", "random", "header", "frames"]),
                               nsends=rng.choice([0, 1, 2, 3, 5]), after=rng.choice([0, 1, 2]),
                               disc=rng.random() < 0.1, late_sends=rng.choice([0, 0, 1, 2]), bucket="random"))
    # D: small MAX_MESSAGE_SIZE set on the instance: boundary len == MAX, MAX+1 against the model
    for _ in range(150 if not thorough else 1500):
        incoming = rng.random() < 0.5
        probe = make_case(rng, incoming, rng.choice([1, 2, 3]), seg="one")
        fr, _ = ref_parse(bytes.fromhex(probe["stream"]), real_max())
        sizes = [len(p) for _, p in fr]
        mx = rng.choice(sizes) + rng.choice([-1, 0, 0, 1])
        cs = dict(probe)
        cs["max"] = mx
        cs["rejects"] = []      # no error replies to the peer here: with an artificially small limit they
        #                         would themselves be oversize (send_error_reply then drops them)
        cs["bucket"] = "small-max"
        stream = bytes.fromhex(cs["stream"])
        cs["script"] = [probe["script"][0]] + segment(rng, stream, [0] + [e for e, _ in fr[:-1]],
                                                       rng.choice(["one", "random", "header", "bytes"]))
        if not incoming:
            f2, t2 = ref_parse(stream, mx)
            if not f2 and t2[1] is None:
                cs["script"].append(["eof"])
        for _ in range(rng.choice([0, 1, 2])):
            cs["script"].append(["send", {"k": "req", "src": [LOCAL, "f1"], "dst": ["x", "s1"], "id": rng.choice(IDS),
                                          "body": rng.choice([0, 5])}])
        cases.append(cs)
    # E: large payloads around the 4096-byte recv size and beyond (python oracle only)
    big = [4096 - 300, 4096 - 210, 4096 - 200, 4096, 4097, 8192, 12288 - 190, 70000]
    for _ in range(40 if not thorough else 400):
        nm = rng.choice([1, 2, 3])
        cases.append(make_case(rng, rng.random() < 0.5, nm, pads=[rng.choice(big) + rng.randint(-12, 12) for _ in range(nm)],
                               fault=rng.choice([None, None, "marker", "forged_src", "trunc_eof", "len_max1"]),
                               fpos=rng.randint(1, nm + 1), seg=rng.choice(["one", "random", "header", "frames"]),
                               nsends=rng.choice([0, 1]), bucket="large"))
    # G: connection lost with n requests pending while the router refuses the error replies of a subset of
    #    the requesters (every subset for small n, every single position for larger n) x cause of the loss
    cases += close_refusal_cases(rng, thorough)
    # F: the real limit: a frame of exactly MAX_MESSAGE_SIZE bytes is delivered, MAX+1 is refused
    for exact in ([True, False] if not thorough else [True, False, True, False]):
        cases.append(limit_case(rng, exact))
    return cases


CLOSE_CAUSES = ["eof", "disc", "marker", "forged_src", "garbage_framed", "len_max1"]


def close_refusal_case(rng, incoming, n, refused, cause, answered=None, seg="one"):
    """n requests pending (requesters q0..q{n-1}, table order = send order); the router has no handler
    any more for the requesters whose index is in `refused`; then the connection is lost by `cause`.
    Every other pending request must still get exactly one error reply."""
    peer = "peerctx"
    alias = "$client_1" if incoming else peer
    rejects = ["q%d" % i for i in sorted(refused)] + ["gone"]
    hs = wire({"k": "hs", "src": [peer], "srv": not incoming})
    pre = b""
    if answered is not None:
        pre = wire({"k": rng.choice(["rep", "err"]), "src": [peer, "s1"], "dst": [LOCAL, "q%d" % answered],
                    "id": "c%d" % answered, "body": 1})
    bad = b"" if cause in ("eof", "disc") else fault_item(rng, cause, peer, incoming, alias, real_max())
    tail = wire(rand_peer_msg(rng, peer)) if bad else b""
    stream = hs + pre + bad + tail
    script = [["send", {"k": "hs", "src": [LOCAL, "$router"], "srv": incoming}], ["recv", len(hs)]]
    for i in range(n):
        script.append(["send", {"k": "req", "src": [LOCAL, "q%d" % i], "dst": [alias, rng.choice(["s1", "s2"])],
                                "id": "c%d" % i, "body": rng.choice([0, 5])}])
    rest = len(stream) - len(hs)
    if rest:
        if seg == "bytes":
            script += [["recv", 1] for _ in range(rest)]
        elif seg == "random":
            script += cuts_to_script(rest, [rng.randint(1, max(1, rest - 1)) for _ in range(3)])
        else:
            script.append(["recv", rest])
    if cause == "eof":
        script.append(["eof"])
    elif cause == "disc":
        script.append(["disc"])
    script.append(["send", {"k": "req", "src": [LOCAL, rng.choice(["q0", "f1"])], "dst": [alias, "s1"],
                            "id": "late", "body": 0}])
    return {"incoming": incoming, "peer": peer, "max": None, "rejects": rejects, "stream": stream.hex(),
            "script": script, "bucket": "close-refusals", "fault": cause if bad else "none", "seg": seg,
            "refused": "%d-of-%d" % (len(refused), n)}


def close_refusal_cases(rng, thorough):
    import itertools
    out = []
    for n in (1, 2, 3, 4, 5, 6):
        subsets = []
        for r in range(n + 1):
            subsets += [set(x) for x in itertools.combinations(range(n), r)]
        if n >= 5 and not thorough:     # every single position, every all-but-one, none, all, some random
            subsets = [x for x in subsets if len(x) in (0, 1, n - 1, n)] + rng.sample(subsets, 6)
        for refused in subsets:
            causes = CLOSE_CAUSES if (n <= 3 or thorough) else rng.sample(CLOSE_CAUSES, 2)
            for cause in causes:
                for incoming in ((True, False) if (n <= 4 or thorough) else (rng.random() < 0.5,)):
                    answered = rng.randrange(n) if rng.random() < 0.25 else None
                    out.append(close_refusal_case(rng, incoming, n, refused, cause, answered,
                                                  rng.choice(["one", "one", "random", "bytes"])))
    return out


def limit_case(rng, exact):
    peer = "peerctx"
    hs = wire({"k": "hs", "src": [peer], "srv": False})
    target = real_max() if exact else real_max() + 1
    pad = target - 400
    for _ in range(6):
        d = {"k": "oth", "src": [peer, "s1"], "dst": [LOCAL, "o1"], "body": 9, "pad": pad}
        n = len(pickle.dumps(build_msg(d)))
        if n == target:
            break
        pad += target - n
    assert n == target, (n, target)
    tailmsg = wire({"k": "oth", "src": [peer, "s1"], "dst": [LOCAL, "o2"], "body": 4})
    stream = hs + wire(d) + tailmsg
    script = [["send", {"k": "hs", "src": [LOCAL, "$router"], "srv": True}]] + \
        cuts_to_script(len(stream), [len(hs) + 5, len(stream) - len(tailmsg) - 1])
    return {"incoming": True, "peer": peer, "max": None, "rejects": REJECTS, "stream": stream.hex(),
            "script": script, "bucket": "real-limit", "fault": "none" if exact else "len_max1", "seg": "cut"}


# ------------------------------------------------------------------------------------------------
# entry points
# ------------------------------------------------------------------------------------------------

def slim(case):
    """replay object: the case without bulky duplication"""
    return {k: case[k] for k in ("incoming", "peer", "max", "rejects", "stream", "script")}


def public_obs(obs):
    return {"events": [list(e[:2]) for e in obs["events"]], "closed": obs["closed"], "peer": obs["peer"],
            "pending": obs["pending"], "buflen": obs["buflen"], "in_map": obs["in_map"],
            "bystander": obs["bystander"]}


def run(ck):
    ck.theory_dir = THEORY
    ck.build_theory(THEORY)
    ck.trusted = [
        "Coq 8.16.1 kernel (vm_compute evaluates the model on the cases; no native_compute)",
        "hand-written model theories/C06/Model.v of _PeerTcpConnection, tied to /repo by this run's correspondence",
        "python harness c06.py: scripted socket, stub event loop and router, canonicalisation of messages "
        "(error texts, log output, exception classes and the sizes of locally generated replies are not observed; "
        "MAX_MESSAGE_SIZE is read from the code under test)",
        "CPython pickle (round trip on QMI message objects; the model takes unpickling as a table computed with "
        "the real pickle.loads)",
    ]
    ck.assumptions = [
        "pickle.loads + isinstance test is an abstract function deser; theorems about delivered content assume "
        "deser (ser m) = Some m for the messages sent",
        "context names, object ids and request ids are only compared for equality (interned as numbers)",
        "message fields have their declared types (a handshake whose context name is None, which leaves the "
        "connection in the handshake phase, is outside)",
        "MessageRouter.connect_to_peer's check of the name in the handshake is outside; outgoing cases use the "
        "expected name",
        "an error reply sent back to the peer for an undeliverable request fits MAX_MESSAGE_SIZE (true for the "
        "real 10 MB limit; the small-limit boundary cases therefore use a router that accepts everything)",
        "handlers obey the handle_message contract (only QMI_MessageDeliveryException) when an error reply "
        "for a pending request is delivered during close",
    ]
    cases = gen_cases(ck)
    terms, tidx = [], []
    metas = []
    for n, case in enumerate(cases):
        obs = impl_run(case)
        nontrivial = any(e[0] == "deliver" for e in obs["events"]) or obs["closed"]
        ck.note_case((case["stream"], case["script"], case["incoming"], case["max"]), nontrivial)
        ck.count("bucket:" + case["bucket"])
        ck.count("fault:" + case["fault"])
        ck.count("seg:" + case["seg"])
        ck.count("dir:" + ("incoming" if case["incoming"] else "outgoing"))
        ck.count("outcome:" + ("closed" if obs["closed"] else "open"))
        if "refused" in case:
            ck.count("close-refused:" + case["refused"])
        ck.count("refused-error-replies:%d" % min(3, sum(1 for e in obs["events"] if e[0] == "refused")))
        if any(e[0] == "error" for e in obs["events"]):
            ck.count("closed-by-receive-error")
        bad = oracle(case, obs)
        if bad:
            if ck.known_open("oracle:" + bad[0]) is None and not any(v.key == "oracle:" + bad[0] for v in ck.violations):
                sc, so = shrink(case, bad[0])
                bad = oracle(sc, so) or bad
            else:
                sc, so = case, obs
            ck.report("oracle:" + bad[0], "C06 fails on the implementation: " + bad[1],
                      {"case": slim(sc), "impl": public_obs(so)})
        t = coq_case(case, obs)
        if t is None:
            ck.count("model:python-only")
        else:
            terms.append(t)
            tidx.append(n)
            ck.count("model:surrogate-payload-bytes")
        if n % 20 == 7:                      # a sample also with every byte literal
            tl = coq_case(case, obs, literal=True)
            if tl is not None:
                terms.append(tl)
                tidx.append(n)
                ck.count("model:literal-bytes")
        metas.append((case, obs))
    for case, obs in (metas[0], metas[len(metas) // 2], metas[-3]):
        ck.sample({"case": dict(slim(case), stream=case["stream"][:120] + "..."),
                   "impl": {"events": [list(e[:2]) for e in obs["events"]][:8], "closed": obs["closed"]}}, 3)
    bad = ck.run_model("C06.Corr", "check_case", terms, "case", shard=max(60, len(terms) // 32 + 1))
    ck.coverage["correspondence_cases"] = len(terms)
    ck.coverage["correspondence_disagreements"] = len(bad)
    for i in bad[:4]:
        case, obs = metas[tidx[i]]
        why = oracle(case, obs)
        mo = ck.model_eval("C06.Corr", "model_out %s" % coq_case(case, obs))
        ck.report("corr:" + ("oracle-fails" if why else "model-differs"),
                  "implementation and Coq model disagree on a script" +
                  (": " + why[1] if why else " (property oracle passes on it)"),
                  {"case": slim(case), "impl": public_obs(obs), "model_out": mo[-3000:],
                   "broken": "correspondence C06.Corr.check_case"}, found_input=bool(why))
    return ck.finish("structured sweeps (every cut position near headers of a clean stream; every fault kind x "
                     "position x segmentation x direction) + seeded random scripts + small-MAX boundary cases + "
                     "connection loss with 1-6 pending requests x refused requester subsets x cause + "
                     "large payloads (python oracle only); non-trivial = something delivered or connection closed; "
                     "distinct by content hash of (stream, script, direction, max)")


def shrink(case, key):
    """merge chunks / drop script ops while the oracle still fails in the same way"""
    def failing(c):
        try:
            o = impl_run(c)
            b = oracle(c, o)
            return o if (b and b[0] == key) else None
        except Exception:
            return None
    if len(case["stream"]) > 40000:
        return case, impl_run(case)
    obs = failing(case)
    if obs is None:
        return case, impl_run(case)
    cur = dict(case)
    total = sum(op[1] for op in cur["script"] if op[0] == "recv")
    merged, done = [], False
    for op in cur["script"]:
        if op[0] == "recv":
            if not done:
                merged.append(["recv", total])
                done = True
        else:
            merged.append(op)
    t = dict(cur, script=merged)
    o = failing(t)
    if o:
        cur, obs = t, o
    i = 1
    while i < len(cur["script"]):
        if cur["script"][i][0] != "recv":
            t = dict(cur, script=cur["script"][:i] + cur["script"][i + 1:])
            o = failing(t)
            if o:
                cur, obs = t, o
                continue
        i += 1
    return cur, obs


def replay(rep):
    case = rep["case"]["case"] if "case" in rep["case"] else rep["case"]
    obs = impl_run(case)
    print("implementation:", public_obs(obs))
    bad = oracle(case, obs)
    print("oracle:", bad[1] if bad else "property holds on this script")
    return 1 if bad else 0
