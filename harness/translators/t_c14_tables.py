"""C14 translator: regenerate the transport parser tables, the dispatch of create_transport and the
constructor signatures it feeds into coq/gen/C14Tables.v, from the tree under test ($QMI_REPO).

What is read, and from where (robust against behaviour-preserving rewrites of the source text):

  * the parser tables           - from the LIVE objects: every module-level instance of
                                  TransportDescriptorParser in qmi.core.transport (interface name,
                                  positional specs, keyword specs with type and required flag);
  * constructor signatures      - inspect.signature of the live classes;
  * QMI_Context.DEFAULT_UDP_RESPONDER_PORT - the live attribute;
  * which parser and which class create_transport uses for an interface - found BEHAVIOURALLY: the real
                                  create_transport is called on "<interface>:x" while every parser's
                                  parse_parameter_strings is replaced by a recorder returning {} and
                                  every QMI_Transport subclass's __init__ by a recorder that raises a
                                  private BaseException; outcome = (parser asked, class constructed) or
                                  QMI_TransportDescriptorException (interface not available here).
  No syntactic shape of create_transport, of the table definitions or of any helper is demanded.

Keyword tables and constructor signatures are emitted in NAME order (they are only ever looked up by
name, their order in the source carries no meaning); positionals keep their order (it is the meaning).

Fail-closed (TranslationError = broken tie) only where the live view cannot be expressed in the model:
a parameter type other than str/int/float/bool, a non-ASCII/odd name, a constructor with *args /
**kwargs / keyword-only parameters or a default that is not None/bool/int/float/str, a constructed
class the model has no validation for, a probe that ends in anything but the two outcomes above.

The older purely syntactic reader (python ast) is kept as `translate_syntax`; it tolerates statements
that cannot affect the tables (logging calls, docstrings, pass, assert, bare annotations) around and
inside the dispatch and `if ...: return` sequences as well as elif chains.  It is used only as an
informational cross-check (`syntax_crosscheck`), never as a verdict.
"""
import ast
import os
import struct

TYPES = {"str": "TStr", "int": "TInt", "float": "TFloat", "bool": "TBool"}
KINDS = {"QMI_SerialTransport": "KSerial", "QMI_TcpTransport": "KTcp", "QMI_UdpTransport": "KUdp",
         "QMI_PyUsbTmcTransport": "KUsbTmc", "QMI_Vxi11Transport": "KVxi11"}


class TranslationError(Exception):
    pass


def bail(node, msg):
    raise TranslationError("transport.py line %s: %s" % (getattr(node, "lineno", "?"), msg))


def _name_ok(s, node):
    if not isinstance(s, str) or not s or not s.isascii() or not all(32 <= ord(c) < 127 for c in s) or '"' in s:
        bail(node, "parameter/interface name %r is not a plain ASCII string" % (s,))
    return s


def _const(node, ty=None):
    if not isinstance(node, ast.Constant):
        bail(node, "expected a literal, found %s" % ast.dump(node)[:80])
    if ty is not None and type(node.value) is not ty:
        bail(node, "expected a %s literal, found %r" % (ty.__name__, node.value))
    return node.value


def _type_flag(node):
    if not (isinstance(node, ast.Tuple) and len(node.elts) == 2):
        bail(node, "expected (type, required)")
    t, r = node.elts
    if not (isinstance(t, ast.Name) and t.id in TYPES):
        bail(node, "unrecognised parameter type %s" % ast.dump(t)[:60])
    return TYPES[t.id], _const(r, bool)


def _table(call):
    if call.keywords or len(call.args) != 3:
        bail(call, "TransportDescriptorParser(...) must have exactly three positional arguments")
    iface = _name_ok(_const(call.args[0], str), call)
    pos, kw = [], []
    if not isinstance(call.args[1], ast.List):
        bail(call, "positionals must be a list literal")
    for e in call.args[1].elts:
        if not (isinstance(e, ast.Tuple) and len(e.elts) == 2):
            bail(e, "positional entry must be (name, (type, required))")
        pos.append((_name_ok(_const(e.elts[0], str), e),) + _type_flag(e.elts[1]))
    if not isinstance(call.args[2], ast.Dict):
        bail(call, "keywords must be a dict literal")
    for k, v in zip(call.args[2].keys, call.args[2].values):
        if k is None:
            bail(call, "dict unpacking in keywords")
        kw.append((_name_ok(_const(k, str), k),) + _type_flag(v))
    return {"iface": iface, "pos": pos, "kw": kw}


def _is_name(n, name):
    return isinstance(n, ast.Name) and n.id == name


def _class_consts(cls):
    out = {}
    for st in cls.body:
        if isinstance(st, ast.Assign) and len(st.targets) == 1 and isinstance(st.targets[0], ast.Name) \
                and isinstance(st.value, ast.Constant):
            out[st.targets[0].id] = st.value.value
    return out


def _ctor(classes, clsname, node):
    seen = set()
    cur = clsname
    while True:
        if cur in seen or cur not in classes:
            bail(node, "cannot resolve constructor of class %s" % clsname)
        seen.add(cur)
        cls = classes[cur]
        init = [f for f in cls.body if isinstance(f, ast.FunctionDef) and f.name == "__init__"]
        if len(init) > 1:
            bail(cls, "several __init__ in %s" % cur)
        if init:
            break
        if len(cls.bases) != 1 or not isinstance(cls.bases[0], ast.Name):
            bail(cls, "class %s has no __init__ and no single plain base" % cur)
        cur = cls.bases[0].id
    f = init[0]
    a = f.args
    if a.vararg or a.kwarg or a.kwonlyargs or a.posonlyargs or f.decorator_list:
        bail(f, "%s.__init__ uses *args/**kwargs/keyword-only/positional-only/decorators" % cur)
    if not a.args or a.args[0].arg != "self":
        bail(f, "%s.__init__ without self" % cur)
    params = [x.arg for x in a.args[1:]]
    ndef = len(a.defaults)
    if ndef > len(params):
        bail(f, "default for self")
    consts = _class_consts(cls)
    out = []
    for i, p in enumerate(params):
        j = i - (len(params) - ndef)
        if j < 0:
            out.append((_name_ok(p, f), None))
            continue
        d = a.defaults[j]
        if isinstance(d, ast.Constant):
            v = d.value
        elif isinstance(d, ast.Name) and d.id in consts:
            v = consts[d.id]
        elif isinstance(d, ast.UnaryOp) and isinstance(d.op, ast.USub) and isinstance(d.operand, ast.Constant) \
                and type(d.operand.value) in (int, float):
            v = -d.operand.value
        else:
            bail(d, "unrecognised default for %s.__init__(%s)" % (cur, p))
        if not (v is None or type(v) in (int, float, str, bool)):
            bail(d, "default of unsupported type %r" % (v,))
        if isinstance(v, str) and not v.isascii():
            bail(d, "non-ASCII string default")
        out.append((_name_ok(p, f), ("some", v)))
    return out


def _branch(stmts, node):
    """[ImportFrom]? (Return Call(Name C, **attributes) | Raise QMI_TransportDescriptorException)"""
    stmts = list(stmts)
    module = None
    if stmts and isinstance(stmts[0], ast.ImportFrom):
        imp = stmts.pop(0)
        if imp.level != 0 or len(imp.names) != 1 or imp.names[0].asname:
            bail(imp, "unrecognised import")
        module = (imp.module, imp.names[0].name)
    if len(stmts) != 1:
        bail(node, "branch must end in exactly one return/raise")
    st = stmts[0]
    if isinstance(st, ast.Raise):
        c = st.exc
        if not (isinstance(c, ast.Call) and _is_name(c.func, "QMI_TransportDescriptorException")) or st.cause:
            bail(st, "raise of something other than QMI_TransportDescriptorException")
        return ("raise", None, None)
    if isinstance(st, ast.Return) and isinstance(st.value, ast.Call):
        c = st.value
        if isinstance(c.func, ast.Name) and not c.args and len(c.keywords) == 1 and c.keywords[0].arg is None \
                and _is_name(c.keywords[0].value, "attributes"):
            if module is not None and module[1] != c.func.id:
                bail(st, "imported class differs from constructed class")
            return ("class", c.func.id, module[0] if module else None)
    bail(st, "unrecognised statement in create_transport branch")


def _is_win_test(t):
    # sys.platform.lower().startswith("win")
    try:
        return (isinstance(t, ast.Call) and t.func.attr == "startswith" and _const(t.args[0], str) == "win"
                and len(t.args) == 1 and not t.keywords
                and isinstance(t.func.value, ast.Call) and t.func.value.func.attr == "lower"
                and not t.func.value.args
                and isinstance(t.func.value.func.value, ast.Attribute) and t.func.value.func.value.attr == "platform"
                and _is_name(t.func.value.func.value.value, "sys"))
    except (AttributeError, IndexError):
        return False


def _harmless(st):
    """statements that cannot change which parser/class is used: docstrings, logging, pass, assert, bare annotations"""
    if isinstance(st, (ast.Pass, ast.Assert)):
        return True
    if isinstance(st, ast.AnnAssign) and st.value is None:
        return True
    if isinstance(st, ast.Expr):
        v = st.value
        if isinstance(v, ast.Constant):
            return True
        if isinstance(v, ast.Call):
            f = v.func
            while isinstance(f, ast.Attribute):
                f = f.value
            return isinstance(f, ast.Name) and f.id in ("_logger", "logging", "logger", "warnings")
    return False


def _clean(stmts):
    return [s for s in stmts if not _harmless(s)]


def _dispatch(fn):
    a = fn.args
    if [x.arg for x in a.args] != ["transport_descriptor", "default_attributes"] or a.vararg or a.kwarg \
            or a.kwonlyargs or a.posonlyargs or fn.decorator_list:
        bail(fn, "create_transport signature changed")
    stmts = _clean(fn.body)
    out = []
    # an if/elif chain, or a sequence of `if ...: ... return`, or a mix; then the final raise
    while stmts and isinstance(stmts[0], ast.If):
        node = stmts[0]
        t = node.test
        if not (isinstance(t, ast.Call) and isinstance(t.func, ast.Attribute) and t.func.attr == "match_interface"
                and isinstance(t.func.value, ast.Name) and len(t.args) == 1 and not t.keywords
                and _is_name(t.args[0], "transport_descriptor")):
            bail(node, "unrecognised dispatch test")
        pname = t.func.value.id
        b = _clean(node.body)
        if not b:
            bail(node, "empty branch")
        s0 = b.pop(0)
        ok = (isinstance(s0, ast.Assign) and len(s0.targets) == 1 and _is_name(s0.targets[0], "attributes")
              and isinstance(s0.value, ast.Call) and isinstance(s0.value.func, ast.Attribute)
              and s0.value.func.attr == "parse_parameter_strings" and _is_name(s0.value.func.value, pname)
              and len(s0.value.args) == 2 and not s0.value.keywords
              and _is_name(s0.value.args[0], "transport_descriptor")
              and _is_name(s0.value.args[1], "default_attributes"))
        if not ok:
            bail(s0, "branch does not start with attributes = %s.parse_parameter_strings(...)" % pname)
        if len(b) == 1 and isinstance(b[0], ast.If):
            if not _is_win_test(b[0].test) or not b[0].orelse:
                bail(b[0], "unrecognised platform test")
            win = _branch(_clean(b[0].body), b[0])
            other = _branch(_clean(b[0].orelse), b[0])
        else:
            win = other = _branch(b, node)
        out.append((pname, other, win))
        if node.orelse:
            if len(stmts) > 1:
                bail(stmts[1], "statements after an if/else in create_transport")
            stmts = _clean(node.orelse)
        else:
            stmts = stmts[1:]
    if not out or _branch(stmts, fn)[0] != "raise":
        bail(fn, "create_transport does not end in raise QMI_TransportDescriptorException")
    return out


def _classes_of(path):
    import alpha   # the text as the harness sees it (private names renamed back when the tree renamed them consistently)
    tree = ast.parse(alpha.source_text(path), path)
    return {n.name: n for n in tree.body if isinstance(n, ast.ClassDef)}, tree


def translate_syntax(repo):
    core = os.path.join(repo, "qmi", "core")
    classes, tree = _classes_of(os.path.join(core, "transport.py"))
    tables = {}
    for node in ast.walk(tree):
        if isinstance(node, ast.Call) and _is_name(node.func, "TransportDescriptorParser"):
            node._c14_seen = False
    for st in tree.body:
        if isinstance(st, ast.Assign) and isinstance(st.value, ast.Call) \
                and _is_name(st.value.func, "TransportDescriptorParser"):
            if len(st.targets) != 1 or not isinstance(st.targets[0], ast.Name):
                bail(st, "parser table assigned to something other than one name")
            if st.targets[0].id in tables:
                bail(st, "parser table %s defined twice" % st.targets[0].id)
            tables[st.targets[0].id] = _table(st.value)
            st.value._c14_seen = True
    for node in ast.walk(tree):
        if isinstance(node, ast.Call) and _is_name(node.func, "TransportDescriptorParser") and not node._c14_seen:
            bail(node, "TransportDescriptorParser(...) outside a module-level `NAME = ...`")
    # a rebinding of a table name anywhere else would invalidate the table
    for node in ast.walk(tree):
        if isinstance(node, (ast.Assign, ast.AugAssign, ast.AnnAssign)):
            tg = node.targets if isinstance(node, ast.Assign) else [node.target]
            for t in tg:
                if isinstance(t, ast.Name) and t.id in tables and not getattr(getattr(node, "value", None), "_c14_seen", False):
                    bail(node, "parser table %s is rebound" % t.id)
                if isinstance(t, ast.Attribute) and isinstance(t.value, ast.Name) and t.value.id in tables:
                    bail(node, "attribute of parser table %s is assigned" % t.value.id)
    fns = [n for n in tree.body if isinstance(n, ast.FunctionDef) and n.name == "create_transport"]
    if len(fns) != 1:
        raise TranslationError("create_transport not found exactly once")
    disp = _dispatch(fns[0])
    used = [p for p, _, _ in disp]
    if sorted(used) != sorted(tables) or len(set(used)) != len(used):
        raise TranslationError("parser tables %s and dispatched parsers %s differ" % (sorted(tables), used))
    # UDP responder port
    cclasses, _ = _classes_of(os.path.join(core, "context.py"))
    if "QMI_Context" not in cclasses:
        raise TranslationError("QMI_Context not found")
    cc = _class_consts(cclasses["QMI_Context"])
    rp = cc.get("DEFAULT_UDP_RESPONDER_PORT")
    if type(rp) is not int:
        raise TranslationError("QMI_Context.DEFAULT_UDP_RESPONDER_PORT is not an int literal")
    entries = []
    for pname, other, win in disp:
        what, cls, module = other
        if what == "raise":
            kind = "KUnavailable"
            ctor = []
            clsname = None
        else:
            if cls not in KINDS:
                raise TranslationError("create_transport constructs unknown class %s" % cls)
            kind = KINDS[cls]
            pool = classes
            if module is not None:
                if not module.startswith("qmi.core."):
                    raise TranslationError("class %s imported from unexpected module %s" % (cls, module))
                pool, _ = _classes_of(os.path.join(core, module.split(".")[-1] + ".py"))
                pool = dict(classes, **pool)
            ctor = _ctor(pool, cls, fns[0])
            clsname = cls
        entries.append({"parser": pname, "table": tables[pname], "kind": kind, "class": clsname, "ctor": ctor})
    return {"entries": entries, "responder_port": rp}


# ---- live view ------------------------------------------------------------------------------
LIVE_TYPES = {str: "TStr", int: "TInt", float: "TFloat", bool: "TBool"}
_MISSING = object()


class _Probe(BaseException):
    """raised by the recording constructors; BaseException so that no `except Exception` swallows it"""


def _live_table(name, p):
    try:
        iface, pos, kw = p.interface, list(p._positionals), dict(p._keywords)
    except Exception as e:  # noqa
        raise TranslationError("parser %s: cannot read interface/_positionals/_keywords (%s)" % (name, e))

    def spec(n, s, where):
        if not (isinstance(s, tuple) and len(s) == 2 and type(s[1]) is bool):
            raise TranslationError("parser %s: %s spec of %r is not (type, required): %r" % (name, where, n, s))
        if s[0] not in LIVE_TYPES:
            raise TranslationError("parser %s: %s %r has a type the model does not know: %r" % (name, where, n, s[0]))
        return (_name_ok(n, None), LIVE_TYPES[s[0]], s[1])
    out_pos = []
    for item in pos:
        if not (isinstance(item, tuple) and len(item) == 2):
            raise TranslationError("parser %s: positional entry %r is not (name, spec)" % (name, item))
        out_pos.append(spec(item[0], item[1], "positional"))
    out_kw = sorted(spec(n, s, "keyword") for n, s in kw.items())
    return {"iface": _name_ok(iface, None), "pos": out_pos, "kw": out_kw}


def _all_subclasses(c):
    out, todo = [], [c]
    while todo:
        x = todo.pop()
        for s in x.__subclasses__():
            if s not in out:
                out.append(s)
                todo.append(s)
    return out


def _live_ctor(cls):
    import inspect
    try:
        sig = inspect.signature(cls.__init__)
    except (TypeError, ValueError) as e:
        raise TranslationError("cannot read the signature of %s.__init__: %s" % (cls.__name__, e))
    params = list(sig.parameters.values())[1:]
    out = []
    for q in params:
        if q.kind is not inspect.Parameter.POSITIONAL_OR_KEYWORD:
            raise TranslationError("%s.__init__ has a %s parameter (%s)" % (cls.__name__, q.kind, q.name))
        if q.default is inspect.Parameter.empty:
            out.append((_name_ok(q.name, None), None))
        else:
            v = q.default
            if not (v is None or type(v) in (int, float, str, bool)) or (isinstance(v, str) and not v.isascii()):
                raise TranslationError("%s.__init__(%s=%r): default of unsupported type" % (cls.__name__, q.name, v))
            out.append((_name_ok(q.name, None), ("some", v)))
    return sorted(out, key=lambda x: x[0])


def _probe_dispatch(T, parsers, exc_cls):
    """-> {interface: (parser name or None, class or None)} for every interface some parser claims"""
    classes = _all_subclasses(T.QMI_Transport)
    saved = {}
    asked = []

    def recorder_init(self, *a, **k):
        raise _Probe(type(self), a, k)
    result = {}
    try:
        for c in classes:
            saved[c] = c.__dict__.get("__init__", _MISSING)
            c.__init__ = recorder_init
        for name, p in parsers:
            def mk(name):
                def parse_parameter_strings(*a, **k):
                    asked.append(name)
                    return {}
                return parse_parameter_strings
            p.parse_parameter_strings = mk(name)      # instance attribute shadows the method
        for iface in dict.fromkeys(p.interface for _, p in parsers):
            del asked[:]
            try:
                r = T.create_transport(iface + ":x", None)
            except _Probe as e:
                cls, a, k = e.args
                if a or k:
                    raise TranslationError("create_transport(%r): constructor got arguments %r %r from an empty "
                                           "attribute dict" % (iface, a, k))
                outcome = cls
            except exc_cls:
                outcome = None
            except BaseException as e:  # noqa
                raise TranslationError("create_transport(%r:x) under the dispatch probe raised %s: %s"
                                       % (iface, type(e).__name__, e))
            else:
                raise TranslationError("create_transport(%r:x) under the dispatch probe returned %r without "
                                       "constructing a QMI_Transport" % (iface, r))
            if len(asked) > 1:
                raise TranslationError("create_transport(%r:x) asked several parsers: %s" % (iface, asked))
            if outcome is not None and not asked:
                raise TranslationError("create_transport(%r:x) constructed %s without asking a parser"
                                       % (iface, outcome.__name__))
            result[iface] = (asked[0] if asked else None, outcome)
    finally:
        for _, p in parsers:
            p.__dict__.pop("parse_parameter_strings", None)
        for c, old in saved.items():
            if old is _MISSING:
                try:
                    del c.__init__
                except AttributeError:
                    pass
            else:
                c.__init__ = old
    return result


def translate(repo):
    """The live view of the tree under test (which must be the one `import qmi` resolves to)."""
    import importlib
    try:
        T = importlib.import_module("qmi.core.transport")
        ctx = importlib.import_module("qmi.core.context")
        exc = importlib.import_module("qmi.core.exceptions").QMI_TransportDescriptorException
    except Exception as e:  # noqa
        raise TranslationError("cannot import qmi.core.transport: %s: %s" % (type(e).__name__, e))
    if not os.path.realpath(T.__file__).startswith(os.path.realpath(repo) + os.sep):
        raise TranslationError("qmi.core.transport is loaded from %s, not from %s" % (T.__file__, repo))
    for m in ("qmi.core.transport_usbtmc_pyusb",):     # classes create_transport imports lazily
        try:
            importlib.import_module(m)
        except Exception:  # noqa
            pass
    P = getattr(T, "TransportDescriptorParser", None)
    if not isinstance(P, type) or not hasattr(T, "create_transport") or not hasattr(T, "QMI_Transport"):
        raise TranslationError("TransportDescriptorParser / create_transport / QMI_Transport not found")
    parsers = [(n, o) for n, o in vars(T).items() if isinstance(o, P)]
    if not parsers:
        raise TranslationError("no TransportDescriptorParser instance at module level")
    tables = {n: _live_table(n, o) for n, o in parsers}
    rp = getattr(getattr(ctx, "QMI_Context", None), "DEFAULT_UDP_RESPONDER_PORT", None)
    if type(rp) is not int:
        raise TranslationError("QMI_Context.DEFAULT_UDP_RESPONDER_PORT is not an int")
    disp = _probe_dispatch(T, parsers, exc)
    entries, undispatched = [], []
    by_iface = {}
    for n, o in parsers:
        by_iface.setdefault(o.interface, n)     # the first parser claiming an interface (module order)
    for iface, (pname, cls) in disp.items():
        pname = pname or by_iface[iface]
        if cls is None:
            kind, ctor, clsname = "KUnavailable", [], None
        else:
            if cls.__name__ not in KINDS:
                raise TranslationError("create_transport constructs class %s, which the model has no validation for"
                                       % cls.__name__)
            kind, ctor, clsname = KINDS[cls.__name__], _live_ctor(cls), cls.__name__
        entries.append({"parser": pname, "table": tables[pname], "kind": kind, "class": clsname, "ctor": ctor})
    used = {e["parser"] for e in entries}
    extra = [{"parser": n, "table": tables[n]} for n, _ in parsers if n not in used]
    return {"entries": entries, "responder_port": rp, "undispatched": extra}


def _view(tr):
    return {e["table"]["iface"]: (e["table"]["pos"] and [list(x) for x in e["table"]["pos"]],
                                   sorted(list(x) for x in e["table"]["kw"]), e["kind"],
                                   sorted((n, None if d is None else d[1]) for n, d in e["ctor"]))
            for e in tr["entries"]}


def syntax_crosscheck(tr, repo):
    """Informational: does the purely syntactic reading of transport.py give the same tables/dispatch?"""
    try:
        s = translate_syntax(repo)
    except (TranslationError, SyntaxError, OSError) as e:
        return "not available (source shape not recognised by the syntactic reader: %s)" % e
    a, b = _view(tr), _view(s)
    return "agrees" if a == b else "differs: live %r / syntactic %r" % (
        {k: v for k, v in a.items() if b.get(k) != v}, {k: v for k, v in b.items() if a.get(k) != v})


# ---- Coq emission ---------------------------------------------------------------------------

def _cstr(s):
    return '(str_of "%s")' % s


def _cval(v):
    if v is None:
        return "VNone"
    if type(v) is bool:
        return "(VBool %s)" % ("true" if v else "false")
    if type(v) is int:
        return "(VInt (%d)%%Z)" % v
    if type(v) is float:
        return "(VFloat %d%%N)" % struct.unpack(">Q", struct.pack(">d", v))[0]
    return "(VStr %s)" % _cstr(v)


def _cparam(p):
    return "(%s, %s, %s)" % (_cstr(p[0]), p[1], "true" if p[2] else "false")


def ident(iface):
    return "".join(c if c.isalnum() else "_" for c in iface)


def emit(tr, repo, with_proofs=True, with_wf=True):
    L = ["(* GENERATED on every run by harness/translators/t_c14_tables.py from the live parser objects,",
         "   constructor signatures and dispatch of %s/qmi/core/transport.py -- do not edit, never committed." % repo,
         "   Keyword tables and constructor signatures are in name order. *)",
         "Require Import QV.C14.Model%s." % (" QV.C14.Proofs" if with_proofs else ""),
         "Open Scope N_scope.", ""]
    obligations = []
    names = []
    seen = set()
    for e in tr["entries"]:
        t = e["table"]
        i = ident(t["iface"])
        while i in seen:
            i += "'"
        seen.add(i)
        names.append(i)
        kind = e["kind"] if e["kind"] != "KUdp" else "(KUdp (%d)%%Z)" % tr["responder_port"]
        L.append("(* %s -> %s *)" % (e["parser"], e["class"] or "raises (not available on this platform)"))
        L.append("Definition tbl_%s : table := mkTable %s\n  [%s]\n  [%s]." % (
            i, _cstr(t["iface"]), "; ".join(_cparam(p) for p in t["pos"]), "; ".join(_cparam(p) for p in t["kw"])))
        L.append("Definition ent_%s : entry := mkEntry tbl_%s %s\n  [%s]." % (
            i, i, kind, "; ".join("(%s, %s)" % (_cstr(n), "None" if d is None else "Some " + _cval(d[1]))
                                  for n, d in e["ctor"])))
        if with_wf:
            L.append("Lemma C14gen_wf_%s : entry_wf ent_%s = true.\nProof. vm_compute. reflexivity. Qed." % (i, i))
            obligations.append("C14gen_wf_%s" % i)
        L.append("")
    for x in tr.get("undispatched", []):
        t = x["table"]
        i = ident(t["iface"])
        while i in seen:
            i += "'"
        seen.add(i)
        L.append("(* %s: no interface of create_transport leads to this parser *)" % x["parser"])
        L.append("Definition tbl_%s : table := mkTable %s\n  [%s]\n  [%s]." % (
            i, _cstr(t["iface"]), "; ".join(_cparam(p) for p in t["pos"]), "; ".join(_cparam(p) for p in t["kw"])))
    L.append("(* the interfaces create_transport serves *)")
    L.append("Definition entries : list entry := [%s]." % "; ".join("ent_" + n for n in names))
    if with_wf:
        L.append("Lemma C14gen_entries_wf : entries_wf entries = true.\nProof. vm_compute. reflexivity. Qed.")
        obligations.append("C14gen_entries_wf")
    L.append("Definition ctor_consistency : list (str * bool) := map (fun e => (t_iface (e_tbl e), ctor_consistent e)) entries.")
    if with_proofs:
        for e, n in zip(tr["entries"], names):
            if e["kind"] == "KUsbTmc":
                L.append("")
                L.append("(* the descriptors list_resources produces parse back, for THIS table and constructor *)")
                L.append("Lemma C14gen_roundtrip_%s : usbtmc_shape ent_%s = true.\nProof. vm_compute. reflexivity. Qed." % (n, n))
                obligations.append("C14gen_roundtrip_%s" % n)
                L.append("Lemma C14gen_found_%s : find_entry entries (t_iface tbl_%s) = Some ent_%s.\nProof. vm_compute. reflexivity. Qed." % (n, n, n))
                obligations.append("C14gen_found_%s" % n)
            if e["kind"] in ("KTcp", "KUdp", "KVxi11"):
                L.append("Lemma C14gen_hostfirst_%s : host_first ent_%s = true.\nProof. vm_compute. reflexivity. Qed." % (n, n))
                obligations.append("C14gen_hostfirst_%s" % n)
    L.append("")
    return "\n".join(L), obligations


def run(repo, out_path, with_proofs=True, with_wf=True):
    """Translate and write out_path.  Returns (translation, obligation names)."""
    tr = translate(repo)
    text, obligations = emit(tr, repo, with_proofs, with_wf)
    os.makedirs(os.path.dirname(out_path), exist_ok=True)
    tmp = out_path + ".tmp%d" % os.getpid()
    with open(tmp, "w") as f:
        f.write(text)
    os.replace(tmp, out_path)
    return tr, obligations


if __name__ == "__main__":
    import json
    import sys
    r = sys.argv[1] if len(sys.argv) > 1 else os.environ.get("QMI_REPO", "/repo")
    sys.path.insert(0, os.path.dirname(os.path.dirname(os.path.abspath(__file__))))
    os.environ["QMI_REPO"] = r
    import common
    common.setup_repo_import()
    tr = translate(r)
    print(json.dumps(tr, indent=1, default=repr))
    print("syntactic cross-check:", syntax_crosscheck(tr, r))
