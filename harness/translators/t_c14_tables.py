"""C14 translator: regenerate the transport parser tables, the dispatch of create_transport and the
constructor signatures it feeds from $QMI_REPO/qmi/core/transport.py into coq/gen/C14Tables.v.

Fail-closed: every construct outside the shapes recognised below raises TranslationError; the
caller reports that as a broken tie.  Nothing is imported from the repository: python `ast` only.

Recognised shapes
  * module level   NAME = TransportDescriptorParser("iface", [("p", (TYPE, BOOL)), ...], {"k": (TYPE, BOOL), ...})
                   with TYPE one of the names str/int/float/bool and BOOL a literal;
  * create_transport(transport_descriptor, default_attributes): docstring, then one if/elif chain;
       test   NAME.match_interface(transport_descriptor)
       body   attributes = NAME.parse_parameter_strings(transport_descriptor, default_attributes)
              then  return CLS(**attributes)
              or    if sys.platform.lower().startswith("win"): <windows branch> else: <branch>
                    where a branch is [from MODULE import CLS] + (return CLS(**attributes) | raise QMI_TransportDescriptorException(...))
       final else: raise QMI_TransportDescriptorException(...)
     The non-Windows branch is the one translated (the harness asserts it runs on such a platform).
  * CLS.__init__(self, a, b=<literal or class-level constant>, ...) without *args / **kwargs / keyword-only.
  * QMI_Context.DEFAULT_UDP_RESPONDER_PORT = <int literal> in qmi/core/context.py.
"""
import ast
import os
import struct

TYPES = {"str": "TStr", "int": "TInt", "float": "TFloat", "bool": "TBool"}
KINDS = {"QMI_SerialTransport": "KSerial", "QMI_TcpTransport": "KTcp", "QMI_UdpTransport": "KUdp",
         "QMI_PyUsbTmcTransport": "KUsbTmc", "QMI_Vxi11Transport": "KVxi11"}


class TranslationError(Exception):
    pass


def bail(node, msg):
    raise TranslationError("transport.py line %s: %s" % (getattr(node, "lineno", "?"), msg))


def _name_ok(s, node):
    if not isinstance(s, str) or not s or not s.isascii() or not all(32 <= ord(c) < 127 for c in s) or '"' in s:
        bail(node, "parameter/interface name %r is not a plain ASCII string" % (s,))
    return s


def _const(node, ty=None):
    if not isinstance(node, ast.Constant):
        bail(node, "expected a literal, found %s" % ast.dump(node)[:80])
    if ty is not None and type(node.value) is not ty:
        bail(node, "expected a %s literal, found %r" % (ty.__name__, node.value))
    return node.value


def _type_flag(node):
    if not (isinstance(node, ast.Tuple) and len(node.elts) == 2):
        bail(node, "expected (type, required)")
    t, r = node.elts
    if not (isinstance(t, ast.Name) and t.id in TYPES):
        bail(node, "unrecognised parameter type %s" % ast.dump(t)[:60])
    return TYPES[t.id], _const(r, bool)


def _table(call):
    if call.keywords or len(call.args) != 3:
        bail(call, "TransportDescriptorParser(...) must have exactly three positional arguments")
    iface = _name_ok(_const(call.args[0], str), call)
    pos, kw = [], []
    if not isinstance(call.args[1], ast.List):
        bail(call, "positionals must be a list literal")
    for e in call.args[1].elts:
        if not (isinstance(e, ast.Tuple) and len(e.elts) == 2):
            bail(e, "positional entry must be (name, (type, required))")
        pos.append((_name_ok(_const(e.elts[0], str), e),) + _type_flag(e.elts[1]))
    if not isinstance(call.args[2], ast.Dict):
        bail(call, "keywords must be a dict literal")
    for k, v in zip(call.args[2].keys, call.args[2].values):
        if k is None:
            bail(call, "dict unpacking in keywords")
        kw.append((_name_ok(_const(k, str), k),) + _type_flag(v))
    return {"iface": iface, "pos": pos, "kw": kw}


def _is_name(n, name):
    return isinstance(n, ast.Name) and n.id == name


def _class_consts(cls):
    out = {}
    for st in cls.body:
        if isinstance(st, ast.Assign) and len(st.targets) == 1 and isinstance(st.targets[0], ast.Name) \
                and isinstance(st.value, ast.Constant):
            out[st.targets[0].id] = st.value.value
    return out


def _ctor(classes, clsname, node):
    seen = set()
    cur = clsname
    while True:
        if cur in seen or cur not in classes:
            bail(node, "cannot resolve constructor of class %s" % clsname)
        seen.add(cur)
        cls = classes[cur]
        init = [f for f in cls.body if isinstance(f, ast.FunctionDef) and f.name == "__init__"]
        if len(init) > 1:
            bail(cls, "several __init__ in %s" % cur)
        if init:
            break
        if len(cls.bases) != 1 or not isinstance(cls.bases[0], ast.Name):
            bail(cls, "class %s has no __init__ and no single plain base" % cur)
        cur = cls.bases[0].id
    f = init[0]
    a = f.args
    if a.vararg or a.kwarg or a.kwonlyargs or a.posonlyargs or f.decorator_list:
        bail(f, "%s.__init__ uses *args/**kwargs/keyword-only/positional-only/decorators" % cur)
    if not a.args or a.args[0].arg != "self":
        bail(f, "%s.__init__ without self" % cur)
    params = [x.arg for x in a.args[1:]]
    ndef = len(a.defaults)
    if ndef > len(params):
        bail(f, "default for self")
    consts = _class_consts(cls)
    out = []
    for i, p in enumerate(params):
        j = i - (len(params) - ndef)
        if j < 0:
            out.append((_name_ok(p, f), None))
            continue
        d = a.defaults[j]
        if isinstance(d, ast.Constant):
            v = d.value
        elif isinstance(d, ast.Name) and d.id in consts:
            v = consts[d.id]
        elif isinstance(d, ast.UnaryOp) and isinstance(d.op, ast.USub) and isinstance(d.operand, ast.Constant) \
                and type(d.operand.value) in (int, float):
            v = -d.operand.value
        else:
            bail(d, "unrecognised default for %s.__init__(%s)" % (cur, p))
        if not (v is None or type(v) in (int, float, str, bool)):
            bail(d, "default of unsupported type %r" % (v,))
        if isinstance(v, str) and not v.isascii():
            bail(d, "non-ASCII string default")
        out.append((_name_ok(p, f), ("some", v)))
    return out


def _branch(stmts, node):
    """[ImportFrom]? (Return Call(Name C, **attributes) | Raise QMI_TransportDescriptorException)"""
    stmts = list(stmts)
    module = None
    if stmts and isinstance(stmts[0], ast.ImportFrom):
        imp = stmts.pop(0)
        if imp.level != 0 or len(imp.names) != 1 or imp.names[0].asname:
            bail(imp, "unrecognised import")
        module = (imp.module, imp.names[0].name)
    if len(stmts) != 1:
        bail(node, "branch must end in exactly one return/raise")
    st = stmts[0]
    if isinstance(st, ast.Raise):
        c = st.exc
        if not (isinstance(c, ast.Call) and _is_name(c.func, "QMI_TransportDescriptorException")) or st.cause:
            bail(st, "raise of something other than QMI_TransportDescriptorException")
        return ("raise", None, None)
    if isinstance(st, ast.Return) and isinstance(st.value, ast.Call):
        c = st.value
        if isinstance(c.func, ast.Name) and not c.args and len(c.keywords) == 1 and c.keywords[0].arg is None \
                and _is_name(c.keywords[0].value, "attributes"):
            if module is not None and module[1] != c.func.id:
                bail(st, "imported class differs from constructed class")
            return ("class", c.func.id, module[0] if module else None)
    bail(st, "unrecognised statement in create_transport branch")


def _is_win_test(t):
    # sys.platform.lower().startswith("win")
    try:
        return (isinstance(t, ast.Call) and t.func.attr == "startswith" and _const(t.args[0], str) == "win"
                and len(t.args) == 1 and not t.keywords
                and isinstance(t.func.value, ast.Call) and t.func.value.func.attr == "lower"
                and not t.func.value.args
                and isinstance(t.func.value.func.value, ast.Attribute) and t.func.value.func.value.attr == "platform"
                and _is_name(t.func.value.func.value.value, "sys"))
    except (AttributeError, IndexError):
        return False


def _dispatch(fn):
    a = fn.args
    if [x.arg for x in a.args] != ["transport_descriptor", "default_attributes"] or a.vararg or a.kwarg \
            or a.kwonlyargs or a.posonlyargs or fn.decorator_list:
        bail(fn, "create_transport signature changed")
    body = list(fn.body)
    if body and isinstance(body[0], ast.Expr) and isinstance(body[0].value, ast.Constant) \
            and isinstance(body[0].value.value, str):
        body.pop(0)
    if len(body) != 1 or not isinstance(body[0], ast.If):
        bail(fn, "create_transport body is not a single if/elif chain")
    node = body[0]
    out = []
    while True:
        t = node.test
        if not (isinstance(t, ast.Call) and isinstance(t.func, ast.Attribute) and t.func.attr == "match_interface"
                and isinstance(t.func.value, ast.Name) and len(t.args) == 1 and not t.keywords
                and _is_name(t.args[0], "transport_descriptor")):
            bail(node, "unrecognised dispatch test")
        pname = t.func.value.id
        b = list(node.body)
        if not b:
            bail(node, "empty branch")
        s0 = b.pop(0)
        ok = (isinstance(s0, ast.Assign) and len(s0.targets) == 1 and _is_name(s0.targets[0], "attributes")
              and isinstance(s0.value, ast.Call) and isinstance(s0.value.func, ast.Attribute)
              and s0.value.func.attr == "parse_parameter_strings" and _is_name(s0.value.func.value, pname)
              and len(s0.value.args) == 2 and not s0.value.keywords
              and _is_name(s0.value.args[0], "transport_descriptor")
              and _is_name(s0.value.args[1], "default_attributes"))
        if not ok:
            bail(s0, "branch does not start with attributes = %s.parse_parameter_strings(...)" % pname)
        if len(b) == 1 and isinstance(b[0], ast.If):
            if not _is_win_test(b[0].test) or not b[0].orelse:
                bail(b[0], "unrecognised platform test")
            win = _branch(b[0].body, b[0])
            other = _branch(b[0].orelse, b[0])
        else:
            win = other = _branch(b, node)
        out.append((pname, other, win))
        if len(node.orelse) == 1 and isinstance(node.orelse[0], ast.If):
            node = node.orelse[0]
            continue
        if _branch(node.orelse, node)[0] != "raise":
            bail(node, "final else of create_transport must raise QMI_TransportDescriptorException")
        break
    return out


def _classes_of(path):
    with open(path, encoding="utf-8") as f:
        tree = ast.parse(f.read(), path)
    return {n.name: n for n in tree.body if isinstance(n, ast.ClassDef)}, tree


def translate(repo):
    core = os.path.join(repo, "qmi", "core")
    classes, tree = _classes_of(os.path.join(core, "transport.py"))
    tables = {}
    for node in ast.walk(tree):
        if isinstance(node, ast.Call) and _is_name(node.func, "TransportDescriptorParser"):
            node._c14_seen = False
    for st in tree.body:
        if isinstance(st, ast.Assign) and isinstance(st.value, ast.Call) \
                and _is_name(st.value.func, "TransportDescriptorParser"):
            if len(st.targets) != 1 or not isinstance(st.targets[0], ast.Name):
                bail(st, "parser table assigned to something other than one name")
            if st.targets[0].id in tables:
                bail(st, "parser table %s defined twice" % st.targets[0].id)
            tables[st.targets[0].id] = _table(st.value)
            st.value._c14_seen = True
    for node in ast.walk(tree):
        if isinstance(node, ast.Call) and _is_name(node.func, "TransportDescriptorParser") and not node._c14_seen:
            bail(node, "TransportDescriptorParser(...) outside a module-level `NAME = ...`")
    # a rebinding of a table name anywhere else would invalidate the table
    for node in ast.walk(tree):
        if isinstance(node, (ast.Assign, ast.AugAssign, ast.AnnAssign)):
            tg = node.targets if isinstance(node, ast.Assign) else [node.target]
            for t in tg:
                if isinstance(t, ast.Name) and t.id in tables and not getattr(getattr(node, "value", None), "_c14_seen", False):
                    bail(node, "parser table %s is rebound" % t.id)
                if isinstance(t, ast.Attribute) and isinstance(t.value, ast.Name) and t.value.id in tables:
                    bail(node, "attribute of parser table %s is assigned" % t.value.id)
    fns = [n for n in tree.body if isinstance(n, ast.FunctionDef) and n.name == "create_transport"]
    if len(fns) != 1:
        raise TranslationError("create_transport not found exactly once")
    disp = _dispatch(fns[0])
    used = [p for p, _, _ in disp]
    if sorted(used) != sorted(tables) or len(set(used)) != len(used):
        raise TranslationError("parser tables %s and dispatched parsers %s differ" % (sorted(tables), used))
    # UDP responder port
    cclasses, _ = _classes_of(os.path.join(core, "context.py"))
    if "QMI_Context" not in cclasses:
        raise TranslationError("QMI_Context not found")
    cc = _class_consts(cclasses["QMI_Context"])
    rp = cc.get("DEFAULT_UDP_RESPONDER_PORT")
    if type(rp) is not int:
        raise TranslationError("QMI_Context.DEFAULT_UDP_RESPONDER_PORT is not an int literal")
    entries = []
    for pname, other, win in disp:
        what, cls, module = other
        if what == "raise":
            kind = "KUnavailable"
            ctor = []
            clsname = None
        else:
            if cls not in KINDS:
                raise TranslationError("create_transport constructs unknown class %s" % cls)
            kind = KINDS[cls]
            pool = classes
            if module is not None:
                if not module.startswith("qmi.core."):
                    raise TranslationError("class %s imported from unexpected module %s" % (cls, module))
                pool, _ = _classes_of(os.path.join(core, module.split(".")[-1] + ".py"))
                pool = dict(classes, **pool)
            ctor = _ctor(pool, cls, fns[0])
            clsname = cls
        entries.append({"parser": pname, "table": tables[pname], "kind": kind, "class": clsname, "ctor": ctor})
    return {"entries": entries, "responder_port": rp}


# ---- Coq emission ---------------------------------------------------------------------------

def _cstr(s):
    return '(str_of "%s")' % s


def _cval(v):
    if v is None:
        return "VNone"
    if type(v) is bool:
        return "(VBool %s)" % ("true" if v else "false")
    if type(v) is int:
        return "(VInt (%d)%%Z)" % v
    if type(v) is float:
        return "(VFloat %d%%N)" % struct.unpack(">Q", struct.pack(">d", v))[0]
    return "(VStr %s)" % _cstr(v)


def _cparam(p):
    return "(%s, %s, %s)" % (_cstr(p[0]), p[1], "true" if p[2] else "false")


def ident(iface):
    return "".join(c if c.isalnum() else "_" for c in iface)


def emit(tr, repo, with_proofs=True, with_wf=True):
    L = ["(* GENERATED on every run by harness/translators/t_c14_tables.py from",
         "   %s/qmi/core/transport.py -- do not edit, never committed. *)" % repo,
         "Require Import QV.C14.Model%s." % (" QV.C14.Proofs" if with_proofs else ""),
         "Open Scope N_scope.", ""]
    obligations = []
    names = []
    seen = set()
    for e in tr["entries"]:
        t = e["table"]
        i = ident(t["iface"])
        while i in seen:
            i += "'"
        seen.add(i)
        names.append(i)
        kind = e["kind"] if e["kind"] != "KUdp" else "(KUdp (%d)%%Z)" % tr["responder_port"]
        L.append("(* %s -> %s *)" % (e["parser"], e["class"] or "raises (not available on this platform)"))
        L.append("Definition tbl_%s : table := mkTable %s\n  [%s]\n  [%s]." % (
            i, _cstr(t["iface"]), "; ".join(_cparam(p) for p in t["pos"]), "; ".join(_cparam(p) for p in t["kw"])))
        L.append("Definition ent_%s : entry := mkEntry tbl_%s %s\n  [%s]." % (
            i, i, kind, "; ".join("(%s, %s)" % (_cstr(n), "None" if d is None else "Some " + _cval(d[1]))
                                  for n, d in e["ctor"])))
        if with_wf:
            L.append("Lemma C14gen_wf_%s : entry_wf ent_%s = true.\nProof. vm_compute. reflexivity. Qed." % (i, i))
            obligations.append("C14gen_wf_%s" % i)
        L.append("")
    L.append("(* dispatch order of create_transport *)")
    L.append("Definition entries : list entry := [%s]." % "; ".join("ent_" + n for n in names))
    if with_wf:
        L.append("Lemma C14gen_entries_wf : entries_wf entries = true.\nProof. vm_compute. reflexivity. Qed.")
        obligations.append("C14gen_entries_wf")
    L.append("Definition ctor_consistency : list (str * bool) := map (fun e => (t_iface (e_tbl e), ctor_consistent e)) entries.")
    if with_proofs:
        for e, n in zip(tr["entries"], names):
            if e["kind"] == "KUsbTmc":
                L.append("")
                L.append("(* the descriptors list_resources produces parse back, for THIS table and constructor *)")
                L.append("Lemma C14gen_roundtrip_%s : usbtmc_shape ent_%s = true.\nProof. vm_compute. reflexivity. Qed." % (n, n))
                obligations.append("C14gen_roundtrip_%s" % n)
                L.append("Lemma C14gen_found_%s : find_entry entries (t_iface tbl_%s) = Some ent_%s.\nProof. vm_compute. reflexivity. Qed." % (n, n, n))
                obligations.append("C14gen_found_%s" % n)
            if e["kind"] in ("KTcp", "KUdp", "KVxi11"):
                L.append("Lemma C14gen_hostfirst_%s : host_first ent_%s = true.\nProof. vm_compute. reflexivity. Qed." % (n, n))
                obligations.append("C14gen_hostfirst_%s" % n)
    L.append("")
    return "\n".join(L), obligations


def run(repo, out_path, with_proofs=True, with_wf=True):
    """Translate and write out_path.  Returns (translation, obligation names)."""
    tr = translate(repo)
    text, obligations = emit(tr, repo, with_proofs, with_wf)
    os.makedirs(os.path.dirname(out_path), exist_ok=True)
    tmp = out_path + ".tmp%d" % os.getpid()
    with open(tmp, "w") as f:
        f.write(text)
    os.replace(tmp, out_path)
    return tr, obligations


if __name__ == "__main__":
    import json
    import sys
    r = sys.argv[1] if len(sys.argv) > 1 else os.environ.get("QMI_REPO", "/repo")
    print(json.dumps(translate(r), indent=1))
