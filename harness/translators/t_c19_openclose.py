"""C19 translator: regenerate, from $QMI_REPO's working tree, one effect-language program pair
(open_prog, close_prog) per transport-based instrument driver class into coq/gen/C19Drivers.v.

Nothing is imported from the repository: python `ast` only.  FAIL-CLOSED: a statement or expression outside the
shapes listed below raises TranslationError for that class, which the caller reports (class not covered / broken
tie); nothing is silently approximated in the unsafe direction.  The approximation that IS made is sound for the
fault model of theories/C19/Model.v: any statement that is not recognised as pure becomes `Io line` (may raise or
not, never changes flag or link), and a statement may only become Io/Skip if it contains none of the calls the
model interprets (link open/close, super().open/close, flag checks, flag writes, state-relevant helpers).

Driver classes: every class under qmi/instruments/*/*.py whose MRO (C3, resolved through the imports of the
defining modules) contains qmi.core.instrument.QMI_Instrument and whose MRO has an __init__ that assigns
`self.<attr> = create_transport(...)`.  Those attributes are the class's LINK attributes.  A class with two link
attributes (bristol_871a) is translated once per configuration in which exactly one of them is not None
(`<Class>__<attr>`): tests `self.<attr> is [not] None` are then decided statically.

Statement shapes (S = translated statement list, `self.L` = a link attribute):
  docstring / pass                                   -> Skip
  _logger.<m>(pure...) / logging calls               -> Skip
  self.L.open()                                      -> LinkOpen line        self.L.close() -> LinkClose line
  self.L.<other>(...)                                -> Io line
  super().open() / super().close() / super().<m>()   -> inlined body of the next definition in the MRO
  self._check_is_open() / self._check_is_closed()    -> CheckOpen / CheckClosed when they resolve to QMI_Instrument's
                                                        definitions (whatever their text: the harness checks on every run
                                                        that the real methods BEHAVE like these primitives, and likewise
                                                        QMI_Instrument.open/close and QMI_Transport.open/close)
  self._is_open = True / False                       -> SetOpen / SetClosed
  self.<helper>(...)                                 -> inlined (depth <= 3) if the helper (transitively) mentions
                                                        self.L.open/close, super().open/close, self._is_open,
                                                        self.open/close; otherwise Io line
  x = <expr> / x += <expr> / any other expression    -> Skip if <expr> is pure, else Io line
  if T: A else: B                                    -> [Io line if T impure;] Choice A B   (static for link-None tests)
  try: B except E1: H1 ... [else: E] [finally: F]    -> Try B (Choice H1 (Choice ... [Raise])) false; a bare `raise` anywhere
                                                        inside a handler is Raise; the trailing `Raise` alternative
                                                        (exception not matched) is omitted only if some clause is bare,
                                                        `Exception` or `BaseException`;  else -> TryElse B (..) E (E runs only
                                                        after B completed, its exceptions are not handled);
                                                        finally -> Finally (...) F
  with E: B                                          -> Seq (Io line) (Finally B (Io line))
  raise ...                                          -> Raise
  return [pure]  as LAST statement of a function     -> Skip
  if T: ..; return  (if/elif chains with early returns, in the tail of a function)
                                                     -> Choice (A) (B ; rest): each branch gets its own continuation
  x = <interpreted call> / return <interpreted call> -> as the call itself
  global / nonlocal / nested def without interpreted calls -> Skip;   import / del -> Io
  assert T                                           -> Io line
  for / while without any interpreted call           -> Io line
  while True: try: self.L.open(); return  except ..: <no interpreted call>  ; <no interpreted call>
                                                     -> the retry loop of wavelength/tclab.py, unrolled 3 times
                                                        (a failing LinkOpen leaves the state unchanged, so the
                                                        set of final states is already stable after one round)
Pure expressions: names, attributes, constants, not/and/or/comparisons, f-strings and tuples of those.
"""
import ast
import os
import re

UNROLL = 3
HELPER_DEPTH = 4
SUPER_DEPTH = 6


class TranslationError(Exception):
    pass


def bail(node, msg, ctx=None):
    where = ""
    if ctx is not None:
        where = "%s " % ctx
    raise TranslationError("%sline %s: %s" % (where, getattr(node, "lineno", "?"), msg))


# --------------------------------------------------------------------------------------------------
# class table
# --------------------------------------------------------------------------------------------------

class Cls:
    def __init__(self, module, relpath, node):
        self.module, self.relpath, self.node = module, relpath, node
        self.name = node.name
        self.methods = {m.name: m for m in node.body if isinstance(m, (ast.FunctionDef,))}
        # names bound in the class body by anything else than a plain `def` (alias, async def, nested class ...)
        self.other = set()
        for m in node.body:
            if isinstance(m, (ast.AsyncFunctionDef, ast.ClassDef)):
                self.other.add(m.name)
            elif isinstance(m, (ast.Assign, ast.AnnAssign)):
                for t in (m.targets if isinstance(m, ast.Assign) else [m.target]):
                    for n in ast.walk(t):
                        if isinstance(n, ast.Name):
                            self.other.add(n.id)
        self.bases = []      # resolved Cls or None
        self.mro = None

    def __repr__(self):
        return "<%s.%s>" % (self.module, self.name)


class Table:
    def __init__(self, repo):
        self.repo = repo
        self.modules = {}     # dotted name -> (ast.Module, relpath)
        self.classes = {}     # (module, name) -> Cls
        self.imports = {}     # module -> {local name: (module, name)}

    def load(self, relpath):
        path = os.path.join(self.repo, relpath)
        import alpha   # the text as the harness sees it (private names renamed back when the tree renamed them consistently)
        src = alpha.source_text(path)
        import warnings
        with warnings.catch_warnings():
            warnings.simplefilter("ignore")
            tree = ast.parse(src, filename=relpath)
        mod = relpath[:-3].replace("/", ".")
        if mod.endswith(".__init__"):
            mod = mod[:-9]
        self.modules[mod] = (tree, relpath)
        imp = {}
        for n in tree.body:
            if isinstance(n, ast.ClassDef):
                self.classes[(mod, n.name)] = Cls(mod, relpath, n)
            elif isinstance(n, ast.ImportFrom) and n.level == 0 and n.module:
                for a in n.names:
                    imp[a.asname or a.name] = (n.module, a.name)
            elif isinstance(n, ast.Import):
                for a in n.names:
                    imp[a.asname or a.name.split(".")[0]] = (a.name, None)
        self.imports[mod] = imp

    def lookup(self, mod, name, seen=()):
        """class `name` as visible in module `mod` (own definition, or through from-imports / package re-exports)."""
        if (mod, name) in self.classes:
            return self.classes[(mod, name)]
        if (mod, name) in seen:
            return None
        tgt = self.imports.get(mod, {}).get(name)
        if tgt and tgt[1] is not None and tgt[0] in self.modules:
            return self.lookup(tgt[0], tgt[1], seen + ((mod, name),))
        return None

    def resolve_bases(self):
        for c in self.classes.values():
            c.bases = []
            for b in c.node.bases:
                r = None
                if isinstance(b, ast.Name):
                    r = self.lookup(c.module, b.id)
                elif isinstance(b, ast.Attribute) and isinstance(b.value, ast.Name):
                    tgt = self.imports.get(c.module, {}).get(b.value.id)
                    if tgt and tgt[1] is None and tgt[0] in self.modules:
                        r = self.lookup(tgt[0], b.attr)
                c.bases.append(r)

    def mro(self, c, stack=()):
        """C3 linearisation over the resolved bases; unresolvable bases (stdlib/third-party) are leaves that are
        dropped.  Returns None if the linearisation fails."""
        if c.mro is not None:
            return c.mro
        if c in stack:
            return None
        seqs = []
        for b in c.bases:
            if b is None:
                continue
            m = self.mro(b, stack + (c,))
            if m is None:
                return None
            seqs.append(list(m))
        seqs.append([b for b in c.bases if b is not None])
        res = [c]
        while any(seqs):
            seqs = [s for s in seqs if s]
            for s in seqs:
                h = s[0]
                if not any(h in t[1:] for t in seqs):
                    break
            else:
                return None
            res.append(h)
            for s in seqs:
                if s and s[0] is h:
                    del s[0]
        c.mro = res
        return res


# --------------------------------------------------------------------------------------------------
# expression helpers
# --------------------------------------------------------------------------------------------------

def is_self_attr(n, attr=None):
    return (isinstance(n, ast.Attribute) and isinstance(n.value, ast.Name) and n.value.id == "self"
            and (attr is None or n.attr == attr))


def is_super_call(n):
    """`super()` or `super(Class, self)`"""
    return isinstance(n, ast.Call) and isinstance(n.func, ast.Name) and n.func.id == "super"


def is_pure(e):
    if e is None:
        return True
    if isinstance(e, (ast.Constant, ast.Name)):
        return True
    if isinstance(e, ast.Attribute):
        return is_pure(e.value)
    if isinstance(e, ast.UnaryOp) and isinstance(e.op, ast.Not):
        return is_pure(e.operand)
    if isinstance(e, ast.BoolOp):
        return all(is_pure(v) for v in e.values)
    if isinstance(e, ast.Compare):
        return is_pure(e.left) and all(is_pure(c) for c in e.comparators)
    if isinstance(e, ast.Tuple):
        return all(is_pure(v) for v in e.elts)
    if isinstance(e, ast.JoinedStr):
        return all(is_pure(v) for v in e.values)
    if isinstance(e, ast.FormattedValue):
        return is_pure(e.value) and is_pure(e.format_spec)
    return False


def is_logging_call(call):
    f = call.func
    if isinstance(f, ast.Attribute) and isinstance(f.value, ast.Name) and f.value.id in ("_logger", "logger", "_LOGGER"):
        return True
    if isinstance(f, ast.Attribute) and isinstance(f.value, ast.Name) and f.value.id == "logging" \
            and f.attr in ("debug", "info", "warning", "error", "exception", "critical"):
        return True
    if isinstance(f, ast.Attribute) and isinstance(f.value, ast.Name) and f.value.id == "warnings" and f.attr == "warn":
        return True
    return False


# --------------------------------------------------------------------------------------------------
# the translator proper
# --------------------------------------------------------------------------------------------------

class Ctx:
    """translation context of one (class, configuration)"""

    def __init__(self, table, cls, mro, links, live_link, base):
        self.table, self.cls, self.mro, self.links, self.live, self.base = table, cls, mro, links, live_link, base
        self.notes = []
        self._relevant_cache = {}

    # -- method resolution ---------------------------------------------------------------------
    def resolve(self, name, after=None):
        """(defining class, FunctionDef) of method `name` for an instance of self.cls; `after`: start the
        search after that class in the MRO (super())."""
        seq = self.mro
        if after is not None:
            seq = seq[seq.index(after) + 1:]
        for c in seq:
            if name in c.other:
                raise TranslationError("%s.%s is bound by something else than a plain def" % (c.name, name))
            if name in c.methods:
                fn = c.methods[name]
                if name in ("open", "close"):
                    for d in fn.decorator_list:
                        if not (isinstance(d, ast.Name) and d.id == "rpc_method"):
                            raise TranslationError("%s.%s has decorator %s" % (c.name, name, ast.unparse(d)))
                return c, fn
        return None, None

    def method_body(self, c, fn, depth, sdepth):
        """body of an open()/close()/helper definition.  QMI_Instrument.open/close themselves are translated like any
        other body when their shape is recognised; when it is not (a rewrite of the base class), they are taken as
        the primitives [CheckClosed; SetOpen] / [CheckOpen; SetClosed], whose behaviour on the real base class the
        harness checks exhaustively on every run (c19.base_behaviour)."""
        if c is self.base and fn.name in ("open", "close"):
            try:
                return self.block(fn.body, c, depth, sdepth, True)
            except TranslationError as e:
                self.notes.append("QMI_Instrument.%s taken as a behaviourally checked primitive (%s)" % (fn.name, e))
                return ["CheckClosed", "SetOpen"] if fn.name == "open" else ["CheckOpen", "SetClosed"]
        return self.block(fn.body, c, depth, sdepth, True)

    # -- which calls does the model interpret? --------------------------------------------------
    def link_call(self, call):
        """('open'|'close'|'io', attr) if call is self.L.<m>(...)"""
        f = call.func
        if isinstance(f, ast.Attribute) and is_self_attr(f.value) and f.value.attr in self.links:
            kind = f.attr if f.attr in ("open", "close") else "io"
            return kind, f.value.attr
        return None

    def self_method_call(self, call):
        f = call.func
        if isinstance(f, ast.Attribute) and isinstance(f.value, ast.Name) and f.value.id == "self":
            return f.attr
        return None

    def super_method_call(self, call):
        f = call.func
        if isinstance(f, ast.Attribute) and is_super_call(f.value):
            return f.attr
        return None

    def is_base_check(self, name):
        """self._check_is_open/_check_is_closed resolving to the verified QMI_Instrument definitions"""
        if name not in ("_check_is_open", "_check_is_closed"):
            return False
        c, _ = self.resolve(name)
        return c is self.base

    def mentions_directly(self, fn):
        for n in ast.walk(fn):
            if is_self_attr(n, "_is_open"):
                return True
            if isinstance(n, ast.Call):
                lc = self.link_call(n)
                if lc and lc[0] in ("open", "close"):
                    return True
                if self.super_method_call(n) in ("open", "close"):
                    return True
                if self.self_method_call(n) in ("open", "close", "__enter__", "__exit__"):
                    return True
            # a link attribute stored to or deleted
            if isinstance(n, ast.Attribute) and is_self_attr(n) and n.attr in self.links \
                    and isinstance(n.ctx, (ast.Store, ast.Del)):
                return True
        return False

    def relevant(self, defcls, fn, depth=0, stack=()):
        """does helper `fn` (defined in defcls) touch flag or link, directly or through helpers it calls?"""
        key = (defcls, fn.name)
        if key in self._relevant_cache:
            return self._relevant_cache[key]
        if key in stack:
            return False
        if self.mentions_directly(fn):
            self._relevant_cache[key] = True
            return True
        res = False
        for n in ast.walk(fn):
            if not isinstance(n, ast.Call):
                continue
            m = self.self_method_call(n)
            tgt = None
            if m is not None and not self.is_base_check(m):
                tgt = self.resolve(m)
            sm = self.super_method_call(n)
            if sm is not None:
                tgt = self.resolve(sm, after=defcls)
            if tgt and tgt[1] is not None:
                if depth >= 8:
                    raise TranslationError("helper call chain deeper than 8 below %s.%s" % (defcls.name, fn.name))
                if self.relevant(tgt[0], tgt[1], depth + 1, stack + (key,)):
                    res = True
                    break
        self._relevant_cache[key] = res
        return res

    def interpreted(self, node, defcls):
        """does `node` contain anything the model interprets (so that it may NOT be collapsed to Io/Skip)?"""
        for n in ast.walk(node):
            if is_self_attr(n, "_is_open"):
                return True
            if isinstance(n, ast.Attribute) and is_self_attr(n) and n.attr in self.links \
                    and isinstance(n.ctx, (ast.Store, ast.Del)):
                return True
            if isinstance(n, ast.Call):
                lc = self.link_call(n)
                if lc and lc[0] in ("open", "close"):
                    return True
                sm = self.super_method_call(n)
                if sm in ("open", "close"):
                    return True
                if sm is not None:
                    c, fn = self.resolve(sm, after=defcls)
                    if fn is not None and self.relevant(c, fn):
                        return True
                m = self.self_method_call(n)
                if m in ("open", "close", "__enter__", "__exit__"):
                    return True
                if m is not None:
                    if self.is_base_check(m):
                        # a check inside an expression we collapse to Io: sound (Io may raise, changes nothing)
                        continue
                    c, fn = self.resolve(m)
                    if fn is not None and self.relevant(c, fn):
                        return True
                # open()/close() called on some other attribute of self: could be a second device link
                f = n.func
                if isinstance(f, ast.Attribute) and f.attr in ("open", "close") and is_self_attr(f.value) \
                        and f.value.attr not in self.links:
                    return True
        return False

    # -- static link-configuration tests ----------------------------------------------------------
    def static_test(self, t):
        """True/False if the test is decided by the link configuration, else None"""
        if isinstance(t, ast.Compare) and len(t.ops) == 1 and is_self_attr(t.left) and t.left.attr in self.links \
                and isinstance(t.comparators[0], ast.Constant) and t.comparators[0].value is None:
            present = (t.left.attr == self.live)
            if isinstance(t.ops[0], ast.IsNot):
                return present
            if isinstance(t.ops[0], ast.Is):
                return not present
        return None

    # -- statements -------------------------------------------------------------------------------
    def block(self, stmts, defcls, depth, sdepth, tail):
        """translate a statement list; `tail`: the list is the tail of a function body, so a `return` ends the
        translation of everything that follows (early returns are translated by giving each branch its own
        continuation)"""
        out = []
        stmts = list(stmts)
        if stmts and isinstance(stmts[0], ast.Expr) and isinstance(stmts[0].value, ast.Constant) \
                and isinstance(stmts[0].value.value, str):
            stmts = stmts[1:]
        for i, s in enumerate(stmts):
            rest = stmts[i + 1:]
            if tail and rest:
                r = self.early_exit(s, rest, defcls, depth, sdepth)
                if r is not None:
                    return out + r
            out.extend(self.stmt(s, defcls, depth, sdepth, tail and not rest))
        return out

    @staticmethod
    def _returns(stmts):
        """does some path through this statement list end the function with `return`?  (syntactic: a Return that is
        not inside a nested function)"""
        def walk(n):
            if isinstance(n, ast.Return):
                return True
            if isinstance(n, (ast.FunctionDef, ast.AsyncFunctionDef, ast.Lambda, ast.ClassDef)):
                return False
            return any(walk(c) for c in ast.iter_child_nodes(n))
        return any(walk(x) for x in stmts)

    def early_exit(self, s, rest, defcls, depth, sdepth):
        """`s` is followed by `rest` in the tail of a function.  If `s` can leave the function early, translate
        `s; rest` as a whole; else None."""
        if isinstance(s, ast.If) and (self._returns(s.body) or self._returns(s.orelse)):
            st = self.static_test(s.test)
            if st is True:
                return self.block(list(s.body) + rest, defcls, depth, sdepth, True)
            if st is False:
                return self.block(list(s.orelse) + rest, defcls, depth, sdepth, True)
            if self.interpreted(s.test, defcls):
                bail(s, "`if` test reads the flag or calls an interpreted method: %s" % ast.unparse(s.test)[:80],
                     defcls.name)
            pre = [] if is_pure(s.test) else ["Io %d" % s.lineno]

            def branch(b):
                b = list(b)
                if b and isinstance(b[-1], ast.Return):      # this branch ends the function here
                    return self.block(b, defcls, depth, sdepth, True)
                return self.block(b + rest, defcls, depth, sdepth, True)
            return pre + ["Choice (%s) (%s)" % (seq(branch(s.body)), seq(branch(s.orelse)))]
        if isinstance(s, (ast.For, ast.While)) and not self.interpreted(s, defcls) and self._returns([s]):
            # a loop without interpreted calls that may return from inside: it ends the function, or it does not
            return ["Io %d" % s.lineno,
                    "Choice (Skip) (%s)" % seq(self.block(rest, defcls, depth, sdepth, True))]
        return None

    def io_or_skip(self, s, exprs, defcls):
        """statement without interpreted calls: Skip if all its expressions are pure, else Io"""
        if self.interpreted(s, defcls):
            bail(s, "statement mixes an interpreted call (link/flag/super/helper) with other code: %s"
                 % ast.unparse(s)[:100], defcls.name)
        if all(is_pure(e) for e in exprs):
            return []
        return ["Io %d" % s.lineno]

    def call_stmt(self, s, call, defcls, depth, sdepth):
        lc = self.link_call(call)
        if lc:
            kind, attr = lc
            for a in list(call.args) + [k.value for k in call.keywords]:
                if self.interpreted(a, defcls):
                    bail(s, "interpreted call inside the arguments of a link call", defcls.name)
            if attr != self.live:
                bail(s, "operation on link %s which is None in configuration %s" % (attr, self.live), defcls.name)
            if kind == "open":
                if call.args or call.keywords:
                    bail(s, "link open with arguments", defcls.name)
                return ["LinkOpen %d" % s.lineno]
            if kind == "close":
                if call.args or call.keywords:
                    bail(s, "link close with arguments", defcls.name)
                return ["LinkClose %d" % s.lineno]
            return ["Io %d" % s.lineno]
        sm = self.super_method_call(call)
        if sm is not None:
            for a in list(call.args) + [k.value for k in call.keywords]:
                if self.interpreted(a, defcls):
                    bail(s, "interpreted call inside the arguments of a super() call", defcls.name)
            c, fn = self.resolve(sm, after=defcls)
            if fn is None:
                if sm in ("open", "close"):
                    bail(s, "super().%s() does not resolve" % sm, defcls.name)
                return ["Io %d" % s.lineno]
            if sm in ("open", "close") or self.relevant(c, fn):
                if sdepth >= SUPER_DEPTH:
                    bail(s, "super() chain deeper than %d" % SUPER_DEPTH, defcls.name)
                return self.method_body(c, fn, depth, sdepth + 1)
            return ["Io %d" % s.lineno]
        m = self.self_method_call(call)
        if m is not None:
            for a in list(call.args) + [k.value for k in call.keywords]:
                if self.interpreted(a, defcls):
                    bail(s, "interpreted call inside the arguments of a method call", defcls.name)
            if m in ("open", "close", "__enter__", "__exit__"):
                bail(s, "open()/close() calls self.%s()" % m, defcls.name)
            if self.is_base_check(m):
                if call.args or call.keywords:
                    bail(s, "state check with arguments", defcls.name)
                return ["CheckOpen" if m == "_check_is_open" else "CheckClosed"]
            c, fn = self.resolve(m)
            if fn is not None and self.relevant(c, fn):
                if depth >= HELPER_DEPTH:
                    bail(s, "state-relevant helper self.%s() nested deeper than %d" % (m, HELPER_DEPTH), defcls.name)
                return self.block(fn.body, c, depth + 1, sdepth, True)
            return ["Io %d" % s.lineno]
        if is_logging_call(call):
            return self.io_or_skip(s, list(call.args) + [k.value for k in call.keywords], defcls)
        return self.io_or_skip(s, [call], defcls)

    def retry_loop(self, s, defcls, depth, sdepth):
        """while True: try: self.L.open(); return  except ...: H  ; REST      (H, REST uninterpreted)"""
        if not (isinstance(s.test, ast.Constant) and s.test.value is True and not s.orelse and s.body
                and isinstance(s.body[0], ast.Try)):
            return None
        t = s.body[0]
        rest = s.body[1:]
        if t.orelse or t.finalbody or len(t.body) != 2 or not isinstance(t.body[1], ast.Return) \
                or t.body[1].value is not None:
            return None
        if not (isinstance(t.body[0], ast.Expr) and isinstance(t.body[0].value, ast.Call)):
            return None
        lc = self.link_call(t.body[0].value)
        if not lc or lc[0] != "open" or lc[1] != self.live:
            return None
        for h in t.handlers:
            for x in h.body:
                if self.interpreted(x, defcls):
                    return None
        for x in rest:
            if self.interpreted(x, defcls):
                return None
            for n in ast.walk(x):
                if isinstance(n, (ast.Return, ast.Break)):
                    return None
        handler = self.handlers(t, defcls, depth, sdepth, loop=True)
        rest_p = self.block(rest, defcls, depth, sdepth, False)
        lo = "LinkOpen %d" % t.body[0].lineno
        # U0 = Raise ; U(n+1) = Try lo (handler ; rest ; U(n))      [handler normal exit = go round again]
        u = "Raise"
        for _ in range(UNROLL):
            u = "Try (%s) (%s) false" % (lo, seq([handler] + rest_p + [u]))
        self.notes.append("retry loop at %s:%d unrolled %d times" % (defcls.relpath, s.lineno, UNROLL))
        return [u]

    def handlers(self, t, defcls, depth, sdepth, loop=False):   # (loop: kept for the call in retry_loop)
        alts = []
        catch_all = False
        for h in t.handlers:
            if h.type is None:
                catch_all = True
            else:
                names = [h.type] if not isinstance(h.type, ast.Tuple) else list(h.type.elts)
                for nm in names:
                    if isinstance(nm, ast.Name) and nm.id in ("Exception", "BaseException"):
                        catch_all = True
                    elif not isinstance(nm, (ast.Name, ast.Attribute)):
                        bail(h, "unrecognised except clause", defcls.name)
            self._in_handler = getattr(self, "_in_handler", 0) + 1
            try:
                p = self.block(list(h.body), defcls, depth, sdepth, False)
            finally:
                self._in_handler -= 1
            alts.append(seq(p))
        if not catch_all:
            alts.append("Raise")
        r = alts[-1]
        for a in reversed(alts[:-1]):
            r = "Choice (%s) (%s)" % (a, r)
        return r

    def stmt(self, s, defcls, depth, sdepth, last):
        if isinstance(s, ast.Pass):
            return []
        if isinstance(s, ast.Expr):
            if isinstance(s.value, ast.Call):
                return self.call_stmt(s, s.value, defcls, depth, sdepth)
            if isinstance(s.value, ast.Constant):
                return []
            return self.io_or_skip(s, [s.value], defcls)
        if isinstance(s, (ast.Assign, ast.AnnAssign, ast.AugAssign)):
            targets = s.targets if isinstance(s, ast.Assign) else [s.target]
            if len(targets) == 1 and is_self_attr(targets[0], "_is_open") and isinstance(s, ast.Assign):
                if isinstance(s.value, ast.Constant) and s.value.value is True:
                    return ["SetOpen"]
                if isinstance(s.value, ast.Constant) and s.value.value is False:
                    return ["SetClosed"]
                bail(s, "self._is_open assigned a non-literal", defcls.name)
            if isinstance(s, (ast.Assign, ast.AnnAssign)) and isinstance(s.value, ast.Call) \
                    and all(isinstance(t, ast.Name) for t in targets) and self.interpreted(s.value, defcls):
                return self.call_stmt(s, s.value, defcls, depth, sdepth)     # `x = <interpreted call>`
            return self.io_or_skip(s, [s.value] + [t for t in targets if not isinstance(t, (ast.Name, ast.Attribute))],
                                   defcls)
        if isinstance(s, ast.If):
            st = self.static_test(s.test)
            if st is True:
                return self.block(s.body, defcls, depth, sdepth, last)
            if st is False:
                return self.block(s.orelse, defcls, depth, sdepth, last)
            if self.interpreted(s.test, defcls):
                bail(s, "`if` test reads the flag or calls an interpreted method: %s" % ast.unparse(s.test)[:80],
                     defcls.name)
            pre = [] if is_pure(s.test) else ["Io %d" % s.lineno]
            a = self.block(s.body, defcls, depth, sdepth, last)
            b = self.block(s.orelse, defcls, depth, sdepth, last)
            if not a and not b:
                return pre
            return pre + ["Choice (%s) (%s)" % (seq(a), seq(b))]
        if isinstance(s, ast.Try):
            body = self.block(s.body, defcls, depth, sdepth, False)
            r = seq(body)
            if s.handlers and s.orelse:
                # else-body: only after the try body completed; its exceptions are not handled here
                r = "TryElse (%s) (%s) (%s)" % (r, self.handlers(s, defcls, depth, sdepth),
                                                seq(self.block(s.orelse, defcls, depth, sdepth, False)))
            elif s.handlers:
                r = "Try (%s) (%s) false" % (r, self.handlers(s, defcls, depth, sdepth))
            if s.finalbody:
                r = "Finally (%s) (%s)" % (r, seq(self.block(s.finalbody, defcls, depth, sdepth, False)))
            return [r]
        if isinstance(s, ast.With):
            for it in s.items:
                if self.interpreted(it.context_expr, defcls):
                    bail(s, "`with` on an interpreted expression", defcls.name)
            body = self.block(s.body, defcls, depth, sdepth, False)
            return ["Io %d" % s.lineno, "Finally (%s) (Io %d)" % (seq(body), s.lineno)]
        if isinstance(s, ast.Raise):
            if s.exc is None:
                if getattr(self, "_in_handler", 0) > 0:
                    return ["Raise"]          # re-raise of the exception being handled
                bail(s, "bare `raise` outside an except clause", defcls.name)
            if self.interpreted(s, defcls):
                bail(s, "interpreted call inside a raise", defcls.name)
            return ["Raise"]
        if isinstance(s, ast.Return):
            if not last:
                bail(s, "`return` before the end of the function", defcls.name)
            if s.value is None:
                return []
            if isinstance(s.value, ast.Call) and self.interpreted(s.value, defcls):
                return self.call_stmt(s, s.value, defcls, depth, sdepth)     # `return <interpreted call>`
            return self.io_or_skip(s, [s.value], defcls)
        if isinstance(s, ast.Assert):
            if self.interpreted(s, defcls):
                bail(s, "assert on interpreted state", defcls.name)
            return ["Io %d" % s.lineno]
        if isinstance(s, (ast.For, ast.While)):
            if not self.interpreted(s, defcls):
                for n in ast.walk(s):
                    if isinstance(n, ast.Return):
                        bail(n, "`return` inside a loop", defcls.name)
                return ["Io %d" % s.lineno]
            if isinstance(s, ast.While):
                r = self.retry_loop(s, defcls, depth, sdepth)
                if r is not None:
                    if not last:
                        bail(s, "retry loop (exits by `return`) is not the last statement of its function", defcls.name)
                    return r
            bail(s, "loop containing an interpreted call", defcls.name)
        if isinstance(s, (ast.Global, ast.Nonlocal)):
            return []
        if isinstance(s, (ast.Import, ast.ImportFrom)):
            return ["Io %d" % s.lineno]
        if isinstance(s, ast.Delete):
            for t in s.targets:
                if is_self_attr(t) and (t.attr == "_is_open" or t.attr in self.links):
                    bail(s, "del of flag / link attribute", defcls.name)
            return self.io_or_skip(s, list(s.targets), defcls) or ["Io %d" % s.lineno]
        if isinstance(s, (ast.FunctionDef, ast.ClassDef)):
            if self.interpreted(s, defcls):
                bail(s, "nested definition containing an interpreted call", defcls.name)
            return []
        bail(s, "unrecognised statement %s" % type(s).__name__, defcls.name)


def seq(items):
    items = [i for i in items if i is not None]
    if not items:
        return "Skip"
    if len(items) == 1:
        return items[0]
    return "seql [%s]" % "; ".join(items)


# --------------------------------------------------------------------------------------------------
# verified facts about the base classes (the semantics the primitives of Model.v stand for)
# --------------------------------------------------------------------------------------------------

def _body(fn):
    b = list(fn.body)
    if b and isinstance(b[0], ast.Expr) and isinstance(b[0].value, ast.Constant) and isinstance(b[0].value.value, str):
        b = b[1:]
    return b


def transport_close_shape(repo, class_name):
    """SYNTACTIC FALL-BACK, used only for a transport class the harness cannot instantiate: close() marks the
    transport closed (super().close()) before anything that is not logging; one level of private-helper inlining
    is accepted.  -> list of problems"""
    table = Table(repo)
    table.load("qmi/core/transport.py")
    table.resolve_bases()
    c = table.classes.get(("qmi.core.transport", class_name))
    if c is None:
        return ["%s not found in qmi/core/transport.py" % class_name]
    bad = []
    if "open" in c.methods:
        bad.append("%s overrides QMI_Transport.open" % class_name)

    def effective(fn, inline=True):
        b = [x for x in _body(fn)
             if not (isinstance(x, ast.Expr) and isinstance(x.value, ast.Call) and is_logging_call(x.value))]
        if inline and b and isinstance(b[0], ast.Expr) and isinstance(b[0].value, ast.Call) \
                and is_self_attr(b[0].value.func) and b[0].value.func.attr in c.methods:
            return effective(c.methods[b[0].value.func.attr], False) + b[1:]
        return b
    if "close" in c.methods:
        b = effective(c.methods["close"])
        first = b[0] if b else None
        ok = (isinstance(first, ast.Expr) and isinstance(first.value, ast.Call)
              and isinstance(first.value.func, ast.Attribute) and first.value.func.attr == "close"
              and is_super_call(first.value.func.value))
        if not ok:
            bad.append("%s.close does not start with super().close()" % class_name)
    return bad


def base_facts(table):     # (superseded by c19.base_behaviour; kept for reference / manual use)
    """Check the shapes Model.v assumes of QMI_Instrument and QMI_Transport (and its subclasses).  Returns a list of
    problems (strings); empty = all facts hold."""
    bad = []
    inst = table.classes.get(("qmi.core.instrument", "QMI_Instrument"))
    tr = table.classes.get(("qmi.core.transport", "QMI_Transport"))
    if inst is None or tr is None:
        return ["QMI_Instrument / QMI_Transport not found"]

    def raises_only(stmts):
        return stmts and isinstance(stmts[-1], ast.Raise) and all(
            isinstance(x, ast.Expr) and isinstance(x.value, ast.Call) and is_logging_call(x.value) for x in stmts[:-1])

    def flag_test(t, negated):
        if negated:
            return isinstance(t, ast.UnaryOp) and isinstance(t.op, ast.Not) and is_self_attr(t.operand, "_is_open")
        return is_self_attr(t, "_is_open")

    for name, neg in (("_check_is_open", True), ("_check_is_closed", False)):
        fn = inst.methods.get(name)
        b = _body(fn) if fn else None
        if not (b and len(b) == 1 and isinstance(b[0], ast.If) and flag_test(b[0].test, neg) and not b[0].orelse
                and raises_only(b[0].body)):
            bad.append("QMI_Instrument.%s is not `if %sself._is_open: <log>; raise`" % (name, "not " if neg else ""))
    fn = inst.methods.get("is_open")
    b = _body(fn) if fn else None
    if not (b and len(b) == 1 and isinstance(b[0], ast.Return) and is_self_attr(b[0].value, "_is_open")):
        bad.append("QMI_Instrument.is_open is not `return self._is_open`")
    fn = inst.methods.get("__init__")
    if not (fn and any(isinstance(x, ast.Assign) and is_self_attr(x.targets[0], "_is_open")
                       and isinstance(x.value, ast.Constant) and x.value.value is False for x in _body(fn))):
        bad.append("QMI_Instrument.__init__ does not set self._is_open = False")
    # transport: open refuses when open, else _open_transport() then flag; close: check then flag
    fn = tr.methods.get("open")
    b = _body(fn) if fn else None
    ok = (b and len(b) == 3 and isinstance(b[0], ast.If) and flag_test(b[0].test, False) and raises_only(b[0].body)
          and not b[0].orelse
          and isinstance(b[1], ast.Expr) and isinstance(b[1].value, ast.Call)
          and is_self_attr(b[1].value.func, "_open_transport")
          and isinstance(b[2], ast.Assign) and is_self_attr(b[2].targets[0], "_is_open")
          and isinstance(b[2].value, ast.Constant) and b[2].value.value is True)
    if not ok:
        bad.append("QMI_Transport.open is not `if self._is_open: raise; self._open_transport(); self._is_open = True`")
    fn = tr.methods.get("close")
    b = _body(fn) if fn else None
    ok = (b and len(b) == 2 and isinstance(b[0], ast.Expr) and isinstance(b[0].value, ast.Call)
          and is_self_attr(b[0].value.func, "_check_is_open")
          and isinstance(b[1], ast.Assign) and is_self_attr(b[1].targets[0], "_is_open")
          and isinstance(b[1].value, ast.Constant) and b[1].value.value is False)
    if not ok:
        bad.append("QMI_Transport.close is not `self._check_is_open(); self._is_open = False`")
    fn = tr.methods.get("_check_is_open")
    b = _body(fn) if fn else None
    if not (b and len(b) == 1 and isinstance(b[0], ast.If) and flag_test(b[0].test, True) and raises_only(b[0].body)):
        bad.append("QMI_Transport._check_is_open is not `if not self._is_open: raise`")
    # every transport subclass: does not override open(); close() marks closed (super().close()) before anything
    # that is not logging
    for c in table.classes.values():
        if c.module != "qmi.core.transport" or c is tr:
            continue
        m = table.mro(c)
        if not m or tr not in m:
            continue
        if "open" in c.methods:
            bad.append("%s overrides QMI_Transport.open" % c.name)
        if "close" in c.methods:
            b = [x for x in _body(c.methods["close"])
                 if not (isinstance(x, ast.Expr) and isinstance(x.value, ast.Call) and is_logging_call(x.value))]
            first = b[0] if b else None
            ok = (isinstance(first, ast.Expr) and isinstance(first.value, ast.Call)
                  and isinstance(first.value.func, ast.Attribute) and first.value.func.attr == "close"
                  and is_super_call(first.value.func.value))
            if not ok:
                bad.append("%s.close does not start with super().close()" % c.name)
    return bad


# --------------------------------------------------------------------------------------------------
# entry points
# --------------------------------------------------------------------------------------------------

def _links_of(mro):
    links = []
    for c in mro:
        fn = c.methods.get("__init__")
        if fn is None:
            continue
        for n in ast.walk(fn):
            if isinstance(n, ast.Assign) and isinstance(n.value, ast.Call) and isinstance(n.value.func, ast.Name) \
                    and n.value.func.id == "create_transport":
                for t in n.targets:
                    if is_self_attr(t) and t.attr not in links:
                        links.append(t.attr)
    return links


def coq_ident(s):
    return re.sub(r"[^A-Za-z0-9_]", "_", s)


def translate(repo):
    """Returns dict(classes=[...], not_covered=[...], facts=[problems])."""
    table = Table(repo)
    table.load("qmi/core/instrument.py")
    table.load("qmi/core/transport.py")
    idir = os.path.join(repo, "qmi", "instruments")
    for pkg in sorted(os.listdir(idir)):
        d = os.path.join(idir, pkg)
        if not os.path.isdir(d):
            continue
        for fn in sorted(os.listdir(d)):
            if fn.endswith(".py"):
                table.load("qmi/instruments/%s/%s" % (pkg, fn))
    table.resolve_bases()
    base = table.classes.get(("qmi.core.instrument", "QMI_Instrument"))
    facts = []      # the base classes are checked BEHAVIOURALLY by the harness (c19.base_behaviour)
    out, skipped = [], []
    names_seen = {}
    for key in sorted(table.classes):
        c = table.classes[key]
        if not c.module.startswith("qmi.instruments.") or c.relpath.endswith("__init__.py"):
            continue
        # is it (syntactically) an instrument at all?  resolve lazily: unresolvable bases are leaves
        mro = table.mro(c)
        if mro is None:
            skipped.append({"class": c.name, "module": c.module, "reason": "MRO cannot be linearised"})
            continue
        if base not in mro:
            continue
        links = _links_of(mro)
        if not links:
            continue
        if any(b is None for k in mro for b in k.bases if k is not base and k.module.startswith("qmi.instruments.")):
            unresolved = [ast.unparse(bn) for k in mro for bn, b in zip(k.node.bases, k.bases) if b is None
                          and k.module.startswith("qmi.instruments.")]
            skipped.append({"class": c.name, "module": c.module,
                            "reason": "base class %s outside the scanned tree" % unresolved})
            continue
        configs = [None] if len(links) == 1 else links
        for live in configs:
            ident = coq_ident(c.name if live is None else "%s__%s" % (c.name, live.strip("_")))
            if ident in names_seen:
                ident = coq_ident(c.module.split(".")[-1] + "_" + ident)
            names_seen[ident] = True
            entry = {"class": c.name, "module": c.module, "file": c.relpath, "ident": ident,
                     "config": live, "links": links, "live": live or links[0], "lineno": c.node.lineno}
            try:
                ctx = Ctx(table, c, mro, links, live or links[0], base)
                for which in ("open", "close"):
                    dc, fn = ctx.resolve(which)
                    if fn is None:
                        raise TranslationError("no %s() in the MRO" % which)
                    entry[which] = seq(ctx.method_body(dc, fn, 0, 0))
                    entry[which + "_def"] = "%s.%s (%s:%d)" % (dc.name, which, dc.relpath, fn.lineno)
                    entry[which + "_defcls"] = dc.name
                    entry[which + "_file"] = dc.relpath
                entry["notes"] = ctx.notes
                out.append(entry)
            except TranslationError as e:
                for which in ("open", "close"):
                    entry.pop(which, None)
                skipped.append({"class": c.name, "module": c.module, "config": live, "reason": "translator: %s" % e,
                                "entry": entry})
    return {"classes": out, "not_covered": skipped, "facts": facts}


# ==================================================================================================
# Part 2: every @rpc_method (other than open/close) as a term of `mprog` (theories/C19/Model.v, part 2)
# ==================================================================================================
#
# The method translation is PERMISSIVE in control flow (loops, early return, break, nested calls, comprehensions:
# everything is mapped to an over-approximation of the sequence of operations) and FAIL-CLOSED in what matters for
# "a closed instrument performs no device I/O": which operations can touch the device.
#
#   self.L.<m>(...)                  L a link attribute (create_transport)            -> MDev line
#   self.W.<m>(...)                  W assigned from  Klass(..self.L..)  with Klass a plain class of the scanned tree
#                                    (ScpiProtocol, AptProtocol, NKTPhotonicsInterbusProtocol): protocol object
#                                    around the link                                  -> MDev line
#   self.R.<m>(...), any mention of self.R outside `is [not] None`
#                                    R assigned from any other constructor call (thread, timer, unknown class)
#                                                                                     -> MEff line
#   self.<callable attribute>(...)   not a method of the class                        -> MEff line
#   self.L / self.W passed around (not as receiver)                                   -> MDev line
#   self._check_is_open() / _check_is_closed()  (QMI_Instrument's)                    -> MCheckOpen / MCheckClosed
#   self.<helper>(...) / super().<helper>(...)  -> MCall <named definition of the helper's body>, or MIo if the
#                                    helper (transitively) contains none of MDev/MEff/MCheck*/MAssume*
#   if [not] self._is_open / self.is_open()  -> MChoice (MAssumeOpen; A) (MAssumeClosed; B)
#   anything else that is not a name / constant / attribute read                      -> MIo line
#   a method that writes self._is_open, assigns a link attribute, calls self.open()/close()/__enter__/__exit__ or
#   L.open()/L.close(), is a generator or a coroutine                                 -> NOT TRANSLATED (reported)
#
# Assumptions (stated in the evidence): a protocol object reaches the device only through the transport it was
# given; attribute reads and property getters do not touch the device; functions that are not methods of the
# class (module functions, builtins) do not touch the device unless they are handed the link (-> MDev).

DATA_CTORS = {"deque", "dict", "list", "set", "tuple", "bytearray", "bytes", "str", "int", "float", "bool",
              "OrderedDict", "defaultdict", "Lock", "RLock", "Condition", "Event", "frozenset", "Decimal"}
RELEVANT_RE = re.compile(r"MDev|MEff|MCheckOpen|MCheckClosed|MAssume|__h_")


def mseq(items):
    """sequence of atoms; adjacent MIo collapse (MIo;MIo has the executions of MIo)"""
    out = []
    for it in items:
        if it is None or it == "MSkip":
            continue
        if it.startswith("MIo ") and out and out[-1].startswith("MIo "):
            continue
        out.append(it)
    if not out:
        return "MSkip"
    if len(out) == 1:
        return out[0]
    return "mseql [%s]" % "; ".join(out)


def mchoice(a, b):
    if a == b:
        return a
    return "MChoice (%s) (%s)" % (a, b)


class MCtx(Ctx):
    """method translation for one (class, link configuration)"""

    def __init__(self, table, cls, mro, links, live_link, base, ident):
        super().__init__(table, cls, mro, links, live_link, base)
        self.ident = ident
        self.kinds = self._classify_attrs()
        self.helpers = {}        # (defcls name, fn name) -> coq ident | None (irrelevant -> MIo) | "…in progress"
        self.defs = []           # (coq ident, text, origin) in dependency order

    # -- attribute kinds ------------------------------------------------------------------------
    def _classify_attrs(self):
        kinds = {l: "link" for l in self.links}
        found = {}
        self.nullable = set()       # attributes that are assigned None somewhere
        self.assumed_none_when_closed = set()
        self.wrapper_classes = {}   # attr -> Cls of the protocol object
        for k in self.mro:
            if k is self.base:
                continue
            for fn in k.methods.values():
                for n in ast.walk(fn):
                    if not isinstance(n, (ast.Assign, ast.AnnAssign)) or n.value is None:
                        continue
                    targets = n.targets if isinstance(n, ast.Assign) else [n.target]
                    for t in targets:
                        if is_self_attr(t) and t.attr not in self.links:
                            found.setdefault(t.attr, []).append((k, n.value))
                            if isinstance(n.value, ast.Constant) and n.value.value is None:
                                self.nullable.add(t.attr)
        for attr, vals in found.items():
            kind = "data"
            for k, v in vals:
                if not isinstance(v, ast.Call):
                    continue
                f = v.func
                nm = f.id if isinstance(f, ast.Name) else f.attr if isinstance(f, ast.Attribute) else ""
                if not (nm.lstrip("_")[:1].isupper()):
                    continue                       # a function call: its result is a value
                target = None
                if isinstance(f, ast.Name):
                    target = self.table.lookup(k.module, f.id)
                plain = target is not None and not target.node.bases
                mentions_link = any(is_self_attr(x) and x.attr in self.links
                                    for a in list(v.args) + [kw.value for kw in v.keywords] for x in ast.walk(a))
                if mentions_link and plain:
                    this = "wrapper"
                    self.wrapper_classes[attr] = target
                elif mentions_link:
                    this = "resource"
                elif nm in DATA_CTORS or plain or (target is not None and self._is_value_class(target)):
                    this = "data"
                else:
                    this = "resource"
                order = {"data": 0, "wrapper": 1, "resource": 2}
                if order[this] > order[kind]:
                    kind = this
            kinds[attr] = kind
        return kinds

    @staticmethod
    def _is_value_class(c):
        return all(isinstance(b, (ast.Name, ast.Attribute)) and
                   (b.id if isinstance(b, ast.Name) else b.attr) in ("Enum", "IntEnum", "NamedTuple", "IntFlag", "Flag")
                   for b in c.node.bases)

    def kind(self, attr):
        return self.kinds.get(attr, "data")

    # -- expressions -----------------------------------------------------------------------------
    def root_self_attr(self, e):
        """self.X for an attribute/subscript chain self.X.a[b].c, else None"""
        while isinstance(e, (ast.Attribute, ast.Subscript)):
            if is_self_attr(e):
                return e.attr
            e = e.value
        return None

    def evs(self, es, defcls):
        out = []
        for e in es:
            out.extend(self.ev(e, defcls))
        return out

    def ev(self, e, defcls):
        if e is None or isinstance(e, (ast.Constant, ast.Name)):
            return []
        if isinstance(e, ast.Attribute):
            if is_self_attr(e):
                k = self.kind(e.attr)
                if k == "resource":
                    return ["MEff %d" % e.lineno]
                if k in ("link", "wrapper"):
                    return ["MDev %d" % e.lineno]
                return []
            return self.ev(e.value, defcls)
        if isinstance(e, ast.Call):
            return self.ev_call(e, defcls)
        if isinstance(e, ast.BoolOp):
            first = self.ev(e.values[0], defcls)
            rest = self.evs(e.values[1:], defcls)
            return first + ([mchoice("MSkip", mseq(rest))] if rest else [])
        if isinstance(e, ast.IfExp):
            a, b = self.ev(e.body, defcls), self.ev(e.orelse, defcls)
            return self.ev(e.test, defcls) + ([mchoice(mseq(a), mseq(b))] if a or b else [])
        if isinstance(e, ast.Compare):
            if len(e.ops) == 1 and isinstance(e.ops[0], (ast.Is, ast.IsNot)) and is_self_attr(e.left) \
                    and isinstance(e.comparators[0], ast.Constant) and e.comparators[0].value is None:
                return []
            return self.evs([e.left] + list(e.comparators), defcls)
        if isinstance(e, ast.BinOp):
            return self.evs([e.left, e.right], defcls) + ["MIo %d" % e.lineno]
        if isinstance(e, ast.UnaryOp):
            return self.ev(e.operand, defcls) + ([] if isinstance(e.op, ast.Not) else ["MIo %d" % e.lineno])
        if isinstance(e, ast.Subscript):
            return self.evs([e.value, e.slice], defcls) + ["MIo %d" % e.lineno]
        if isinstance(e, ast.Slice):
            return self.evs([e.lower, e.upper, e.step], defcls)
        if isinstance(e, (ast.Tuple, ast.List, ast.Set)):
            return self.evs(e.elts, defcls)
        if isinstance(e, ast.Dict):
            return self.evs([x for kv in zip(e.keys, e.values) for x in kv], defcls)
        if isinstance(e, ast.JoinedStr):
            return self.evs(e.values, defcls)
        if isinstance(e, ast.FormattedValue):
            return self.evs([e.value, e.format_spec], defcls)
        if isinstance(e, ast.Starred):
            return self.ev(e.value, defcls)
        if isinstance(e, ast.NamedExpr):
            return self.ev(e.value, defcls)
        if isinstance(e, (ast.ListComp, ast.SetComp, ast.GeneratorExp, ast.DictComp)):
            gens = e.generators
            first = self.ev(gens[0].iter, defcls)
            inner = []
            for i, g in enumerate(gens):
                if i > 0:
                    inner += self.ev(g.iter, defcls)
                inner += self.evs(g.ifs, defcls)
            inner += self.evs([e.key, e.value] if isinstance(e, ast.DictComp) else [e.elt], defcls)
            return first + (["MLoop (%s)" % mseq(inner)] if inner else []) + ["MIo %d" % e.lineno]
        if isinstance(e, ast.Lambda):
            b = self.ev(e.body, defcls)
            return [mchoice("MSkip", "MLoop (%s)" % mseq(b))] if b else []
        if isinstance(e, ast.Yield):
            hole = getattr(self, "_hole", None)
            if hole is not None:             # the single yield of a @contextmanager: the `with` body runs here
                self._hole_used += 1
                return self.ev(e.value, defcls) + [hole]
            return self.ev(e.value, defcls)  # plain generator: see function_body
        if isinstance(e, ast.YieldFrom):
            return self.ev(e.value, defcls) + ["MIo %d" % e.lineno]
        bail(e, "unsupported expression %s" % type(e).__name__, defcls.name)

    def ev_call(self, call, defcls):
        f = call.func
        args = self.evs(list(call.args) + [k.value for k in call.keywords], defcls)
        line = call.lineno
        # super().m(...)
        sm = self.super_method_call(call)
        if sm is not None:
            if sm in ("open", "close", "__enter__", "__exit__"):
                bail(call, "calls super().%s()" % sm, defcls.name)
            c, fn = self.resolve(sm, after=defcls)
            return args + [self.helper_atom(c, fn, line) if fn is not None else "MIo %d" % line]
        m = self.self_method_call(call)
        if m is not None:
            if m in ("open", "close", "__enter__", "__exit__"):
                bail(call, "calls self.%s()" % m, defcls.name)
            if m == "is_open":
                return args
            if self.is_base_check(m):
                return args + ["MCheckOpen" if m == "_check_is_open" else "MCheckClosed"]
            c, fn = self.resolve(m)
            if fn is not None:
                return args + [self.helper_atom(c, fn, line)]
            k = self.kind(m)
            if k in ("link", "wrapper"):
                return args + ["MDev %d" % line]
            if m in self.kinds and k == "data":
                return args + ["MIo %d" % line]
            if any(m in kc.other for kc in self.mro):      # class-level constant / alias: value, not a resource
                return args + ["MIo %d" % line]
            return args + ["MEff %d" % line]                # unknown callable attribute
        if isinstance(f, ast.Attribute):
            root = self.root_self_attr(f.value)
            if root is not None:
                k = self.kind(root)
                if k == "link":
                    if is_self_attr(f.value) and f.attr in ("open", "close"):
                        bail(call, "method %ss the link" % f.attr, defcls.name)
                    if not is_self_attr(f.value) or f.attr.startswith("_"):
                        return args + ["MEff %d" % line]     # reaches behind the transport's public API
                    return args + ["MDev %d" % line]
                if k == "wrapper":
                    return args + ["MDev %d" % line]
                if k == "resource":
                    return args + ["MEff %d" % line]
                return args + ["MIo %d" % line]
            return self.ev(f.value, defcls) + args + ["MIo %d" % line]
        if isinstance(f, ast.Name):
            return args + ["MIo %d" % line]
        return self.ev(f, defcls) + args + ["MIo %d" % line]

    # -- helpers as named definitions --------------------------------------------------------------
    def helper_atom(self, c, fn, line):
        key = (c.name, fn.name)
        if key in self.helpers:
            h = self.helpers[key]
            if h == "...":
                self.notes.append("recursive helper %s.%s treated as MEff" % key)
                return "MEff %d" % line
            return "MIo %d" % line if h is None else "MCall %s" % h
        self.helpers[key] = "..."
        try:
            text = self.function_body(fn, c)
        except TranslationError:
            self.helpers.pop(key, None)
            raise
        if not RELEVANT_RE.search(text):
            self.helpers[key] = None
            return "MIo %d" % line
        name = "%s__h_%s_%s" % (self.ident, coq_ident(c.name), coq_ident(fn.name))
        self.helpers[key] = name
        self.defs.append((name, text, "%s.%s (%s:%d)" % (c.name, fn.name, c.relpath, fn.lineno)))
        return "MCall %s" % name

    @staticmethod
    def is_contextmanager(fn):
        return any((isinstance(d, ast.Name) and d.id == "contextmanager") or
                   (isinstance(d, ast.Attribute) and d.attr == "contextmanager") for d in fn.decorator_list)

    def function_body(self, fn, defcls):
        gen = False
        for n in ast.walk(fn):
            if isinstance(n, ast.Await) or isinstance(fn, ast.AsyncFunctionDef):
                bail(n, "coroutine %s" % fn.name, defcls.name)
            if isinstance(n, (ast.Yield, ast.YieldFrom)):
                gen = True
        if gen and self.is_contextmanager(fn):
            bail(fn, "@contextmanager %s used outside a `with` statement" % fn.name, defcls.name)
        saved = getattr(self, "_hole", None)
        self._hole = None
        try:
            body = mseq(self.mblock(fn.body, defcls))
        finally:
            self._hole = saved
        if gen:
            # a generator's body runs piecewise while it is consumed: any number of partial runs, from the call on
            return "MLoop (MCall (%s))" % body
        return body

    def with_contextmanager(self, call, body_text, defcls):
        """`with self.<cm>(...): BODY` for a @contextmanager generator method: its body with BODY at the yield"""
        m = self.self_method_call(call)
        if m is None:
            return None
        c, fn = self.resolve(m)
        if fn is None or not self.is_contextmanager(fn):
            return None
        for n in ast.walk(fn):
            if isinstance(n, (ast.Return, ast.YieldFrom)):
                bail(n, "@contextmanager %s with return / yield from" % fn.name, c.name)
        saved = (getattr(self, "_hole", None), getattr(self, "_hole_used", 0))
        self._hole, self._hole_used = body_text, 0
        try:
            text = mseq(self.mblock(fn.body, c))
            if self._hole_used != 1:
                bail(fn, "@contextmanager %s does not have exactly one yield" % fn.name, c.name)
        finally:
            self._hole, self._hole_used = saved
        args = self.evs(list(call.args) + [k.value for k in call.keywords], defcls)
        return args + [text]

    # -- statements ----------------------------------------------------------------------------------
    def mblock(self, stmts, defcls):
        out = []
        for s in stmts:
            out.extend(self.mstmt(s, defcls))
        return out

    def flag_test(self, t):
        """True: test is `flag`, False: `not flag`, None: something else"""
        def is_flag(x):
            return is_self_attr(x, "_is_open") or (isinstance(x, ast.Call) and self.self_method_call(x) == "is_open"
                                                   and not x.args and not x.keywords)
        if is_flag(t):
            return True
        if isinstance(t, ast.UnaryOp) and isinstance(t.op, ast.Not) and is_flag(t.operand):
            return False
        return None

    def resource_none_test(self, t):
        """True for `self.R is not None`, False for `self.R is None` (R a None-able resource), else None"""
        if isinstance(t, ast.Compare) and len(t.ops) == 1 and is_self_attr(t.left) \
                and self.kind(t.left.attr) == "resource" and t.left.attr in self.nullable \
                and isinstance(t.comparators[0], ast.Constant) and t.comparators[0].value is None:
            if isinstance(t.ops[0], ast.IsNot):
                self.assumed_none_when_closed.add(t.left.attr)
                return True
            if isinstance(t.ops[0], ast.Is):
                self.assumed_none_when_closed.add(t.left.attr)
                return False
        return None

    def target_events(self, t, defcls):
        if isinstance(t, ast.Name):
            return []
        if is_self_attr(t):
            if t.attr == "_is_open":
                bail(t, "method writes self._is_open", defcls.name)
            if t.attr in self.links:
                bail(t, "method assigns the link attribute %s" % t.attr, defcls.name)
            return []
        if isinstance(t, ast.Attribute):
            return self.ev(t.value, defcls)
        if isinstance(t, ast.Subscript):
            return self.evs([t.value, t.slice], defcls) + ["MIo %d" % t.lineno]
        if isinstance(t, (ast.Tuple, ast.List)):
            return [x for e in t.elts for x in self.target_events(e, defcls)]
        if isinstance(t, ast.Starred):
            return self.target_events(t.value, defcls)
        bail(t, "unsupported assignment target", defcls.name)

    def mstmt(self, s, defcls):
        if isinstance(s, ast.Expr):
            return self.ev(s.value, defcls)
        if isinstance(s, ast.Assign):
            return self.ev(s.value, defcls) + [x for t in s.targets for x in self.target_events(t, defcls)]
        if isinstance(s, ast.AnnAssign):
            return self.ev(s.value, defcls) + self.target_events(s.target, defcls)
        if isinstance(s, ast.AugAssign):
            return self.ev(s.value, defcls) + self.target_events(s.target, defcls) + ["MIo %d" % s.lineno]
        if isinstance(s, ast.Return):
            return self.ev(s.value, defcls) + ["MReturn"]
        if isinstance(s, ast.Raise):
            return self.evs([s.exc, s.cause], defcls) + ["MRaise"]
        if isinstance(s, ast.If):
            st = self.static_test(s.test)
            if st is True:
                return self.mblock(s.body, defcls)
            if st is False:
                return self.mblock(s.orelse, defcls)
            a, b = mseq(self.mblock(s.body, defcls)), mseq(self.mblock(s.orelse, defcls))
            rn_ = self.resource_none_test(s.test)
            if rn_ is not None:
                # ASSUMPTION (checked dynamically on every run): a resource attribute that is None-able is None
                # whenever the instrument is closed, i.e. "resource present" implies "instrument open"
                present, absent = (a, b) if rn_ else (b, a)
                return [mchoice(mseq(["MAssumeOpen", present]), absent)]
            ft = self.flag_test(s.test)
            if ft is not None:
                x, y = ("MAssumeOpen", "MAssumeClosed") if ft else ("MAssumeClosed", "MAssumeOpen")
                return [mchoice(mseq([x, a]), mseq([y, b]))]
            t = self.ev(s.test, defcls)
            if a == "MSkip" and b == "MSkip":
                return t
            return t + [mchoice(a, b)]
        if isinstance(s, ast.While):
            t = self.ev(s.test, defcls)
            r = t + ["MLoop (%s)" % mseq(self.mblock(s.body, defcls) + t)]
            if s.orelse:
                r.append(mchoice("MSkip", mseq(self.mblock(s.orelse, defcls))))
            return r
        if isinstance(s, ast.For):
            r = self.ev(s.iter, defcls) + ["MLoop (%s)" % mseq(self.target_events(s.target, defcls)
                                                             + self.mblock(s.body, defcls))]
            if s.orelse:
                r.append(mchoice("MSkip", mseq(self.mblock(s.orelse, defcls))))
            return r
        if isinstance(s, ast.Try):
            r = mseq(self.mblock(s.body, defcls) + self.mblock(s.orelse, defcls))
            if s.handlers:
                alts, catch_all = [], False
                for h in s.handlers:
                    if h.type is None:
                        catch_all = True
                    else:
                        for nm in ([h.type] if not isinstance(h.type, ast.Tuple) else h.type.elts):
                            if isinstance(nm, ast.Name) and nm.id in ("Exception", "BaseException"):
                                catch_all = True
                    alts.append(mseq(self.mblock(h.body, defcls)))
                if not catch_all or s.orelse:
                    alts.append("MRaise")
                hd = alts[-1]
                for a in reversed(alts[:-1]):
                    hd = mchoice(a, hd)
                r = "MTry (%s) (%s)" % (r, hd)
            if s.finalbody:
                r = "MFinally (%s) (%s)" % (r, mseq(self.mblock(s.finalbody, defcls)))
            return [r]
        if isinstance(s, ast.With):
            saved = getattr(self, "_hole", None)
            self._hole = None            # a yield inside the with body of a contextmanager generator is not ours
            try:
                inner = self.mblock(s.body, defcls)
            finally:
                self._hole = saved
            for it in reversed(s.items):
                cm = self.with_contextmanager(it.context_expr, mseq(inner), defcls) \
                    if isinstance(it.context_expr, ast.Call) else None
                if cm is not None:
                    inner = cm
                else:
                    inner = self.ev(it.context_expr, defcls) + [
                        "MIo %d" % s.lineno, "MFinally (%s) (MIo %d)" % (mseq(inner), s.lineno)]
            return inner
        if isinstance(s, ast.Assert):
            return self.evs([s.test, s.msg], defcls) + ["MIo %d" % s.lineno]
        if isinstance(s, (ast.Pass, ast.Import, ast.ImportFrom, ast.Global, ast.Nonlocal, ast.ClassDef)):
            return []
        if isinstance(s, ast.Delete):
            return [x for t in s.targets for x in self.target_events(t, defcls)] + ["MIo %d" % s.lineno]
        if isinstance(s, (ast.Break, ast.Continue)):
            return ["MBreak"]
        if isinstance(s, ast.FunctionDef):
            b = self.function_body(s, defcls)
            if RELEVANT_RE.search(b):
                return [mchoice("MSkip", "MLoop (MCall (%s))" % b)]
            return []
        bail(s, "unsupported statement %s" % type(s).__name__, defcls.name)

    # -- entry ------------------------------------------------------------------------------------------
    def rpc_methods(self):
        names = []
        for k in self.mro:
            if k is self.base:
                continue
            for n in k.methods:
                if n not in names and n not in ("open", "close"):
                    names.append(n)
        out = []
        for n in sorted(names):
            c, fn = self.resolve(n)
            if c is self.base or fn is None:
                continue
            if any((isinstance(d, ast.Name) and d.id == "rpc_method") for d in fn.decorator_list):
                out.append((n, c, fn))
        return out

    def translate_methods(self):
        done, skipped = [], []
        for n, c, fn in self.rpc_methods():
            others = [ast.unparse(d) for d in fn.decorator_list if not (isinstance(d, ast.Name) and d.id == "rpc_method")]
            try:
                if others:
                    raise TranslationError("%s line %d: extra decorators %s" % (c.name, fn.lineno, others))
                nd = len(self.defs)
                text = "MCall (%s)" % self.function_body(fn, c)
                done.append({"name": n, "ident": "%s__m_%s" % (self.ident, coq_ident(n)), "prog": text,
                             "defcls": c.name, "def": "%s.%s (%s:%d)" % (c.name, n, c.relpath, fn.lineno),
                             "ndefs": len(self.defs)})
            except TranslationError as e:
                del self.defs[nd:]
                for k, v in list(self.helpers.items()):
                    if v == "..." or (v is not None and v not in [d[0] for d in self.defs]):
                        self.helpers.pop(k)
                skipped.append({"name": n, "defcls": c.name, "reason": str(e)})
        return done, skipped


IO_METHODS = ("write", "read", "read_until", "read_until_timeout", "discard_read")


def wrapper_facts(c):
    """a protocol class reaches the device only through the public I/O methods of the transport it was given:
    every call `self.<attr>.<m>(...)` in the class is on ONE attribute, which __init__ binds to a constructor
    parameter, with m one of the transport I/O methods.  -> list of problems"""
    bad = []
    init = c.methods.get("__init__")
    params = {a.arg for a in init.args.args} if init else set()
    stored = set()
    if init:
        for n in ast.walk(init):
            if isinstance(n, (ast.Assign, ast.AnnAssign)) and isinstance(n.value, ast.Name) and n.value.id in params:
                for t in (n.targets if isinstance(n, ast.Assign) else [n.target]):
                    if is_self_attr(t):
                        stored.add(t.attr)
    recv = set()
    for fn in c.methods.values():
        for n in ast.walk(fn):
            if isinstance(n, ast.Call) and isinstance(n.func, ast.Attribute) and is_self_attr(n.func.value):
                a, m = n.func.value.attr, n.func.attr
                if a in stored and m in IO_METHODS:
                    recv.add(a)
                elif a in stored:
                    bad.append("%s calls %s.%s (not a transport I/O method)" % (c.name, a, m))
                else:
                    # calls on plain data attributes (bytes, str ...) are fine only for known pure names
                    if m not in ("encode", "decode", "format", "strip", "rstrip", "lstrip", "split", "join", "get",
                                 "startswith", "endswith", "find", "append", "extend", "pop", "items", "keys", "values"):
                        bad.append("%s calls self.%s.%s()" % (c.name, a, m))
    if len(recv) != 1:
        bad.append("%s talks to %d transport attributes %s" % (c.name, len(recv), sorted(recv)))
    return bad


def transport_io_survey(table):
    """which I/O methods of the real transports refuse by themselves when the transport is closed (first statement
    is self._check_is_open()); the others delegate to one that does or only look at already-buffered data.  This is
    what [MDev] on a released link stands for; the transports themselves are the subject of C13."""
    tr = table.classes.get(("qmi.core.transport", "QMI_Transport"))
    out = {}
    for c in table.classes.values():
        if c.module != "qmi.core.transport" or c is tr:
            continue
        m = table.mro(c)
        if not m or tr not in m:
            continue
        for name in IO_METHODS:
            k = next((k for k in m if name in k.methods), None)
            if k is None or k is tr:
                continue
            b = _body(k.methods[name])
            first = b[0] if b else None
            if isinstance(first, ast.Expr) and isinstance(first.value, ast.Call) and is_self_attr(first.value.func, "_check_is_open"):
                out["%s.%s" % (c.name, name)] = "refuses first"
            elif isinstance(first, ast.Raise):
                out["%s.%s" % (c.name, name)] = "not implemented"
            else:
                out["%s.%s" % (c.name, name)] = "no check of its own (delegates / buffered data)"
    return out


def translate_all_methods(repo, res=None):
    """-> per class ident: dict(defs=[(name, text, origin)], methods=[...], skipped=[...], kinds={attr: kind})"""
    table = Table(repo)
    for f in ("qmi/core/instrument.py", "qmi/core/transport.py", "qmi/core/scpi_protocol.py"):
        table.load(f)
    idir = os.path.join(repo, "qmi", "instruments")
    for pkg in sorted(os.listdir(idir)):
        d = os.path.join(idir, pkg)
        if os.path.isdir(d):
            for fn in sorted(os.listdir(d)):
                if fn.endswith(".py"):
                    table.load("qmi/instruments/%s/%s" % (pkg, fn))
    table.resolve_bases()
    base = table.classes.get(("qmi.core.instrument", "QMI_Instrument"))
    res = res or translate(repo)
    entries = list(res["classes"]) + [x["entry"] for x in res["not_covered"] if "entry" in x]
    out = {}
    translate_all_methods.survey = transport_io_survey(table)
    for e in entries:
        c = table.classes[(e["module"], e["class"])]
        mro = table.mro(c)
        ctx = MCtx(table, c, mro, e["links"], e["live"], base, e["ident"])
        done, skipped = ctx.translate_methods()
        out[e["ident"]] = {"defs": ctx.defs, "methods": done, "skipped": skipped,
                           "kinds": {k: v for k, v in ctx.kinds.items() if v != "data"}, "notes": ctx.notes,
                           "none_when_closed": sorted(ctx.assumed_none_when_closed),
                           "wrapper_facts": sorted({p for a, wc in ctx.wrapper_classes.items()
                                                    for p in wrapper_facts(wc)})}
    return out


MHEADER = """(* GENERATED by harness/translators/t_c19_openclose.py from %(repo)s — do not edit.
   Every @rpc_method (other than open/close) of every transport-based driver class as a term of [mprog]; helpers
   that can reach the device or check the state are separate definitions referenced through MCall. *)
From Coq Require Import List Bool NArith String.
Import ListNotations.
Require Import QV.C19.Model.
Local Open Scope N_scope.

"""


def emit_method_programs(mres, repo):
    o = [MHEADER % {"repo": repo}]
    for ident, r in mres.items():
        o.append("(* ---- %s ---- *)\n" % ident)
        emitted = set()
        for name, text, origin in r["defs"]:
            if name in emitted:
                continue
            emitted.add(name)
            o.append("(* %s *)\nDefinition %s : mprog :=\n  %s.\n" % (origin, name, text))
        for m in r["methods"]:
            o.append("(* %s *)\nDefinition %s : mprog :=\n  %s.\n" % (m["def"], m["ident"], m["prog"]))
        o.append("Definition methods_%s : list (string * mprog) := [\n%s\n].\n\n" % (
            ident, ";\n".join('  ("%s"%%string, %s)' % (m["ident"], m["ident"]) for m in r["methods"])))
    o.append("Definition all_methods : list (string * mprog) :=\n  %s.\n" % (
        " ++ ".join("methods_%s" % i for i in mres) or "[]"))
    o.append("Definition method_verdicts : list (string * (bool * bool * bool)) :=\n"
             "  map (fun d => (fst d, (closed_safe (snd d), rn (an false false (snd d)), rx (an false false (snd d))))) all_methods.\n")
    return "".join(o)


def emit_method_obligations(mres, verdicts):
    o = ["\n(* ---- per-method obligations (verdicts computed by vm_compute of `method_verdicts`) ---- *)\n"]
    for ident, r in mres.items():
        for m in r["methods"]:
            if verdicts[m["ident"]][0]:
                o.append("Lemma %s_closed_safe : closed_safe %s = true.\nProof. vm_compute. reflexivity. Qed.\n"
                         % (m["ident"], m["ident"]))
            else:
                o.append("Lemma %s_unguarded : closed_safe %s = false.\nProof. vm_compute. reflexivity. Qed.\n"
                         % (m["ident"], m["ident"]))
    return "".join(o)



HEADER = """(* GENERATED by harness/translators/t_c19_openclose.py from %(repo)s — do not edit.
   One (open, close) effect-language program pair per transport-based driver class; `Io n`, `LinkOpen n`,
   `LinkClose n` carry the source line n of the statement they stand for. *)
From Coq Require Import List Bool NArith String.
Import ListNotations.
Require Import QV.C19.Model.
Local Open Scope N_scope.

"""


def emit_programs(res, repo):
    """Coq text: program definitions + the verdict table (evaluated by the harness with vm_compute)."""
    o = [HEADER % {"repo": repo}]
    for e in res["classes"]:
        o.append("(* %s.%s%s\n   open : %s\n   close: %s *)\n" % (
            e["module"], e["class"], " [only %s configured]" % e["config"] if e["config"] else "",
            e["open_def"], e["close_def"]))
        o.append("Definition %s_open : prog :=\n  %s.\n" % (e["ident"], e["open"]))
        o.append("Definition %s_close : prog :=\n  %s.\n\n" % (e["ident"], e["close"]))
    o.append("Definition drivers : list (string * driver) := [\n")
    o.append(";\n".join('  ("%s"%%string, mk_driver %s_open %s_close)' % (e["ident"], e["ident"], e["ident"])
                        for e in res["classes"]))
    o.append("\n].\n")
    o.append("Definition verdicts : list (string * bool * bool) :=\n"
             "  map (fun d => (fst d, ok_open (open_prog (snd d)), ok_close (close_prog (snd d)))) drivers.\n")
    return "".join(o)


def emit_obligations(res, verdicts):
    """Coq text appended after the programs: one Lemma per class and method.  verdicts: ident -> (ok_open, ok_close)
    as computed by Coq itself (vm_compute of `verdicts`); a false verdict is stated as `_refuted` so that the file
    always compiles and the kernel checks the refutation too."""
    o = ["\n(* ---- per-class obligations (verdicts computed by vm_compute of `verdicts`) ---- *)\n"]
    for e in res["classes"]:
        vo, vc = verdicts[e["ident"]]
        for which, v in (("open", vo), ("close", vc)):
            if v:
                o.append("Lemma %s_%s_ok : ok_%s %s_%s = true.\nProof. vm_compute. reflexivity. Qed.\n"
                         % (e["ident"], which, which, e["ident"], which))
            else:
                o.append("Lemma %s_%s_refuted : ok_%s %s_%s = false.\nProof. vm_compute. reflexivity. Qed.\n"
                         % (e["ident"], which, which, e["ident"], which))
    return "".join(o)


if __name__ == "__main__":
    import json
    import sys
    r = translate(sys.argv[1] if len(sys.argv) > 1 else "/repo")
    for e in r["classes"]:
        print("%-44s open : %s" % (e["ident"], e["open"]))
        print("%-44s close: %s" % ("", e["close"]))
    print(json.dumps(r["not_covered"], indent=1))
    print("facts:", r["facts"])
    print(len(r["classes"]), "classes")
