r"""C15 translator: APT packet classes of qmi/instruments/thorlabs/apt_packets.py -> Coq layout tables
(coq/gen/C15AptLayouts.v), regenerated from the live ctypes classes on every run.

For every class defined in apt_packets.py that derives from apt_protocol.AptMessage the translator
reads HEADER_ONLY, MESSAGE_ID, ctypes.sizeof and `_fields_` and emits
    Definition L_<name> : layout := [(FS 4, 1); (FC, 8); ...].
    Lemma wf_<name> : layout_wf L_<name> <sizeof> = true.  (vm_compute)           <- per-packet obligation
    Theorem rt_<name> : forall vss rest, values_ok L_<name> vss -> unpack .. (pack .. vss ++ rest) = vss /\ ...
                                                                     (generic theorem instantiated)
plus the table `apt_packets` of (HEADER_ONLY, MESSAGE_ID, sizeof, layout).

Fail closed: anything outside the recognised shapes raises TranslationError for that class (the check
reports a broken tie): not a LittleEndianStructure, `_pack_` != 1, a field type other than
c_uint8/16/32, c_int8/16/32, c_char or a one-dimensional array of these, a bit field, a field whose
ctypes offset/size differs from the running packed offset, sizeof != sum of field sizes, MESSAGE_ID
not an int in 0..65535, HEADER_ONLY not a bool, a HEADER_ONLY class that is not 6 bytes starting with
a 16-bit message_id.
"""
import ctypes
import inspect


class TranslationError(Exception):
    pass


_SCALARS = {
    ctypes.c_uint8: ("FU", 1), ctypes.c_uint16: ("FU", 2), ctypes.c_uint32: ("FU", 4),
    ctypes.c_int8: ("FS", 1), ctypes.c_int16: ("FS", 2), ctypes.c_int32: ("FS", 4),
    ctypes.c_char: ("FC", 1),
}


def _scalar(t, cname, fname):
    if t not in _SCALARS:
        raise TranslationError("%s.%s: unsupported field type %r" % (cname, fname, t))
    return _SCALARS[t]


def translate_class(cls):
    name = cls.__name__
    if not issubclass(cls, ctypes.LittleEndianStructure):
        raise TranslationError("%s is not a LittleEndianStructure" % name)
    if getattr(cls, "_pack_", None) != 1:
        raise TranslationError("%s: _pack_ is %r, expected 1/True" % (name, getattr(cls, "_pack_", None)))
    ho = cls.__dict__.get("HEADER_ONLY", False)
    if not isinstance(ho, bool):
        raise TranslationError("%s: HEADER_ONLY is %r" % (name, ho))
    mid = getattr(cls, "MESSAGE_ID", None)
    if isinstance(mid, bool) or not isinstance(mid, int) or not 0 <= mid <= 0xFFFF:
        raise TranslationError("%s: MESSAGE_ID is %r" % (name, mid))
    fields = cls.__dict__.get("_fields_")
    if not isinstance(fields, (list, tuple)) or not fields:
        raise TranslationError("%s: no _fields_ of its own" % name)
    for base in cls.__mro__[1:]:
        if "_fields_" in base.__dict__:
            raise TranslationError("%s: inherits fields from %s" % (name, base.__name__))
    layout, off = [], 0
    for f in fields:
        if len(f) != 2:
            raise TranslationError("%s: bit field or malformed entry %r" % (name, f))
        fname, ft = f
        if not isinstance(fname, str):
            raise TranslationError("%s: field name %r" % (name, fname))
        if isinstance(ft, type) and issubclass(ft, ctypes.Array):
            kind, w = _scalar(ft._type_, name, fname)
            n = ft._length_
            if not isinstance(n, int) or n < 1:
                raise TranslationError("%s.%s: array length %r" % (name, fname, n))
        else:
            kind, w = _scalar(ft, name, fname)
            n = 1
            if kind == "FC":
                raise TranslationError("%s.%s: scalar c_char field (only c_char arrays are modelled)" % (name, fname))
        d = getattr(cls, fname)
        if d.offset != off or d.size != w * n:
            raise TranslationError("%s.%s: ctypes offset/size %d/%d, packed layout expects %d/%d" % (
                name, fname, d.offset, d.size, off, w * n))
        layout.append({"name": fname, "kind": kind, "width": w, "count": n,
                       "array": isinstance(ft, type) and issubclass(ft, ctypes.Array)})
        off += w * n
    if ctypes.sizeof(cls) != off:
        raise TranslationError("%s: sizeof %d != sum of fields %d" % (name, ctypes.sizeof(cls), off))
    if ho:
        if off != 6 or layout[0]["name"] != "message_id" or (layout[0]["kind"], layout[0]["width"], layout[0]["count"]) != ("FU", 2, 1):
            raise TranslationError("%s: HEADER_ONLY packet is not a 6-byte header starting with a 16-bit message_id" % name)
    return {"name": name, "header_only": ho, "message_id": mid, "sizeof": off, "layout": layout, "cls": cls}


def translate():
    """-> (packets, errors) for every AptMessage subclass defined in apt_packets.py"""
    import qmi.instruments.thorlabs.apt_packets as P
    from qmi.instruments.thorlabs.apt_protocol import AptMessage
    packets, errors = [], []
    for n, c in sorted(inspect.getmembers(P, inspect.isclass)):
        if c is AptMessage or not issubclass(c, AptMessage) or c.__module__ != P.__name__:
            continue
        try:
            packets.append(translate_class(c))
        except TranslationError as e:
            errors.append((n, str(e)))
        except Exception as e:  # noqa -- anything unexpected is a refusal as well
            errors.append((n, "%s: %s" % (type(e).__name__, e)))
    return packets, errors


def coq_layout(layout):
    def ty(f):
        return "FC" if f["kind"] == "FC" else "%s %d" % (f["kind"], f["width"])
    return "[" + "; ".join("(%s, %d)" % (ty(f), f["count"]) for f in layout) + "]%nat"


def emit(path, packets, with_obligations=True):
    out = ["(* GENERATED by harness/translators/t_c15_apt.py from apt_packets.py -- do not edit *)",
           "From Coq Require Import List NArith ZArith.", "Import ListNotations.",
           "Require Import QV.C15.ModelBase QV.C15.ModelAptFields QV.C15.ProofsAptFields.", ""]
    for p in packets:
        out.append("(* %s: HEADER_ONLY=%s MESSAGE_ID=0x%04x sizeof=%d; fields: %s *)" % (
            p["name"], p["header_only"], p["message_id"], p["sizeof"],
            ", ".join("%s:%s%d x%d" % (f["name"], f["kind"], f["width"], f["count"]) for f in p["layout"])))
        out.append("Definition L_%s : layout := %s." % (p["name"], coq_layout(p["layout"])))
        if with_obligations:
            out.append("Lemma wf_%s : layout_wf L_%s %d%%N = true.\nProof. vm_compute. reflexivity. Qed." % (
                p["name"], p["name"], p["sizeof"]))
            out.append("Theorem rt_%s : forall vss rest, values_ok L_%s vss ->\n"
                       "  unpack L_%s (pack L_%s vss ++ rest) = vss /\\ len (pack L_%s vss) = %d%%N /\\ (%d < 65536)%%N.\n"
                       "Proof. exact (fields_roundtrip L_%s %d%%N wf_%s). Qed.\nPrint Assumptions rt_%s." % (
                           p["name"], p["name"], p["name"], p["name"], p["name"], p["sizeof"], p["sizeof"],
                           p["name"], p["sizeof"], p["name"], p["name"]))
        out.append("")
    out.append("Definition apt_packets : list (bool * N * N * layout) := [")
    out.append(";\n".join("  (%s, %d%%N, %d%%N, L_%s)" % ("true" if p["header_only"] else "false", p["message_id"],
                                                       p["sizeof"], p["name"]) for p in packets))
    out.append("].")
    with open(path, "w") as f:
        f.write("\n".join(out) + "\n")
