"""C05 translator: live QMI_RpcObject subclasses -> Coq class tables (coq/gen/C05Classes.v).

On every run:
  * walk the `qmi` package of the tree under test and import every module (a module that cannot be
    imported — missing vendor library, wrong platform — is listed as not covered, with the reason);
  * collect QMI_RpcObject and every (transitive) subclass defined in qmi.*;
  * for each class walk `__mro__`; for each class K of the MRO build one *layer*:
      - member table  name -> kind  from vars(K) (raw objects, no descriptor protocol):
          KFunc m     plain python function,             m = bool(getattr(f, "_rpc_method", False))
          KStatic m   staticmethod around a plain function, m = marker of __func__
          KClassM m   classmethod  around a plain function, m = marker of __func__
          KProperty   property / getset_descriptor / member_descriptor (data descriptors)
          KBuiltin    wrapper_descriptor, method_descriptor, classmethod_descriptor, builtin function
          KData m     any other object without __get__;  m = bool(getattr(v, "_rpc_method", False))
          KOther      anything else (unknown descriptor type): class_ok fails closed
      - instance attribute names: python `ast` scan of the source of every function / property accessor
        found in vars(K) for stores/deletes of  <first parameter>.<name>  (all assignment forms, nested
        functions included, private names mangled) and  setattr(<first parameter>, "<literal>", ...);
      - K's own `_rpc_constants`;
  * per class: the data-descriptor names of the metaclass chain and the declared signal names
    (QMI_RpcObject.__init__ installs one instance attribute per declared signal);
  * write every layer once, every class as `mkCls [layers] meta signals`, one lemma
    `class_ok <class> = true` (vm_compute) per class, and the instantiation of the generic theorem.

Fail closed: a function whose source cannot be read or parsed, a dynamic `setattr(self, <expr>, ...)` /
`self.__dict__` / `vars(self)` manipulation other than the one known loop over declared signals in
QMI_RpcObject.__init__ and QMI_LoopTask-style `setattr(self, sig_desc.name, ...)`, or a non-string key in
a class dictionary raises TranslationError for that class (reported by the check as a broken tie).
"""
import ast
import importlib
import inspect
import pkgutil
import re
import sys
import textwrap
import types


class TranslationError(Exception):
    pass


# ---------------------------------------------------------------------------------------------
# collecting classes
# ---------------------------------------------------------------------------------------------

def walk_qmi():
    """Import every module of the qmi package.  -> (n_imported, [(module, reason)])"""
    import qmi
    not_covered = []
    n = 0

    def onerror(name):
        e = sys.exc_info()[1]
        not_covered.append((name, "%s: %s" % (type(e).__name__, str(e)[:160])))

    for m in pkgutil.walk_packages(qmi.__path__, "qmi.", onerror=onerror):
        try:
            importlib.import_module(m.name)
            n += 1
        except BaseException as e:  # noqa  (vendor libraries raise all sorts of things at import)
            not_covered.append((m.name, "%s: %s" % (type(e).__name__, str(e)[:160])))
    return n, not_covered


def all_subclasses(base):
    out, todo = [], [base]
    seen = set()
    while todo:
        c = todo.pop()
        for s in c.__subclasses__():
            if s not in seen:
                seen.add(s)
                out.append(s)
                todo.append(s)
    return out


def shipped_classes():
    """QMI_RpcObject + all its subclasses defined in modules qmi.* (sorted, deterministic)."""
    from qmi.core.rpc import QMI_RpcObject
    cl = [QMI_RpcObject] + [c for c in all_subclasses(QMI_RpcObject)
                            if (c.__module__ or "").split(".")[0] == "qmi"]
    return sorted(set(cl), key=lambda c: (c.__module__, c.__qualname__))


# ---------------------------------------------------------------------------------------------
# member classification
# ---------------------------------------------------------------------------------------------

BUILTIN_DESCR = (types.WrapperDescriptorType, types.MethodDescriptorType, types.ClassMethodDescriptorType,
                 types.BuiltinFunctionType, types.BuiltinMethodType, types.MethodWrapperType)
DATA_DESCR = (property, types.GetSetDescriptorType, types.MemberDescriptorType)


def marked(f):
    try:
        return bool(getattr(f, "_rpc_method", False))
    except Exception:  # noqa
        raise TranslationError("cannot read the marker of %r" % (f,))


def classify(v):
    """kind of a raw class-dictionary value -> (constructor, flag or None)"""
    if isinstance(v, types.FunctionType):
        return ("KFunc", marked(v))
    if isinstance(v, staticmethod):
        f = v.__func__
        return ("KStatic", marked(f)) if isinstance(f, types.FunctionType) else ("KOther", None)
    if isinstance(v, classmethod):
        f = v.__func__
        return ("KClassM", marked(f)) if isinstance(f, types.FunctionType) else ("KOther", None)
    if isinstance(v, DATA_DESCR):
        return ("KProperty", None)
    if isinstance(v, BUILTIN_DESCR):
        return ("KBuiltin", None)
    tv = type(v)
    if any(hasattr(tv, a) for a in ("__get__", "__set__", "__delete__")):
        return ("KOther", None)
    return ("KData", marked(v))


def kind_term(k):
    c, f = k
    return c if f is None else "%s %s" % (c, "true" if f else "false")


# ---------------------------------------------------------------------------------------------
# instance attribute scan
# ---------------------------------------------------------------------------------------------

def _mangle(attr, clsname):
    if attr.startswith("__") and not attr.endswith("__"):
        cn = clsname.lstrip("_")
        if cn:
            return "_" + cn + attr
    return attr


# the recognised dynamic form: a loop over declared signals installing one attribute per signal
def _is_signal_setattr(call):
    a = call.args[1]
    return (isinstance(a, ast.Attribute) and a.attr == "name" and isinstance(a.value, ast.Name)
            and a.value.id == "sig_desc")


def scan_function(func, owner_name):
    """names assigned on the first parameter inside func (a python function object)."""
    code = func.__code__
    if code.co_name == "<lambda>":
        return set()          # a lambda cannot contain an attribute store
    try:
        src = inspect.getsource(code)
    except (OSError, TypeError) as e:
        raise TranslationError("no source for %s.%s: %s" % (owner_name, code.co_name, e))
    try:
        tree = ast.parse(textwrap.dedent(src))
    except SyntaxError as e:
        raise TranslationError("cannot parse source of %s.%s: %s" % (owner_name, code.co_name, e))
    fdefs = [n for n in ast.walk(tree) if isinstance(n, (ast.FunctionDef, ast.AsyncFunctionDef))
             and n.name == code.co_name]
    if not fdefs:
        raise TranslationError("no def %s in the source of %s.%s" % (code.co_name, owner_name, code.co_name))
    fd = fdefs[0]
    params = [a.arg for a in fd.args.posonlyargs + fd.args.args]
    if not params:
        return set()
    me = params[0]
    qn = getattr(func, "__qualname__", "")
    parts = qn.split(".")
    clsname = parts[-2] if len(parts) >= 2 and parts[-2] != "<locals>" else owner_name
    out = set()
    for n in ast.walk(fd):
        if isinstance(n, ast.Attribute) and isinstance(n.value, ast.Name) and n.value.id == me:
            if isinstance(n.ctx, (ast.Store, ast.Del)):
                out.add(_mangle(n.attr, clsname))
            elif n.attr == "__dict__":
                raise TranslationError("%s.%s touches %s.__dict__" % (owner_name, code.co_name, me))
        elif isinstance(n, ast.Call) and isinstance(n.func, ast.Name) and n.func.id in ("setattr", "delattr", "vars"):
            if n.args and isinstance(n.args[0], ast.Name) and n.args[0].id == me:
                if n.func.id == "vars":
                    raise TranslationError("%s.%s uses vars(%s)" % (owner_name, code.co_name, me))
                if len(n.args) >= 2 and isinstance(n.args[1], ast.Constant) and isinstance(n.args[1].value, str):
                    out.add(n.args[1].value)
                elif n.func.id == "setattr" and len(n.args) >= 2 and _is_signal_setattr(n):
                    pass      # accounted for by the class's declared signal names
                else:
                    raise TranslationError("%s.%s: dynamic %s on %s" % (owner_name, code.co_name, n.func.id, me))
    return out


def functions_of(v):
    """python functions whose bodies run with the instance as first parameter"""
    if isinstance(v, types.FunctionType):
        fs = [v]
        w = v
        seen = 0
        while hasattr(w, "__wrapped__") and seen < 10:
            w = w.__wrapped__
            seen += 1
            if isinstance(w, types.FunctionType):
                fs.append(w)
        return fs
    if isinstance(v, property):
        return [f for f in (v.fget, v.fset, v.fdel) if isinstance(f, types.FunctionType)]
    return []


# ---------------------------------------------------------------------------------------------
# layers and classes
# ---------------------------------------------------------------------------------------------

def layer_of(K):
    members = []
    inst = set()
    for nm, v in vars(K).items():
        if not isinstance(nm, str):
            raise TranslationError("non-string key %r in vars(%s)" % (nm, K.__name__))
        k = classify(v)
        if nm == "__getattribute__" and K is not object:
            k = ("KFunc", False) if k[0] == "KFunc" else ("KOther", None)
        members.append((nm, k))
        for f in functions_of(v):
            inst |= scan_function(f, K.__name__)
    consts = []
    rc = vars(K).get("_rpc_constants")
    if rc is not None:
        try:
            consts = [str(x) for x in rc]
        except TypeError:
            raise TranslationError("_rpc_constants of %s is not iterable" % K.__name__)
    return {"members": members, "inst": sorted(inst), "consts": consts}


def meta_data_names(cls):
    out = set()
    for M in type(cls).__mro__:
        for nm, v in vars(M).items():
            tv = type(v)
            if hasattr(tv, "__set__") or hasattr(tv, "__delete__"):
                out.add(nm)
    return sorted(out)


def class_table(cls, layer_cache):
    mro = []
    for K in cls.__mro__:
        if K not in layer_cache:
            layer_cache[K] = layer_of(K)
        mro.append(K)
    if type(cls).__getattribute__ is not type.__getattribute__:
        raise TranslationError("metaclass of %s overrides __getattribute__" % cls.__name__)
    if "__getattr__" in {n for M in type(cls).__mro__ for n in vars(M)}:
        raise TranslationError("metaclass of %s defines __getattr__" % cls.__name__)
    sigs = [s.name for s in getattr(cls, "_qmi_signals", ())]
    return {"cls": cls, "mro": mro, "meta": meta_data_names(cls), "signals": sigs}


# ---------------------------------------------------------------------------------------------
# the same lookups, in python (used by the harness for bucketing only; the verdicts come from Coq)
# ---------------------------------------------------------------------------------------------

def resolve(tab, layer_cache, name):
    for K in tab["mro"]:
        for nm, k in layer_cache[K]["members"]:
            if nm == name:
                return k
    return None


def scanned(tab, layer_cache):
    out = set(tab["signals"])
    for K in tab["mro"]:
        out |= set(layer_cache[K]["inst"])
    return out


# ---------------------------------------------------------------------------------------------
# Coq emission
# ---------------------------------------------------------------------------------------------

def coq_name(s):
    if all(0x20 <= ord(ch) <= 0x7e and ch != '"' for ch in s):
        return '"%s"' % s
    return "(of_codes [%s]%%N)" % ";".join(str(b) for b in s.encode("utf-8", "surrogatepass"))


def coq_names(l):
    return "[" + "; ".join(coq_name(x) for x in l) + "]"


class Namer:
    def __init__(self):
        self.used = {}
        self.ids = {}

    def ident(self, prefix, obj):
        if (prefix, obj) in self.ids:
            return self.ids[(prefix, obj)]
        base = prefix + re.sub(r"[^A-Za-z0-9_]", "_", "%s.%s" % (obj.__module__, obj.__qualname__))
        n = self.used.get(base, 0)
        self.used[base] = n + 1
        ident = base if n == 0 else "%s_%d" % (base, n)
        self.ids[(prefix, obj)] = ident
        return ident


def emit(path, tables, layer_cache, listname, with_lemmas, header=""):
    """Write the Coq file.  Returns [(class ident, lemma name)]."""
    nm = Namer()
    lines = ["(* GENERATED by harness/translators/t_c05_classes.py on every run — do not edit. %s *)" % header,
             "From Coq Require Import List String Bool NArith.", "Import ListNotations.",
             "Require Import QV.C05.Model QV.C05.Proofs.", "Open Scope string_scope.", ""]
    done_layers = set()
    metas = {}
    obligations = []
    entries = []
    for t in tables:
        for K in t["mro"]:
            if K in done_layers:
                continue
            done_layers.add(K)
            L = layer_cache[K]
            lines.append("Definition %s : layer := mkLayer\n  [%s]\n  %s\n  %s." % (
                nm.ident("L_", K),
                ";\n   ".join("(%s, %s)" % (coq_name(n), kind_term(k)) for n, k in L["members"]),
                coq_names(L["inst"]), coq_names(L["consts"])))
        mk = tuple(t["meta"])
        if mk not in metas:
            metas[mk] = "META_%d" % len(metas)
            lines.append("Definition %s : list name := %s." % (metas[mk], coq_names(t["meta"])))
        cid = nm.ident("C_", t["cls"])
        lines.append("Definition %s : cls := mkCls [%s] %s %s." % (
            cid, "; ".join(nm.ident("L_", K) for K in t["mro"]), metas[mk], coq_names(t["signals"])))
        t["ident"] = cid
        entries.append(cid)
        if with_lemmas:
            lines.append("Lemma ok_%s : class_ok %s = true. Proof. vm_compute. reflexivity. Qed." % (cid, cid))
            obligations.append((cid, "ok_" + cid))
    lines.append("")
    lines.append("Definition %s : list cls := [%s]." % (listname, "; ".join(entries)))
    if with_lemmas:
        lines.append("""
Theorem %(l)s_all_ok : forallb class_ok %(l)s = true.
Proof. vm_compute. reflexivity. Qed.

(* the generic theorem instantiated on every translated class *)
Theorem %(l)s_advertised_eq_dispatchable : forall c, In c %(l)s ->
  forall inst, incl inst (scanned c) -> forall n, In n (advertised c) <-> dispatchable c inst n = true.
Proof.
  intros c Hin inst. apply advertised_eq_dispatchable.
  pose proof %(l)s_all_ok as H. rewrite forallb_forall in H. exact (H c Hin).
Qed.
Print Assumptions %(l)s_advertised_eq_dispatchable.
""" % {"l": listname})
    with open(path, "w") as f:
        f.write("\n".join(lines) + "\n")
    return obligations


def translate(classes, layer_cache=None):
    """-> (tables, errors) ; errors = [(class, message)] for classes that could not be translated."""
    layer_cache = {} if layer_cache is None else layer_cache
    tables, errors = [], []
    for c in classes:
        try:
            tables.append(class_table(c, layer_cache))
        except TranslationError as e:
            errors.append((c, str(e)))
    return tables, errors, layer_cache


def summary(tables, layer_cache):
    """per-class member counts by kind (for the evidence)"""
    out = {}
    for t in tables:
        cnt = {}
        seen = set()
        for K in t["mro"]:
            for n, k in layer_cache[K]["members"]:
                if n in seen:
                    continue
                seen.add(n)
                kt = kind_term(k)
                cnt[kt] = cnt.get(kt, 0) + 1
        cnt["instance_attrs"] = len(scanned(t, layer_cache))
        out["%s.%s" % (t["cls"].__module__, t["cls"].__qualname__)] = cnt
    return out


if __name__ == "__main__":
    import os
    repo = os.environ.get("QMI_REPO", "/repo")
    sys.path.insert(0, repo)
    nmod, bad = walk_qmi()
    cl = shipped_classes()
    tabs, errs, cache = translate(cl)
    out = sys.argv[1] if len(sys.argv) > 1 else "/verif/coq/gen/C05Classes.v"
    obl = emit(out, tabs, cache, "shipped", True)
    print("modules imported: %d, not covered: %r" % (nmod, bad))
    print("classes: %d translated, %d errors, %d layers" % (len(tabs), len(errs), len(cache)))
    for c, e in errs:
        print("  ERROR", c, e)
