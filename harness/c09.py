"""C09 — QMI_SignalReceiver queue: bounded, oldest first, losses countable.

Correspondence: the real qmi.core.pubsub.QMI_SignalReceiver is driven through
_receive_signal / get_next_signal(0) / discard_all / get_queue_length / has_signal_ready on
generated histories; the Coq model (theories/C09/Model.v) is evaluated on the same histories
and must produce the same outputs.  The property oracle below re-states C09 directly on the
implementation's observations (independent of the model).
"""
import itertools

from common import cZ, cN, cnat, cbool, clist

THEORY = "C09"


def impl_run(cap, pol, ops, start=0):
    """start: the number of arrivals the receiver has already counted (a very long earlier history: the only state such
    a history leaves behind is the counter); the observed numbers are reported relative to it"""
    from qmi.core.pubsub import QMI_SignalReceiver, QMI_SignalMessage
    from qmi.core.messaging import QMI_MessageHandlerAddress as Addr
    from qmi.core.exceptions import QMI_TimeoutException
    r = QMI_SignalReceiver(cap, QMI_SignalReceiver.DISCARD_OLD if pol == "old" else QMI_SignalReceiver.DISCARD_NEW)
    if start:
        from common import poke
        poke(r, "_receiver_seqnr", start)
    src, dst = Addr("ctx", "pub"), Addr("ctx", "$pubsub")
    outs = []
    for o in ops:
        if o[0] == "A":
            res = r._receive_signal(QMI_SignalMessage(src, dst, "sig", (o[1],)))
            outs.append(("none",) if res is None else ("weird", repr(res)))
        elif o[0] == "G":
            try:
                s = r.get_next_signal(0)
                ok = (s.publisher_context == "ctx" and s.publisher_name == "pub" and s.signal_name == "sig"
                      and isinstance(s.args, tuple) and len(s.args) == 1)
                outs.append(("sig", s.args[0], s.receiver_seqnr - start) if ok else ("weird", repr(s)))
            except QMI_TimeoutException:
                outs.append(("timeout",))
        elif o[0] == "D":
            res = r.discard_all()
            outs.append(("none",) if res is None else ("weird", repr(res)))
        elif o[0] == "L":
            outs.append(("len", r.get_queue_length()))
        elif o[0] == "R":
            outs.append(("ready", bool(r.has_signal_ready())))
    return outs


def oracle(cap, pol, ops, outs):
    """C09 on the implementation's observations; returns None or a description."""
    arrivals = [o[1] for o in ops if o[0] == "A"]
    last = -1
    qlen = 0  # what the length should be according to the property text (bounded queue)
    for o, x in zip(ops, outs):
        if x[0] == "weird":
            return "unexpected result %r" % (x,)
        if o[0] == "A":
            qlen = min(cap, qlen + 1)
        elif o[0] == "D":
            qlen = 0
        elif o[0] == "G":
            if x[0] == "sig":
                if qlen == 0:
                    return "a signal was returned from an empty queue"
                qlen -= 1
                _, p, n = x
                if not (n > last):
                    return "sequence numbers not strictly increasing (%d after %d)" % (n, last)
                if n >= len(arrivals) or arrivals[n] != p:
                    return "signal number %d does not carry the payload of arrival %d" % (n, n)
                last = n
            else:
                if qlen != 0:
                    return "timeout although a signal was queued"
        elif o[0] == "L":
            if x[1] != qlen or x[1] > cap:
                return "queue length %d, expected %d (cap %d)" % (x[1], qlen, cap)
        elif o[0] == "R":
            if x[1] != (qlen > 0):
                return "has_signal_ready=%r with %d queued" % (x[1], qlen)
    return None


def oracle_order(cap, pol, ops, outs):
    """Oldest-first and policy: simulate which arrival numbers must be queued."""
    q, n = [], 0
    for o, x in zip(ops, outs):
        if o[0] == "A":
            if len(q) == cap:
                if pol == "old":
                    q.pop(0)
                    q.append(n)
            else:
                q.append(n)
            n += 1
        elif o[0] == "D":
            q = []
        elif o[0] == "G" and x[0] == "sig":
            if not q or q[0] != x[2]:
                return "Get returned number %d, oldest queued is %r" % (x[2], q[:1])
            q.pop(0)
    return None


def coq_case(cap, pol, ops, outs):
    def op(o):
        return {"A": lambda: "Arrive %s" % cZ(o[1]), "G": lambda: "Get", "D": lambda: "DiscardAll",
                "L": lambda: "Len", "R": lambda: "Ready"}[o[0]]()

    def out(x):
        if x[0] == "none":
            return "ONone"
        if x[0] == "sig":
            return "OSig %s %s" % (cZ(x[1]), cN(x[2]))
        if x[0] == "timeout":
            return "OTimeout"
        if x[0] == "len":
            return "OLen %s" % cnat(x[1])
        if x[0] == "ready":
            return "OReady %s" % cbool(x[1])
        return "OLen 4999%nat"  # 'weird': cannot match any model output of these histories
    return "(%s, %s, %s, %s)" % (cnat(cap), "DiscardOld" if pol == "old" else "DiscardNew",
                                 clist([op(o) for o in ops]), clist([out(x) for x in outs]))


def gen_cases(ck):
    rng = ck.rng
    cases = []
    # exhaustive small scope: caps 1..2(3), both policies, all op-kind sequences up to length L
    L = 5 if ck.tier == "quick" else 7
    kinds = "AGDLR"
    for cap in (1, 2) if ck.tier == "quick" else (1, 2, 3):
        for pol in ("old", "new"):
            for n in range(0, L + 1):
                for ks in itertools.product(kinds, repeat=n):
                    if n >= 5 and (ks.count("L") + ks.count("R")) > 1:
                        continue
                    ctr = itertools.count(100)
                    ops = [("A", next(ctr)) if k == "A" else (k,) for k in ks]
                    cases.append((cap, pol, ops, "exhaustive"))
    # random long histories, larger capacities, arrival-heavy and read-heavy mixes
    nrand = 1500 if ck.tier == "quick" else 40000
    for _ in range(nrand):
        cap = rng.choice([1, 2, 3, 4, 5, 7, 10, 16, 50])
        pol = rng.choice(["old", "new"])
        wa = rng.choice([1, 2, 4, 8])
        n = rng.randint(1, 80 if cap < 16 else 200)
        ops = []
        for _ in range(n):
            k = rng.choices("AGDLR", weights=[wa * 3, 3, 0.3, 1, 1])[0]
            ops.append(("A", rng.randint(-5, 1000)) if k == "A" else (k,))
        cases.append((cap, pol, ops, "random"))
    return cases


LONG_STARTS = [2 ** 31 - 2, 2 ** 32 - 3, 2 ** 32 - 1, 2 ** 53 - 2, 2 ** 63 - 2, 2 ** 64 - 3, 10 ** 30]


def run_long_history(ck):
    """the sequence numbers after a VERY long history (counter near 2**31, 2**32, 2**53, 2**63, 2**64, beyond): the
    numbers keep increasing and gaps keep counting the losses (Python integers do not wrap; the model's nat neither)"""
    rng = ck.rng
    for start in LONG_STARTS:
        for pol in ("old", "new"):
            for cap in (1, 2, 5):
                ops = []
                for _ in range(rng.randint(8, 14)):
                    ops.append(("A", len(ops)) if rng.random() < 0.65 else ("G",))
                ops += [("G",)] * 3
                outs = impl_run(cap, pol, ops, start=start)
                ck.note_case(("long", start, pol, cap, tuple(ops)), True)
                ck.count("long-history")
                for f in (oracle, oracle_order):
                    why = f(cap, pol, ops, outs)
                    if why:
                        ck.report("oracle:long-history", "C09 fails on the implementation after %d earlier arrivals: %s" % (start, why),
                                  {"cap": cap, "policy": pol, "ops": ops, "start": start, "impl_outputs": outs})
                        break


def scenario_blocking(s, timeout, arrive_at, n_arrivals):
    """H3: a reader blocked in get_next_signal(timeout) and an arriver thread (not task threads)."""
    import threading as real_threading
    import dsched
    from qmi.core.pubsub import QMI_SignalReceiver, QMI_SignalMessage
    from qmi.core.messaging import QMI_MessageHandlerAddress as Addr
    from qmi.core.exceptions import QMI_TimeoutException
    r = QMI_SignalReceiver(4)
    obs = {"result": None, "t_return": None, "t_arrival": None}
    s.obs = obs

    def arriver():
        if arrive_at is not None:
            dsched.FAKE_TIME.sleep(arrive_at)
            for k in range(n_arrivals):
                if obs["t_arrival"] is None:
                    obs["t_arrival"] = s.clock
                r._receive_signal(QMI_SignalMessage(Addr("c", "p"), Addr("c", "$pubsub"), "sig", (k,)))
    th = real_threading.Thread(target=arriver)
    th.start()
    try:
        sig = r.get_next_signal(timeout)
        obs["result"] = ("sig", sig.args[0], sig.receiver_seqnr)
    except QMI_TimeoutException:
        obs["result"] = ("timeout",)
    obs["t_return"] = s.clock
    th.join()
    return obs


def scenario_task_drain(s, n_queued, timeout, stop_before, extra_read):
    """H3: get_next_signal called from a TASK thread (it waits through the task's stoppable wait): signals already
    queued must be returned at once, oldest first, also when the task has been asked to stop."""
    import threading as real_threading
    import logging
    import qmi.core.task as T
    from qmi.core.pubsub import QMI_SignalReceiver, QMI_SignalMessage
    from qmi.core.messaging import QMI_MessageHandlerAddress as Addr
    from qmi.core.exceptions import QMI_TimeoutException, QMI_TaskStopException
    logging.disable(logging.CRITICAL)
    r = QMI_SignalReceiver(8)
    obs = {"reads": [], "t0": None}
    s.obs = obs
    import dsched
    go = dsched.Event()       # cooperative: a real Event would block the managed thread outside the scheduler

    class Runner:
        _context = None
        _thread = None

    class Drain(T.QMI_Task):
        def run(self):
            go.wait()
            obs["t0"] = s.clock
            for k in range(n_queued + (1 if extra_read else 0)):
                try:
                    sig = r.get_next_signal(timeout)
                    obs["reads"].append(("sig", sig.args[0], sig.receiver_seqnr, s.clock))
                except QMI_TimeoutException:
                    obs["reads"].append(("timeout", None, None, s.clock))
                except QMI_TaskStopException:
                    obs["reads"].append(("stop", None, None, s.clock))
    runner = Runner()
    th = T._TaskThread(runner, "t", Drain, (), {})
    runner._thread = th
    th.start()
    th.wait_until_initialized()
    st, exc = th.get_state()
    if st != T._TaskThread.State.READY_TO_RUN:
        raise RuntimeError("task could not be constructed: %r %r" % (st, exc))
    th.start_task()
    for k in range(n_queued):
        r._receive_signal(QMI_SignalMessage(Addr("c", "p"), Addr("c", "$pubsub"), "sig", (k,)))
    if stop_before:
        th.stop_task()
    go.set()
    th.join()
    return obs


def oracle_task_drain(n_queued, timeout, stop_before, extra_read, res):
    if res["status"] != "ok":
        return "task reader did not finish (%s) %s" % (res["status"], str(res.get("trace") or "")[:300])
    reads = res["obs"]["reads"]
    t0 = res["obs"]["t0"]
    for k in range(n_queued):
        if k >= len(reads) or reads[k][0] != "sig" or reads[k][1] != k or reads[k][2] != k:
            return ("with %d signal(s) queued%s, read #%d from the task thread gives %r instead of signal %d"
                    % (n_queued - k, " and the task asked to stop" if stop_before else "", k, reads[k][:3] if k < len(reads) else None, k))
        if abs(reads[k][3] - t0) > 1e-9:
            return "a queued signal was returned only after waiting (t=%s, reads started at t=%s)" % (reads[k][3], t0)
    if extra_read:
        last = reads[n_queued] if len(reads) > n_queued else None
        if last is None or last[0] == "sig":
            return "a read on an empty queue returned %r" % (last,)
    return None


def run_task_drain(ck):
    import dsched
    import qmi.core.pubsub, qmi.core.messaging, qmi.core.task  # noqa
    jobs, meta = [], []
    for n in (1, 2, 3):
        for timeout in (None, 0.0, 2.0):
            for stop_before in (False, True):
                extra = stop_before or timeout is not None      # an extra read on the empty queue must end (stop or timeout)
                for i in range(2 if ck.tier == "quick" else 20):
                    sh = (n, timeout, stop_before, extra)
                    jobs.append((scenario_task_drain, sh, dict(strategy="random" if i % 2 else "pct", seed=ck.seed * 773 + i)))
                    meta.append(sh)
    for sh, res in zip(meta, dsched.run_forked(jobs, nproc=16, wall_timeout=30)):
        ck.note_case(("task-drain", sh, tuple(res.get("choices") or ())), True)
        ck.count("task-drain:%s" % res["status"])
        why = oracle_task_drain(*sh, res)
        if why:
            ck.report("oracle:task-drain", "C09 (get_next_signal from a task thread) fails on the implementation: " + why,
                      {"task_drain": True, "n_queued": sh[0], "timeout": sh[1], "stop_before": sh[2], "extra_read": sh[3],
                       "schedule": res.get("choices")})


def scenario_readers(s, n_readers, n_arrivals, timeout, arrive_at):
    """H3: several threads blocked in get_next_signal on ONE receiver; arrivals come back to back. Every queued signal
    must wake a waiting reader: min(n_readers, n_arrivals) readers return a signal at the arrival instant."""
    import threading as real_threading
    import dsched
    from qmi.core.pubsub import QMI_SignalReceiver, QMI_SignalMessage
    from qmi.core.messaging import QMI_MessageHandlerAddress as Addr
    from qmi.core.exceptions import QMI_TimeoutException
    r = QMI_SignalReceiver(8)
    obs = {"readers": [None] * n_readers}
    s.obs = obs

    def reader(k):
        try:
            sig = r.get_next_signal(timeout)
            obs["readers"][k] = ("sig", sig.args[0], s.clock)
        except QMI_TimeoutException:
            obs["readers"][k] = ("timeout", None, s.clock)
    ths = [real_threading.Thread(target=reader, args=(k,)) for k in range(n_readers)]
    for t in ths:
        t.start()
    dsched.FAKE_TIME.sleep(arrive_at)
    for k in range(n_arrivals):
        r._receive_signal(QMI_SignalMessage(Addr("c", "p"), Addr("c", "$pubsub"), "sig", (k,)))
    obs["t_arrivals_done"] = s.clock
    if timeout is None and n_arrivals < n_readers:
        # release the readers nothing was sent for (outside the judged window)
        dsched.FAKE_TIME.sleep(1.0)
        for k in range(n_readers - n_arrivals):
            r._receive_signal(QMI_SignalMessage(Addr("c", "p"), Addr("c", "$pubsub"), "late", (100 + k,)))
    for t in ths:
        t.join()
    return obs


def oracle_readers(n_readers, n_arrivals, timeout, arrive_at, res):
    if res["status"] == "deadlock":
        return "a reader stays blocked for ever although a signal is queued for it (%d readers, %d arrivals)" % (n_readers, n_arrivals)
    if res["status"] != "ok":
        return "scenario error %s" % str(res.get("trace") or res)[:300]
    rd = res["obs"]["readers"]
    got = sorted(x[1] for x in rd if x and x[0] == "sig" and x[1] < 100)
    want = list(range(min(n_readers, n_arrivals)))
    if got != want:
        return "with %d readers waiting and %d signals queued the readers obtained %r (each queued signal must go to one waiting reader)" % (
            n_readers, n_arrivals, rd)
    for x in rd:
        if x and x[0] == "sig" and x[1] < 100 and abs(x[2] - arrive_at) > 1e-9:
            return "a reader obtained a signal queued at t=%s only at t=%s (not 'as soon as one is queued'): %r" % (arrive_at, x[2], rd)
    return None


def run_readers(ck):
    import dsched
    import qmi.core.pubsub, qmi.core.messaging, qmi.core.task  # noqa
    jobs, meta = [], []
    for (nr, na) in ((2, 2), (2, 1), (3, 2), (3, 3), (2, 3)):
        for timeout in (None, 5.0):
            for i in range(6 if ck.tier == "quick" else 60):
                sh = (nr, na, timeout, 1.0)
                jobs.append((scenario_readers, sh, dict(strategy="random" if i % 2 else "pct", seed=ck.seed * 389 + i)))
                meta.append(sh)
    for sh, res in zip(meta, dsched.run_forked(jobs, nproc=16, wall_timeout=30)):
        ck.note_case(("readers", sh, tuple(res.get("choices") or ())), True)
        ck.count("readers:%s" % res["status"])
        why = oracle_readers(*sh, res)
        if why:
            ck.report("oracle:readers", "C09 (several readers on one receiver) fails on the implementation: " + why,
                      {"readers": True, "n_readers": sh[0], "n_arrivals": sh[1], "timeout": sh[2], "arrive_at": sh[3],
                       "schedule": res.get("choices")})


def scenario_readers_traced(s, n_readers, calls, timeout, bursts):
    """H3 with trace acceptance: several threads call the BLOCKING get_next_signal on one receiver (each `calls` times)
    while the main thread delivers bursts of signals.  The receiver's deque is replaced by a logging subclass: every
    len / append / popleft (all of them happen under the receiver's condition variable) is logged with the calling
    thread, which gives the labels of theories/C09/Blocking.v.  bursts = [(virtual time, count), ...]."""
    import threading as real_threading
    import collections
    import dsched
    from common import poke
    from qmi.core.pubsub import QMI_SignalReceiver, QMI_SignalMessage
    from qmi.core.messaging import QMI_MessageHandlerAddress as Addr
    from qmi.core.exceptions import QMI_TimeoutException
    r = QMI_SignalReceiver(64)
    ev = []
    who = {}

    def me():
        return who.get(real_threading.get_ident(), -1)

    class LogDeque(collections.deque):
        def __len__(self):
            n = collections.deque.__len__(self)
            ev.append(("L", me(), n))
            return n

        def append(self, x):
            ev.append(("A", me(), x.args[0]))
            return collections.deque.append(self, x)

        def popleft(self):
            x = collections.deque.popleft(self)
            ev.append(("D", me(), x.args[0], x.receiver_seqnr))
            return x

        def pop(self, *a):
            x = collections.deque.pop(self, *a)
            ev.append(("D", me(), x.args[0], x.receiver_seqnr))
            return x

        def clear(self):
            ev.append(("X", me()))
            return collections.deque.clear(self)
    old = r._queue
    poke(r, "_queue", LogDeque(old, maxlen=old.maxlen))
    results = {}
    obs = {"events": ev, "results": results}
    s.obs = obs

    def reader(k):
        for c in range(calls):
            rid = k * 10 + c
            who[real_threading.get_ident()] = rid
            ev.append(("C", rid))
            try:
                sig = r.get_next_signal(timeout)
                results[rid] = ("sig", sig.args[0], sig.receiver_seqnr)
            except QMI_TimeoutException:
                results[rid] = ("timeout",)
            except Exception as e:  # noqa
                results[rid] = ("exc", type(e).__name__)
    ths = [real_threading.Thread(target=reader, args=(k,)) for k in range(n_readers)]
    for t in ths:
        t.start()
    n = 0
    now = 0.0
    for (at, cnt) in bursts:
        if at > now:
            dsched.FAKE_TIME.sleep(at - now)
            now = at
        if cnt == "discard":
            r.discard_all()
            continue
        for _ in range(cnt):
            r._receive_signal(QMI_SignalMessage(Addr("c", "p"), Addr("c", "$pubsub"), "sig", (n,)))
            n += 1
    guard = 0
    while any(t.is_alive() for t in ths) and guard < 40:
        dsched.FAKE_TIME.sleep(1.0)
        guard += 1
        if timeout is None:
            r._receive_signal(QMI_SignalMessage(Addr("c", "p"), Addr("c", "$pubsub"), "late", (n,)))
            n += 1
    for t in ths:
        t.join()
    obs["results"] = {str(k): v for k, v in results.items()}
    return obs


def trace_labels(obs):
    """events -> (labels of Blocking.v, final status per call id, arrivals list, python-side property complaints)"""
    ev = obs["events"]
    results = {int(k): tuple(v) for k, v in obs["results"].items()}
    # last len event of each call that ended with the timeout error = the deadline test (BExpire)
    last_len = {}
    for i, e in enumerate(ev):
        if e[0] == "L" and e[1] >= 0:
            last_len[e[1]] = i
    entered = set()
    labels, arrivals, delivered, why = [], [], [], []
    for i, e in enumerate(ev):
        if e[0] == "A":
            labels.append("BArrive %s" % cZ(e[2]))
            arrivals.append(e[2])
        elif e[0] == "L" and e[1] >= 0:
            rid = e[1]
            if rid not in entered:
                entered.add(rid)
                labels.append("BEnter %s" % cnat(rid))
            elif results.get(rid) == ("timeout",) and last_len.get(rid) == i:
                labels.append("BExpire %s" % cnat(rid))
                if e[2] > 0:
                    why.append("call %d ended with the timeout error although %d signal(s) were queued at its deadline test" % (rid, e[2]))
            else:
                labels.append("BWake %s" % cnat(rid))
        elif e[0] == "D":
            delivered.append((e[1], e[2], e[3]))
        elif e[0] == "X":
            labels.append("BDiscard")
    seqs = [d[2] for d in delivered]
    if any(b <= a for a, b in zip(seqs, seqs[1:])):
        why.append("signals were handed out in the order %r (a signal given twice, or an older one after a newer one)" % (seqs,))
    for (rid, p, n) in delivered:
        if not (0 <= n < len(arrivals)) or arrivals[n] != p:
            why.append("call %d was handed payload %r numbered %d, the arrivals were %r" % (rid, p, n, arrivals))
        if rid >= 0 and results.get(rid) != ("sig", p, n):
            why.append("call %d took (%r, %d) from the queue but returned %r" % (rid, p, n, results.get(rid)))
    fin = []
    for rid in sorted(results):
        x = results[rid]
        if x[0] == "exc":
            why.append("call %d of get_next_signal ended with %s (neither a signal nor the timeout error)" % (rid, x[1]))
            fin.append("(%s, RIdle)" % cnat(rid))
            continue
        fin.append("(%s, %s)" % (cnat(rid), "RTimedOut" if x == ("timeout",) else "RGot %s %s" % (cZ(x[1]), cN(x[2]))))
    return labels, fin, arrivals, why


def run_readers_traced(ck):
    import random
    import dsched
    import qmi.core.pubsub, qmi.core.messaging, qmi.core.task  # noqa
    rng = random.Random(ck.seed * 7919 + 17)
    jobs, meta = [], []
    shapes = [(2, 1, None, ((1.0, 2),)), (3, 1, 5.0, ((1.0, 2),)), (2, 2, 5.0, ((1.0, 3), (2.0, 1))),
              (3, 2, None, ((0.0, 1), (1.0, 4))), (3, 1, 0.5, ((0.5, 2), (1.0, 1))), (2, 2, 0.5, ((0.25, 1), (0.5, 2), (0.75, 1))),
              # discard_all while readers wait / with signals queued
              (2, 2, 5.0, ((0.0, 3), (0.0, "discard"), (1.0, 2), (1.0, "discard"), (2.0, 1))),
              (3, 1, None, ((1.0, 4), (1.0, "discard"), (2.0, 1)))]
    reps = 8 if ck.tier == "quick" else 80
    for sh in shapes:
        for i in range(reps):
            jobs.append((scenario_readers_traced, sh, dict(strategy="random" if i % 2 else "pct", seed=rng.randrange(1 << 30))))
            meta.append(sh)
    terms, tmeta = [], []
    for sh, res in zip(meta, dsched.run_forked(jobs, nproc=16, wall_timeout=30)):
        ck.count("readers-traced:%s" % res["status"])
        if res["status"] != "ok":
            ck.report("oracle:readers-traced",
                      "C09 (several readers, blocking form) fails on the implementation: scenario ended with %s %s" % (
                          res["status"], str(res.get("trace") or "")[:300]),
                      {"readers_traced": True, "shape": sh, "schedule": res.get("choices")})
            continue
        labels, fin, arrivals, why = trace_labels(res["obs"])
        ck.note_case(("readers-traced", sh, tuple(res.get("choices") or ())), len(arrivals) > 0 and len(fin) > 1)
        ck.count("readers-traced:labels:%s" % ("0-15" if len(labels) <= 15 else "16-40" if len(labels) <= 40 else "41+"))
        for w in why[:1]:
            ck.report("oracle:readers-traced:" + w.split(" ")[0], "C09 (several readers, blocking form) fails on the implementation: " + w,
                      {"readers_traced": True, "shape": sh, "schedule": res.get("choices"), "events": res["obs"]["events"]})
        terms.append("(64%%nat, DiscardOld, %s, %s)" % (clist(labels), clist(fin)))
        tmeta.append((sh, res, why))
    bad = ck.run_model("C09.Corr", "check_trace", terms, "tcase", shard=100)
    ck.coverage["blocking_traces_accepted"] = len(terms) - len(bad)
    ck.coverage["blocking_traces_refused"] = len(bad)
    for i in bad[:3]:
        sh, res, why = tmeta[i]
        at = ck.model_eval("C09.Corr", "trace_diag %s" % terms[i])
        ck.report("corr:blocking-trace" + (":oracle-fails" if why else ""),
                  "a recorded multi-reader schedule of get_next_signal is not a run of the Coq transition system C09.Blocking "
                  "(first refused label / final status: %s)%s" % (str(at)[:80], (": " + why[0]) if why else " (property oracle passes on it)"),
                  {"readers_traced": True, "shape": sh, "schedule": res.get("choices"), "events": res["obs"]["events"],
                   "results": res["obs"]["results"], "broken": "correspondence C09.Corr.check_trace"},
                  found_input=bool(why))


def scenario_concurrent_arrivals(s, cap, pol, nthreads, per_thread):
    """H3: several threads deliver to one receiver at the same time (local publisher threads, the socket
    thread, ...); every source line of _receive_signal is a scheduling point."""
    import threading as real_threading
    import dsched
    from qmi.core.pubsub import QMI_SignalReceiver, QMI_SignalMessage
    from qmi.core.messaging import QMI_MessageHandlerAddress as Addr
    from qmi.core.exceptions import QMI_TimeoutException
    dsched.enable_line_yields([QMI_SignalReceiver._receive_signal])
    r = QMI_SignalReceiver(cap, QMI_SignalReceiver.DISCARD_OLD if pol == "old" else QMI_SignalReceiver.DISCARD_NEW)

    def arriver(t):
        for k in range(per_thread):
            r._receive_signal(QMI_SignalMessage(Addr("c", "p"), Addr("c", "$pubsub"), "sig", ((t, k),)))
    ths = [real_threading.Thread(target=arriver, args=(t,)) for t in range(nthreads)]
    for t in ths:
        t.start()
    for t in ths:
        t.join()
    got = []
    while True:
        try:
            x = r.get_next_signal(0)
            got.append((list(x.args[0]), x.receiver_seqnr))
        except QMI_TimeoutException:
            break
    return {"got": got, "total": nthreads * per_thread}


def oracle_concurrent(cap, pol, res):
    if res["status"] != "ok":
        return "concurrent arrivals did not finish: %s" % str(res.get("trace") or res.get("info"))[:300]
    got, total = res["obs"]["got"], res["obs"]["total"]
    seqs = [g[1] for g in got]
    if len(got) > cap:
        return "receiver held %d signals, maximum is %d" % (len(got), cap)
    if any(b <= a for a, b in zip(seqs, seqs[1:])):
        return "sequence numbers seen by the reader are not strictly increasing: %s" % seqs
    if any(n >= total or n < 0 for n in seqs):
        return "sequence number outside 0..%d: %s" % (total - 1, seqs)
    if len(got) != min(cap, total):
        return "%d signals queued after %d arrivals with capacity %d" % (len(got), total, cap)
    if pol == "old" and seqs != list(range(total - len(got), total)):
        return "DISCARD_OLD must keep the newest numbers %s, reader saw %s" % (list(range(total - len(got), total)), seqs)
    if pol == "new" and seqs != list(range(len(got))):
        return "DISCARD_NEW must keep the first numbers %s, reader saw %s" % (list(range(len(got))), seqs)
    # per delivering thread, its signals keep their order
    for t in {g[0][0] for g in got}:
        ks = [g[0][1] for g in got if g[0][0] == t]
        if ks != sorted(ks):
            return "signals of one delivering thread are out of order: %s" % got
    return None


def run_concurrent(ck):
    import dsched
    import qmi.core.pubsub, qmi.core.messaging, qmi.core.task  # noqa
    n = 160 if ck.tier == "quick" else 4000
    jobs = []
    for i in range(n):
        jobs.append((scenario_concurrent_arrivals, (1 + i % 4, "old" if i % 2 else "new", 2 + (i // 8) % 2, 2 + i % 3),
                     dict(strategy="random", seed=ck.seed * 6007 + i, switch_prob=0.5)))
    for (scen, args, kw), res in zip(jobs, dsched.run_forked(jobs, nproc=16, wall_timeout=30)):
        ck.note_case(("concurrent", args, tuple(res.get("choices") or ())), True)
        ck.count("concurrent:%s" % res["status"])
        why = oracle_concurrent(args[0], args[1], res)
        if why:
            ck.report("oracle:concurrent", "C09 (concurrent deliveries) fails on the implementation: " + why,
                      {"concurrent": True, "args": list(args), "schedule": res.get("choices")})


def oracle_blocking(timeout, arrive_at, res):
    if res["status"] == "deadlock":
        if arrive_at is None and timeout is None:
            return None            # nothing ever arrives and no timeout: blocking forever is the contract
        return "the reader never returns although a signal was queued / a timeout was set"
    if res["status"] != "ok":
        return "scenario error %s" % str(res.get("trace") or res)[:300]
    o = res["obs"]
    arrives_first = arrive_at is not None and (timeout is None or arrive_at < timeout)
    if arrives_first:
        if o["result"][0] != "sig" or o["result"][1] != 0 or o["result"][2] != 0:
            return "expected the first signal, got %r" % (o["result"],)
        if abs(o["t_return"] - arrive_at) > 1e-9:
            return "signal queued at t=%s but the reader returned at t=%s (not 'as soon as one is queued')" % (arrive_at, o["t_return"])
    elif timeout is not None and (arrive_at is None or arrive_at > timeout):
        if o["result"][0] != "timeout":
            return "expected the timeout error, got %r" % (o["result"],)
        if abs(o["t_return"] - timeout) > 1e-9:
            return "timeout %s but the reader returned at t=%s" % (timeout, o["t_return"])
    return None


def run_blocking(ck):
    import dsched
    import qmi.core.pubsub, qmi.core.messaging, qmi.core.task  # noqa
    shapes = [(None, 2.0, 1), (5.0, 2.0, 2), (1.0, 3.0, 1), (1.0, None, 0), (0.0, None, 0), (0.0, 0.0, 1), (3.0, 3.0, 1), (None, 0.0, 3)]
    nper = 12 if ck.tier == "quick" else 200
    jobs, meta = [], []
    for sh in shapes:
        for i in range(nper):
            jobs.append((scenario_blocking, sh, dict(strategy="random" if i % 2 else "pct", seed=ck.seed * 991 + i)))
            meta.append(sh)
    for sh, res in zip(meta, dsched.run_forked(jobs, nproc=16, wall_timeout=30)):
        ck.note_case(("blocking", sh, tuple(res.get("choices") or ())), True)
        ck.count("blocking:%s" % res["status"])
        if sh[0] is not None and sh[1] is not None and sh[0] == sh[1]:
            continue          # arrival exactly at the deadline: either outcome is within the contract
        why = oracle_blocking(sh[0], sh[1], res)
        if why:
            ck.report("oracle:blocking", "C09 (blocking get_next_signal) fails on the implementation: " + why,
                      {"blocking": True, "timeout": sh[0], "arrive_at": sh[1], "n_arrivals": sh[2], "schedule": res.get("choices")})


def run(ck):
    ck.theory_dir = THEORY
    ck.build_theory(THEORY)
    ck.trusted = [
        "Coq 8.16.1 kernel (vm_compute used to evaluate the model on cases; no native_compute)",
        "hand-written model theories/C09/Model.v of QMI_SignalReceiver, tied to /repo by this run's correspondence",
        "python harness c09.py (stub message objects, canonicalisation of results)",
        "CPython deque(maxlen) semantics; the blocking wait is driven under the deterministic scheduler (virtual time) and its wake-up is theorem C11_signal_wakes_reader of the C11 machine",
    ]
    ck.assumptions = ["the history model uses get_next_signal(0); the blocking form is exercised separately (reader + arriver threads under dsched: returns at the arrival instant, times out at the deadline)",
                      "payloads are integers standing for arbitrary args tuples (the queue never inspects them)"]
    run_long_history(ck)
    run_blocking(ck)
    run_task_drain(ck)
    run_readers(ck)
    run_readers_traced(ck)
    run_concurrent(ck)
    cases = gen_cases(ck)
    terms, metas = [], []
    for cap, pol, ops, kind in cases:
        outs = impl_run(cap, pol, ops)
        narr = sum(1 for o in ops if o[0] == "A")
        nontrivial = narr > 0 and any(o[0] == "G" for o in ops)
        ck.note_case((cap, pol, ops), nontrivial)
        ck.count("kind:" + kind)
        ck.count("policy:" + pol)
        ck.count("overflowing" if narr > cap else "not-overflowing")
        ck.count("len:%s" % ("0-5" if len(ops) <= 5 else "6-20" if len(ops) <= 20 else "21+"))
        for f in (oracle, oracle_order):
            why = f(cap, pol, ops, outs)
            if why:
                ck.report("oracle:" + why.split("(")[0].strip()[:50], "C09 fails on the implementation: " + why,
                          {"cap": cap, "policy": pol, "ops": ops, "impl_outputs": outs})
        terms.append(coq_case(cap, pol, ops, outs))
        metas.append((cap, pol, ops, outs))
    for m in metas[-3:]:
        ck.sample({"cap": m[0], "policy": m[1], "ops": m[2], "impl_outputs": m[3]}, 3)
    bad = ck.run_model("C09.Corr", "check_case", terms, "case", shard=400)
    ck.coverage["correspondence_disagreements"] = len(bad)
    for i in bad[:5]:
        cap, pol, ops, outs = shrink(metas[i])
        mo = ck.model_eval("C09.Corr", "model_out %s" % coq_case(cap, pol, ops, outs))
        why = oracle(cap, pol, ops, outs) or oracle_order(cap, pol, ops, outs)
        ck.report("corr:" + ("oracle-fails" if why else "model-differs"),
                  "implementation and Coq model disagree on a history" + (": " + why if why else " (property oracle passes on it)"),
                  {"cap": cap, "policy": pol, "ops": ops, "impl_outputs": outs, "model_outputs": mo,
                   "broken": "correspondence C09.Corr.check_case"},
                  found_input=bool(why))
    return ck.finish("exhaustive op-kind sequences over small capacities + seeded random histories; "
                     "non-trivial = has at least one arrival and one get; distinct by content hash")


def shrink(meta):
    """Delta-debug the op list while implementation and oracle/model still disagree (cheap:
    uses the python oracle pair as the disagreement test when it fails, else keeps the case)."""
    cap, pol, ops, outs = meta
    def bad(o):
        x = impl_run(cap, pol, o)
        return bool(oracle(cap, pol, o, x) or oracle_order(cap, pol, o, x))
    if not bad(ops):
        return meta
    i = 0
    while i < len(ops):
        t = ops[:i] + ops[i + 1:]
        if bad(t):
            ops = t
        else:
            i += 1
    return cap, pol, ops, impl_run(cap, pol, ops)


def replay(rep):
    c = rep["case"]
    if c.get("concurrent"):
        import dsched
        import qmi.core.pubsub, qmi.core.messaging, qmi.core.task  # noqa
        res = dsched.run_forked([(scenario_concurrent_arrivals, tuple(c["args"]), dict(strategy="replay", schedule=list(c.get("schedule") or [])))], nproc=1)[0]
        why = oracle_concurrent(c["args"][0], c["args"][1], res)
        print(res["status"], res.get("obs"), why or "property holds on this schedule")
        return 1 if why else 0
    if c.get("task_drain"):
        import dsched
        import qmi.core.pubsub, qmi.core.messaging, qmi.core.task  # noqa
        sh = (c["n_queued"], c["timeout"], c["stop_before"], c["extra_read"])
        res = dsched.run_forked([(scenario_task_drain, sh, dict(strategy="replay", schedule=list(c.get("schedule") or [])))], nproc=1)[0]
        why = oracle_task_drain(*sh, res)
        print(res["status"], res.get("obs"), why or "property holds on this schedule")
        return 1 if why else 0
    if c.get("readers"):
        import dsched
        import qmi.core.pubsub, qmi.core.messaging, qmi.core.task  # noqa
        sh = (c["n_readers"], c["n_arrivals"], c["timeout"], c["arrive_at"])
        res = dsched.run_forked([(scenario_readers, sh, dict(strategy="replay", schedule=list(c.get("schedule") or [])))], nproc=1)[0]
        why = oracle_readers(*sh, res)
        print(res["status"], res.get("obs"), why or "property holds on this schedule")
        return 1 if why else 0
    if c.get("readers_traced"):
        import dsched
        import common
        import qmi.core.pubsub, qmi.core.messaging, qmi.core.task  # noqa
        sh = (c["shape"][0], c["shape"][1], c["shape"][2], tuple(tuple(b) for b in c["shape"][3]))   # (at, count | "discard")
        res = dsched.run_forked([(scenario_readers_traced, sh, dict(strategy="replay", schedule=list(c.get("schedule") or [])))], nproc=1)[0]
        if res["status"] != "ok":
            print(res["status"], str(res.get("trace") or "")[:600])
            return 1
        labels, fin, arrivals, why = trace_labels(res["obs"])
        print("events:", res["obs"]["events"])
        print("results:", res["obs"]["results"])
        term = "(64%%nat, DiscardOld, %s, %s)" % (clist(labels), clist(fin))
        ck = common.Check("C09", "quick", 0)
        ck.build_theory(THEORY)
        ok = ck.model_eval("C09.Corr", "check_trace %s" % term)
        print("model accepts the trace:", ok)
        print("oracle:", "; ".join(why) or "property holds on this schedule")
        ck.cleanup()
        return 1 if (why or "true" not in str(ok)) else 0
    if c.get("blocking"):
        import dsched
        import qmi.core.pubsub, qmi.core.messaging, qmi.core.task  # noqa
        res = dsched.run_forked([(scenario_blocking, (c["timeout"], c["arrive_at"], c["n_arrivals"]),
                                  dict(strategy="replay", schedule=list(c.get("schedule") or [])))], nproc=1)[0]
        why = oracle_blocking(c["timeout"], c["arrive_at"], res)
        print(res["status"], res.get("obs"), why or "property holds on this schedule")
        return 1 if why else 0
    ops = [tuple(o) for o in c["ops"]]
    outs = impl_run(c["cap"], c["policy"], ops, start=c.get("start", 0))
    print("implementation outputs:", outs)
    why = oracle(c["cap"], c["policy"], ops, outs) or oracle_order(c["cap"], c["policy"], ops, outs)
    print("oracle:", why or "property holds on this history")
    return 1 if why else 0
