"""C14 — transport descriptors parse totally and faithfully.

Tie to /repo, re-made on every run:
  * translators/t_c14_tables.py regenerates the parser tables (from the live parser objects), the
    constructor signatures (inspect) and, by probing the real create_transport, which parser and class
    serve each interface, into coq/gen/C14Tables.v (fail-closed; the generated well-formedness /
    shape obligations are re-checked by coqc); no syntactic shape of transport.py is demanded;
  * the real create_transport and the real TransportDescriptorParser (its six instances and freshly
    built instances over random well-formed tables) run on generated descriptors; the Coq model
    (theories/C14/Model.v) is evaluated on the same cases.  The model's library functions (int(),
    int(.,16), float(), host syntax) get the REAL functions' answers to the questions the model itself
    lists for the case (pass 1 = Corr.flat_queries, pass 2 = Corr.check_case).

The comparison is MEMBERSHIP: the observed outcome must be one of Model.allowed (create mode) /
Model.allowed_parse (parse mode).  The code's behaviour of today is the first element; the property
leaves open (a) which of several values of a repeated keyword counts - any one of them, or the
descriptor error - and (b) whether a descriptor outside the documented unambiguous form (not the plain
rendering of its own fields, surplus fields, non-canonical number spelling) is accepted at all: the
descriptor error is allowed there too.  For strict canonical descriptors without repetition the set is
the single pinned outcome (theorem C14_allowed_tight).

create_transport as a FUNCTION of (descriptor, defaults) (theorem C14_history_independent): before anything
else calls the implementation, forked children of this process (= fresh process state) run a fixed sample
of calls alone, in sequences (x,x / x,y,x / valid,rejected,rejected / rejected,rejected,valid / the same
descriptor with other defaults / mixed with the parsers' match_interface and parse_parameter_strings) and
in 2-3 threads under harness/dsched.py with every line of the parser methods and of create_transport a
scheduling point; each outcome must equal the outcome of the same call made alone.  The sampled calls
are also ordinary cases (membership in the allowed set) and are repeated at the end of this long-lived
process.

Property oracle (independent of the model):
  totality   - nothing but QMI_TransportDescriptorException may leave create_transport /
               parse_parameter_strings;
  intent     - descriptors built by the grammar generator carry the values they were built from, so
               the expected class / attribute values / rejection are known by construction; where
               the property leaves a choice (repeated keyword, brackets around a plain part, leading
               ':', non-canonical number spelling - decided from what the generator built, not from
               the model) the expectation is a set of alternatives;
  no device  - constructing must not touch socket/serial/vxi11/usb (trip-wires), `_is_open` is False;
  round trip - descriptors from QMI_UsbTmcTransport._format_resources parse back.
"""
import json
import os
import re
import struct
import sys
import time
import traceback
from concurrent.futures import ThreadPoolExecutor

import common
from common import cZ, cN, cbool, clist, ccodepoints

sys.path.insert(0, os.path.join(os.path.dirname(os.path.abspath(__file__)), "translators"))
import t_c14_tables  # noqa: E402

THEORY = "C14"
GEN = os.path.join(common.COQ, "gen", "C14Tables.v")
# run_model/model_eval write "Require Import QV.<module>." : the generated tables are required too
CORR = "C14.Corr.\nRequire Import QVgen.C14Tables"
CHECK_FN = "check_case entries"
LOCALHOST_IP = "127.0.0.1"

# ----------------------------------------------------------------------------------------------
# implementation side: import, trip-wires
# ----------------------------------------------------------------------------------------------
_T = None
EVENTS = []


class _Proxy:
    """Stands for a module as seen from qmi.core.transport*: named attributes are trip-wires."""

    def __init__(self, real, wires, extra=None):
        self.__dict__["_real"] = real
        self.__dict__["_wires"] = wires
        self.__dict__["_extra"] = extra or {}

    def __getattr__(self, n):
        if n in self._extra:
            return self._extra[n]
        if n in self._wires:
            def wire(*a, **k):
                EVENTS.append("%s.%s" % (getattr(self._real, "__name__", "?"), n))
                raise RuntimeError("C14 trip-wire: %s touched while constructing a transport" % n)
            return wire
        return getattr(self._real, n)


def impl():
    """Import the transport modules of the tree under test once and install the trip-wires."""
    global _T
    if _T is not None:
        return _T
    import socket
    import qmi.core.transport as T
    import qmi.core.transport_usbtmc_pyusb as TU
    assert sys.platform.startswith("linux"), "C14 model is for the non-Windows branch of create_transport"

    def gethostbyname(h):
        if h == "localhost":
            return LOCALHOST_IP
        EVENTS.append("socket.gethostbyname(%r)" % (h,))
        raise RuntimeError("C14 trip-wire: name resolution of %r while constructing a transport" % (h,))
    T.socket = _Proxy(socket, {"socket", "create_connection", "getaddrinfo", "gethostbyname_ex", "gethostbyaddr",
                               "socketpair", "fromfd"}, {"gethostbyname": gethostbyname})
    T.serial = _Proxy(T.serial, {"Serial", "serial_for_url"})
    T.vxi11 = _Proxy(T.vxi11, {"Instrument", "list_devices"})
    TU.usbtmc = _Proxy(TU.usbtmc, {"Instrument", "list_devices", "list_resources", "find_device"})
    TU.usb = _Proxy(TU.usb, {"core"})
    _T = T
    return T


ATTRS = {
    "QMI_SerialTransport": [("device", "device"), ("baudrate", "_baudrate"), ("bytesize", "_bytesize"),
                            ("parity", "_parity"), ("stopbits", "_stopbits"), ("rtscts", "_rtscts")],
    "QMI_TcpTransport": [("host", ("_address", 0)), ("port", ("_address", 1)), ("connect_timeout", "_connect_timeout")],
    "QMI_UdpTransport": [("host", ("_address", 0)), ("port", ("_address", 1))],
    "QMI_PyUsbTmcTransport": [("vendorid", "vendorid"), ("productid", "productid"), ("serialnr", "serialnr")],
    "QMI_Vxi11Transport": [("host", "_host")],
}
KCODE = {"QMI_SerialTransport": 0, "QMI_TcpTransport": 1, "QMI_UdpTransport": 2, "QMI_PyUsbTmcTransport": 3,
         "QMI_Vxi11Transport": 4}


def _site(e):
    """innermost frame inside qmi/core/transport*.py"""
    name = "?"
    for fr in traceback.extract_tb(e.__traceback__):
        if re.search(r"qmi[/\\]core[/\\]transport[a-z_0-9]*\.py$", fr.filename):
            name = fr.name
    return name


def _esc(e):
    exc, site, msg = type(e).__name__, _site(e), str(e)
    cls, detail = "any", ""
    if site == "create_transport" and isinstance(e, TypeError):
        m = re.match(r"(\w+)\.__init__\(\) (missing|got an unexpected keyword argument)", msg)
        if m:
            cls = m.group(1)
            arg = re.search(r"'([^']*)'", msg)
            detail = ":%s:%s" % ("missing" if m.group(2) == "missing" else "unexpected", arg.group(1) if arg else "?")
    if not detail:
        detail = ":" + "-".join(re.sub(r"[^A-Za-z0-9 ]", "", msg).split()[:4])
    return ("esc", "escape:%s:%s:%s%s" % (cls, exc, site, detail), "%s: %s" % (exc, msg[:120]))


def impl_create(s, d):
    T = impl()
    from qmi.core.exceptions import QMI_TransportDescriptorException
    del EVENTS[:]
    try:
        t = T.create_transport(s, None if d is None else dict(d))
    except QMI_TransportDescriptorException:
        return ("err",) if not EVENTS else ("touch", "descriptor-error", list(EVENTS))
    except BaseException as e:  # noqa
        if EVENTS:
            return ("touch", type(e).__name__, list(EVENTS))
        return _esc(e)
    cls = type(t).__name__
    if EVENTS:
        return ("touch", cls, list(EVENTS))
    if cls not in KCODE:
        return ("weird", "unknown class %s" % cls)
    import inspect
    known = dict(ATTRS.get(cls, []))
    args, dfl = [], {}
    for q in list(inspect.signature(type(t).__init__).parameters.values())[1:]:
        a = known.get(q.name)
        if a is None:       # a parameter this harness was not written for: stored as _name or name
            a = "_" + q.name if hasattr(t, "_" + q.name) else q.name
        try:
            args.append((q.name, getattr(t, a[0])[a[1]] if isinstance(a, tuple) else getattr(t, a)))
        except (AttributeError, IndexError, TypeError):
            return ("weird", "cannot observe constructor argument %s of %s" % (q.name, cls))
        if q.default is not inspect.Parameter.empty:
            dfl[q.name] = q.default
    return ("ok", cls, args, t._is_open, dfl)


LIVE_IFACES = None     # interfaces for which the tree under test has a parser object (set by prepare_tables)


def real_parser(T, iface):
    """the first module-level TransportDescriptorParser instance claiming this interface"""
    for p in vars(T).values():
        if isinstance(p, T.TransportDescriptorParser) and p.interface == iface:
            return p
    raise KeyError(iface)


PYTY = {"TStr": str, "TInt": int, "TFloat": float, "TBool": bool}


def impl_parse(table, s, d):
    """table: ("real", iface) or ("syn", iface, pos, kw) with pos/kw = [(name, 'TInt', required)]"""
    T = impl()
    from qmi.core.exceptions import QMI_TransportDescriptorException
    if table[0] == "real":
        p = real_parser(T, table[1])
        names = [n for n, _ in p._positionals] + list(p._keywords)
    else:
        _, iface, pos, kw = table
        p = T.TransportDescriptorParser(iface, [(n, (PYTY[t], r)) for n, t, r in pos],
                                        {n: (PYTY[t], r) for n, t, r in kw})
        names = [n for n, _, _ in pos] + [n for n, _, _ in kw]
    del EVENTS[:]
    try:
        r = p.parse_parameter_strings(s, None if d is None else dict(d))
    except QMI_TransportDescriptorException:
        return ("err",)
    except BaseException as e:  # noqa
        return _esc(e)
    if not isinstance(r, dict):
        return ("weird", "not a dict")
    out = [(n, r[n]) for n in names if n in r] + [(k, v) for k, v in r.items() if k not in names]
    return ("dict", out)


def host_ok(h):
    T = impl()
    try:
        return bool(T._is_valid_hostname(h) or T._is_valid_ipaddress(h))
    except (ValueError, IndexError):
        return False   # a host the syntax check cannot digest is not a valid host


# ----------------------------------------------------------------------------------------------
# Coq terms
# ----------------------------------------------------------------------------------------------

def cstr(s):
    # string literals parse much faster than numeral lists; usable for printable ASCII without '"'
    if s and all(32 <= ord(ch) < 127 and ch != '"' for ch in s):
        return '(str_of "%s"%%string)' % s
    return "[" + ";".join(str(ord(ch)) for ch in s) + "]"


def fbits(x):
    return struct.unpack(">Q", struct.pack(">d", x))[0]


def cval(v):
    if v is None:
        return "VNone"
    if type(v) is bool:
        return "(VBool %s)" % cbool(v)
    if type(v) is int:
        return "(VInt %s)" % cZ(v)
    if type(v) is float:
        return "(VFloat %d)" % fbits(v)
    if type(v) is str:
        return "(VStr %s)" % cstr(v)
    return "(VStr [1114112])"    # not a value any model run can produce


def cdict(items):
    return clist(["(%s, %s)" % (cstr(k), cval(v)) for k, v in items])


def ctable(table):
    if table[0] == "real":
        return "tbl_" + t_c14_tables.ident(table[1])
    _, iface, pos, kw = table

    def ps(l):
        return clist(["(%s, %s, %s)" % (cstr(n), t, cbool(r)) for n, t, r in l])
    return "(mkTable %s %s %s)" % (cstr(iface), ps(pos), ps(kw))


def cmode(c):
    return "MCreate" if c["mode"] == "create" else "(MParse %s)" % ctable(c["table"])


def cobs(o):
    if o[0] == "ok":
        return "(OTransport %d %s)" % (KCODE[o[1]], cdict(o[2]))
    if o[0] == "dict":
        return "(ODict %s)" % cdict(o[1])
    if o[0] == "err":
        return "OErr"
    if o[0] == "esc":
        return "OEsc"
    return "OUncovered"   # touch / weird: never agrees


def copt(x, f):
    return "None" if x is None else "(Some %s)" % f(x)


def clib(ans):
    def tab(k, f):
        return clist(["(%s, %s)" % (cstr(s), f(a)) for (kk, s), a in ans.items() if kk == k])
    return "(%s, %s, %s, %s)" % (tab(0, lambda a: copt(a, cZ)), tab(1, lambda a: copt(a, cZ)),
                                 tab(2, lambda a: copt(a, lambda b: "%d" % b)), tab(3, cbool))


def defaults_items(d):
    return [] if d is None else list(d.items())


def qcase_term(c):
    return "(%s, %s, %s)" % (cmode(c), cstr(c["s"]), cdict(defaults_items(c["d"])))


def case_term(c):
    return "(%s, %s, %s, %s, %s)" % (cmode(c), cstr(c["s"]), cdict(defaults_items(c["d"])), clib(c["ans"]),
                                     cobs(c["obs"]))


def answer(k, s):
    try:
        if k == 0:
            return int(s)
        if k == 1:
            return int(s, 16)
        if k == 2:
            return fbits(float(s))
    except ValueError:
        return None
    return host_ok(s)


_PARTS_RE = re.compile(r"((?:^([^:]+))|(?::\[(.+)[\]$])|(?::([^:]+)))")
_QK = {int: 0, float: 2, str: 3, "TInt": 0, "TFloat": 2, "TStr": 3}


def hint_queries(c):
    """A cheap guess at the library questions the model will ask on this case (so that one Coq pass
    suffices).  Only a hint: the model checks that every question it asks was answered, and cases
    where the guess falls short are re-run with the exact list from Corr.flat_queries."""
    T = impl()
    s, qs = c["s"], {(3, LOCALHOST_IP)}
    toks = [m[2] or m[3] or m[4] for m in _PARTS_RE.finditer(s)]
    pos, kw = [], {}
    try:
        if c["mode"] == "parse" and c["table"][0] == "syn":
            pos = [(n, t) for n, t, _ in c["table"][2]]
            kw = {n: t for n, t, _ in c["table"][3]}
        else:
            iface = c["table"][1] if c["mode"] == "parse" else (toks[0].lower() if toks else "")
            p = real_parser(T, iface)
            pos = [(n, t) for n, (t, _) in p._positionals]
            kw = {n: t for n, (t, _) in p._keywords.items()}
    except KeyError:
        pass
    parts = toks[1:]
    for (n, t), tok in zip(pos, [x for x in parts if "=" not in x]):
        if t in _QK:
            qs.add((_QK[t], tok))
    for part in parts:
        if "=" in part:
            k, v = part.split("=", 1)
            t = kw.get(k)
            if t in _QK:
                qs.add((1 if (_QK[t] == 0 and v.startswith("0x")) else _QK[t], v))
    for v in (c["d"] or {}).values():
        if type(v) is str:
            qs.add((3, v))
    return qs


def coq_lists(ck, exprs_by_shard):
    """Evaluate, per shard, `map (flat_queries entries) [..]`; returns the list of lists of ints."""
    d = os.path.join(common.COQ, "cases", ck.pid + ".%d" % os.getpid())
    os.makedirs(d, exist_ok=True)
    files = []
    for k, terms in enumerate(exprs_by_shard):
        fn = os.path.join(d, "q_%d.v" % k)
        with open(fn, "w") as f:
            f.write("From Coq Require Import List ZArith NArith Bool.\nImport ListNotations.\n"
                    "Require Import QV.C14.Corr QVgen.C14Tables.\nOpen Scope N_scope.\n"
                    "Definition qs : list qcase := [\n%s\n].\n"
                    "Eval vm_compute in (map (flat_queries entries) qs).\n" % ";\n".join(terms))
        files.append(fn)

    def one(fn):
        return common.sh("ulimit -s unlimited; timeout 600 coqc -Q theories QV -Q gen QVgen %s" % fn,
                         cwd=common.COQ, timeout=700, env=ck.coq_env())
    with ThreadPoolExecutor(max_workers=common.NPROC) as ex:
        results = list(ex.map(one, files))
    out = []
    for k, (rc, txt) in enumerate(results):
        m = re.search(r"=\s*(\[.*\])\s*:\s*list \(list N\)", txt, re.S)
        if rc != 0 or not m:
            raise RuntimeError("query evaluation failed for shard %d:\n%s" % (k, txt[-3000:]))
        lists = json.loads(re.sub(r"%N", "", m.group(1)).replace(";", ","))
        if len(lists) != len(exprs_by_shard[k]):
            raise RuntimeError("query shard %d: %d results for %d cases" % (k, len(lists), len(exprs_by_shard[k])))
        out += lists
    return out


def unflatten(nums):
    qs, i = [], 0
    while i < len(nums):
        k, n = nums[i], nums[i + 1]
        qs.append((k, "".join(chr(x) for x in nums[i + 2:i + 2 + n])))
        i += 2 + n
    return qs


# ----------------------------------------------------------------------------------------------
# intent: what each interface is documented to take (create_transport docstring + constructor
# docstrings) - written independently of the tables
# ----------------------------------------------------------------------------------------------
SPEC = {
    "serial": dict(cls="QMI_SerialTransport", pos=[("device", "str")],
                   kw=[("baudrate", "int"), ("bytesize", "int"), ("parity", "str"), ("stopbits", "float"),
                       ("rtscts", "bool")],
                   need=["device", "baudrate"],
                   ctor=[("device", None), ("baudrate", None), ("bytesize", 8), ("parity", "N"), ("stopbits", 1.0),
                         ("rtscts", False)]),
    "tcp": dict(cls="QMI_TcpTransport", pos=[("host", "str"), ("port", "int")], kw=[("connect_timeout", "float")],
                need=["host", "port"], ctor=[("host", None), ("port", None), ("connect_timeout", 10)]),
    "udp": dict(cls="QMI_UdpTransport", pos=[("host", "str"), ("port", "int")], kw=[],
                need=["host", "port"], ctor=[("host", None), ("port", None)]),
    "usbtmc": dict(cls="QMI_PyUsbTmcTransport", pos=[],
                   kw=[("vendorid", "int"), ("productid", "int"), ("serialnr", "str")],
                   need=["vendorid", "productid", "serialnr"],
                   ctor=[("vendorid", None), ("productid", None), ("serialnr", None)]),
    "vxi11": dict(cls="QMI_Vxi11Transport", pos=[("host", "str")], kw=[], need=["host"], ctor=[("host", None)]),
    "gpib": dict(cls=None, pos=[("primary_addr", "int")],
                 kw=[("board", "int"), ("secondary_addr", "int"), ("connect_timeout", "float")],
                 need=["primary_addr"], ctor=[]),
}
GOOD_HOSTS = ["h", "example.com", "my-host.local.", "10.0.0.1", "255.255.255.255", "a1.b2", "X", "localhost"]
GOOD_V6 = ["::1", "2620:0:2d0:200::8", "fe80::1", "::", "1:2:3:4:5:6:7:8", "::ffff:1.2.3.4"]
BAD_HOSTS = ["-bad", "a..b", "1.2.3.256", "under_score", "x" * 64 + ".com", "1.2.3", "h~"]
FLOATS = ["1", "0.5", "10.0", "1e-3", "30", "2.5E1", "inf", ".5", "7."]


def gen_value(rng, iface, name, ty, kw):
    """-> (token, python value, valid?, bracket?)"""
    if name == "host":
        r = rng.random()
        if r < 0.6:
            h = rng.choice(GOOD_HOSTS)
            return h, (LOCALHOST_IP if h == "localhost" and iface != "vxi11" else h), True, rng.random() < 0.15
        if r < 0.93:
            h = rng.choice(GOOD_V6)
            return h, h, True, True
        h = rng.choice(BAD_HOSTS)
        return h, h, False, rng.random() < 0.15
    if name == "device":
        if rng.random() < 0.93:
            v = rng.choice(["/dev/ttyS0", "COM3", "com12", "/dev/ttyUSB1", "COMx", "/", "Com1"])
            return v, v, True, False
        v = rng.choice(["ttyS0", "dev/tty", "CO", "x/COM1", "OM3"])
        return v, v, False, False
    if name == "parity":
        v = rng.choice(["N", "E", "O"]) if rng.random() < 0.93 else rng.choice(["n", "X", "NE", "0"])
        return v, v, v in ("N", "E", "O"), False
    if name == "serialnr":
        v = rng.choice(["MY1234", "A B", "x-y_z", "0", "SN.001", "C0123456", "e\u00e9", "[x]", "$", "0x10"])
        return v, v, True, False
    if ty == "bool":
        b = rng.random() < 0.5
        return str(b), b, True, False
    if ty == "float":
        if name == "stopbits":
            tok = rng.choice(["1", "1.0", "1.5", "2", "2.0", "1e0", "+2.0", "15e-1"]) if rng.random() < 0.93 \
                else rng.choice(["3", "0.5", "nan", "1.25", "-1"])
            return tok, float(tok), float(tok) in (1.0, 1.5, 2.0), False
        tok = rng.choice(FLOATS)
        return tok, float(tok), True, False
    # int
    if name == "port":
        n = rng.choice([1, 80, 5025, 65535, 35998, 36000, rng.randint(1, 65535)]) if rng.random() < 0.93 \
            else rng.choice([0, 65536, -1, 35999, 100000])
        ok = 1 <= n <= 65535 and not (iface == "udp" and n == 35999)
    elif name == "baudrate":
        n = rng.choice([1, 9600, 115200, 3000000]) if rng.random() < 0.93 else rng.choice([0, -5])
        ok = n >= 1
    elif name == "bytesize":
        n = rng.choice([5, 6, 7, 8]) if rng.random() < 0.93 else rng.choice([4, 9, 0])
        ok = 5 <= n <= 8
    elif name in ("vendorid", "productid"):
        n = rng.choice([0, 1, 0x0699, 0x1234, 65535, rng.randint(0, 65535)]) if rng.random() < 0.93 \
            else rng.choice([65536, -1, 70000])
        ok = 0 <= n <= 65535
    else:
        n, ok = rng.choice([0, 1, 7, 30]), True
    if kw and n >= 0 and rng.random() < 0.45:
        tok = rng.choice(["0x%x", "0x%04x", "0x%X", "0x%08x"]) % n
    else:
        tok = ("%d" if rng.random() < 0.8 else rng.choice(["+%d", "%04d", " %d", "%d "])) % n
        if tok.startswith("+-"):
            tok = tok[1:]
    return tok, n, ok, False


def gen_wellformed(rng, iface=None, kws=None):
    """A descriptor built from chosen values, with the outcome the property demands for it."""
    iface = iface or rng.choice(["serial", "tcp", "udp", "usbtmc", "vxi11", "gpib", "tcp", "serial", "usbtmc"])
    sp = SPEC[iface]
    params = sp["pos"] + sp["kw"]
    npos = rng.choice([len(sp["pos"])] * 4 + list(range(len(sp["pos"]) + 1)))
    given, valid, parts_pos, parts_kw = {}, True, [], []
    open_reasons = set()       # why the property leaves the outcome on this descriptor open (see Model.allowed)
    first_given = {}           # for a repeated keyword: the value of its first occurrence
    for i, (n, ty) in enumerate(sp["pos"][:npos]):
        tok, v, ok, br = gen_value(rng, iface, n, ty, False)
        given[n] = v
        valid &= ok
        if br and ":" not in tok:
            open_reasons.add("brackets-around-a-plain-part")
        if not canonical_number(ty, tok, False):
            open_reasons.add("number-spelling")
        parts_pos.append("[%s]" % tok if br else tok)
    force_default = []
    if kws is None:
        kws = [p for p in sp["kw"] if rng.random() < 0.5]
        # mostly complete descriptors: a needed keyword is usually given, by the string or by a default
        for p in sp["kw"]:
            if p[0] in sp["need"] and p not in kws and rng.random() < 0.8:
                if rng.random() < 0.6:
                    kws.append(p)
                else:
                    force_default.append(p[0])
        rng.shuffle(kws)
    bracketed = any(p.startswith("[") for p in parts_pos)
    for n, ty in kws:
        tok, v, ok, _ = gen_value(rng, iface, n, ty, True)
        given[n] = v
        valid &= ok
        if not canonical_number(ty, tok, True):
            open_reasons.add("number-spelling")
        part = "%s=%s" % (n, tok)
        if not bracketed and rng.random() < 0.05:
            bracketed = True        # at most one bracketed part: the greedy group runs to the LAST ']'
            part = "[%s]" % part
            open_reasons.add("brackets-around-a-plain-part")
        parts_kw.append(part)
    if rng.random() < 0.1 and kws:
        # a keyword given twice: the property allows either value, or refusing the descriptor
        n, ty = rng.choice(kws)
        tok, v, ok, _ = gen_value(rng, iface, n, ty, True)
        if not canonical_number(ty, tok, True):
            open_reasons.add("number-spelling")
        parts_kw.append("%s=%s" % (n, tok))
        first_given[n] = given[n]
        given[n] = v
        open_reasons.add("repeated-keyword")
        valid = None   # recomputed below
    unknown = False
    if rng.random() < 0.07:     # a keyword the interface does not have (abbreviation, other interface's, typo)
        tn = [n for n, _ in params]
        k = rng.choice([n[:rng.randint(0, len(n) - 1)] for n, _ in sp["kw"]] +
                       ["baudrate", "port", "host", "foo", "timeout", "Parity", "serialnr ", "vendorid"])
        if k not in tn:
            parts_kw.insert(rng.randint(0, len(parts_kw)), "%s=%s" % (k, rng.choice(["1", "x", "0x10", "True"])))
            unknown = True
    # interleave keywords anywhere among the positionals
    parts = list(parts_pos)
    for p in parts_kw:
        # keep relative order of keyword parts (matters for duplicates)
        pass
    slots = sorted(rng.randint(0, len(parts_pos)) for _ in parts_kw)
    merged, ki = [], 0
    for i in range(len(parts_pos) + 1):
        while ki < len(parts_kw) and slots[ki] == i:
            merged.append(parts_kw[ki])
            ki += 1
        if i < len(parts_pos):
            merged.append(parts_pos[i])
    # defaults: some of the parameters not (or also) given, plus keys of other interfaces
    d = {}
    for n, ty in params:
        if n in force_default or rng.random() < (0.45 if n not in given else 0.15):
            _, v, ok, _ = gen_value(rng, iface, n, ty, True)
            if n == "host" and v == LOCALHOST_IP:
                v = "localhost"
            d[n] = v
    if rng.random() < 0.3:      # keys outside this interface's table: must be dropped, whatever they hold
        k = rng.choice(["foo", "baudrate", "host", "port", "serialnr", "connect_timeout", "Device"])
        if k not in [n for n, _ in params]:
            d[k] = rng.choice([1, "x", 2.5, True, None])
    # drop accidental well-known keys with ill-typed values
    for k in list(d):
        tyk = dict(params).get(k)
        if tyk is not None and not _welltyped(d[k], tyk):
            del d[k]
    casef = rng.random()
    name = iface if casef < 0.85 else (iface.upper() if casef < 0.93 else iface.capitalize())
    if rng.random() < 0.04:
        name = ":" + name
        open_reasons.add("leading-colon")
    s = ":".join([name] + merged)
    if not merged:
        return None
    # the bracket group is greedy: it runs to the LAST ']' or '$' of the line.  The intent oracle only
    # speaks about descriptors where that is the bracket's own ']'
    br = [i for i, p in enumerate(merged) if p.startswith("[")]
    if br and any(("]" in p or "$" in p) for p in merged[br[0] + 1:]):
        return None
    dd = d if (d or rng.random() < 0.5) else None
    return {"mode": "create", "s": s, "d": dd, "kind": "wf", "iface": iface,
            "expect": intent(iface, given, first_given, d, unknown, open_reasons), "open": sorted(open_reasons)}


_CANON = {"int": re.compile(r"-?(0|[1-9][0-9]*)\Z"), "hex": re.compile(r"0x[0-9a-fA-F]+\Z"),
          "float": re.compile(r"-?(0|[1-9][0-9]*)(\.[0-9]+)?\Z")}


def canonical_number(ty, tok, kw):
    """plain spelling of a number (anything else - sign, blanks, leading zeros, exponent, inf - is accepted by
    int()/float() today, but a stricter reader that refuses it still satisfies the property)"""
    if ty == "int":
        return bool(_CANON["hex" if (kw and tok.startswith("0x")) else "int"].match(tok))
    if ty == "float":
        return bool(_CANON["float"].match(tok))
    return True


def intent(iface, given, first_given, d, unknown, open_reasons):
    """The outcome(s) the property demands for a generated descriptor: one definite outcome, or
    ("any", [alternatives]) where the property leaves a choice."""
    if unknown:
        return ("err",)
    alts = [expected(iface, given, d)]
    for n, v in first_given.items():
        alts.append(expected(iface, dict(given, **{n: v}), d))
    if open_reasons:
        alts.append(("err",))
    uniq = []
    for a in alts:
        if a not in uniq:
            uniq.append(a)
    return uniq[0] if len(uniq) == 1 else ("any", uniq)


def _welltyped(v, ty):
    return {"str": type(v) is str, "int": type(v) is int, "float": type(v) in (float, int) and type(v) is not bool,
            "bool": type(v) is bool}[ty]


def value_valid(iface, n, v):
    if n == "host":
        return v in GOOD_HOSTS or v in GOOD_V6 or v == LOCALHOST_IP
    if n == "device":
        return v.upper().startswith("COM") or v.startswith("/")
    if n == "parity":
        return v in ("N", "E", "O")
    if n == "stopbits":
        return v in (1.0, 1.5, 2.0)
    if n == "port":
        return 1 <= v <= 65535 and not (iface == "udp" and v == 35999)
    if n == "baudrate":
        return v >= 1
    if n == "bytesize":
        return 5 <= v <= 8
    if n in ("vendorid", "productid"):
        return 0 <= v <= 65535
    return True


def expected(iface, given, d):
    """The outcome the property demands: string value, else default, else constructor default."""
    sp = SPEC[iface]
    if sp["cls"] is None:
        return ("err",)
    tnames = [n for n, _ in sp["pos"] + sp["kw"]]
    args = {}
    for n in tnames:
        if n in given:
            args[n] = given[n]
        elif n in d:
            args[n] = d[n]
    out = []
    for n, dflt in sp["ctor"]:
        if n in args:
            v = args[n]
            if n == "host" and v == "localhost" and iface != "vxi11":
                v = LOCALHOST_IP
        elif dflt is not None:
            v = dflt
        else:
            return ("err",)
        if not value_valid(iface, n, v):
            return ("err",)
        out.append((n, v))
    return ("ok", sp["cls"], out)


MUTATIONS = ["drop-colon", "dup-colon", "drop-eq", "dup-eq", "extra-eq", "swap-parts", "bad-type", "case",
             "whitespace", "nul", "non-ascii", "overlong", "bracket", "unbracket", "truncate", "lead-colon",
             "trail-colon", "unknown-kw", "dollar", "surrogate"]
ODD = ["\u00e9", "\u017f", "\u212a", "\u0130", "\u0131", "\u0663", "\u3000", "\uff11", "\u00a0", "\U0001f600"]


def mutate(rng, s, m):
    pos = [i for i, ch in enumerate(s) if ch == ":"]
    eqs = [i for i, ch in enumerate(s) if ch == "="]
    parts = s.split(":")
    if m == "drop-colon" and pos:
        i = rng.choice(pos)
        return s[:i] + s[i + 1:]
    if m == "dup-colon" and pos:
        i = rng.choice(pos)
        return s[:i] + ":" + s[i:]
    if m == "drop-eq" and eqs:
        i = rng.choice(eqs)
        return s[:i] + s[i + 1:]
    if m == "dup-eq" and eqs:
        i = rng.choice(eqs)
        return s[:i] + "=" + s[i:]
    if m == "extra-eq" and eqs:
        i = rng.choice(eqs)
        j = s.find(":", i)
        j = len(s) if j < 0 else j
        return s[:j] + "=" + rng.choice(["", "2", "x"]) + s[j:]
    if m == "swap-parts" and len(parts) > 2:
        i, j = rng.sample(range(len(parts)), 2)
        parts[i], parts[j] = parts[j], parts[i]
        return ":".join(parts)
    if m == "bad-type" and len(parts) > 1:
        i = rng.randrange(1, len(parts))
        bad = rng.choice(["abc", "1.5", "true", "0X10", "1,5", "", "0x", "1e5", "--1", "0x-1", "١٢", "1__0", "TRUE",
                          "None", "0b1", "1 2", "0xg"])
        if "=" in parts[i]:
            parts[i] = parts[i].split("=")[0] + "=" + bad
        else:
            parts[i] = bad
        return ":".join(parts)
    if m == "case":
        i = rng.randrange(len(s))
        j = rng.randint(i + 1, min(len(s), i + 12))
        return s[:i] + s[i:j].swapcase() + s[j:]
    if m == "whitespace":
        i = rng.randint(0, len(s))
        return s[:i] + rng.choice([" ", "\t", "\n", "\r\n", "  "]) + s[i:]
    if m == "nul":
        i = rng.randint(0, len(s))
        return s[:i] + "\x00" + s[i:]
    if m == "non-ascii":
        i = rng.randint(0, len(s))
        return s[:i] + rng.choice(ODD) + s[i:]
    if m == "surrogate":
        i = rng.randint(0, len(s))
        return s[:i] + rng.choice(["\ud800", "\udfff"]) + s[i:]
    if m == "overlong" and len(parts) > 1:
        i = rng.randrange(1, len(parts))
        ch = parts[i][-1] if parts[i] else "9"
        parts[i] = parts[i] + ch * rng.choice([64, 260, 300])
        return ":".join(parts)
    if m == "bracket" and len(parts) > 1:
        i = rng.randrange(1, len(parts))
        parts[i] = "[" + parts[i] + rng.choice(["]", "]", "$", "", "]]", "]x"])
        return ":".join(parts)
    if m == "unbracket" and ("[" in s or "]" in s):
        ch = rng.choice([c for c in "[]" if c in s])
        i = rng.choice([k for k, c in enumerate(s) if c == ch])
        return s[:i] + s[i + 1:]
    if m == "truncate" and len(s) > 1:
        return s[:rng.randrange(1, len(s))]
    if m == "lead-colon":
        return ":" + s
    if m == "trail-colon":
        return s + rng.choice([":", "::", ":="])
    if m == "unknown-kw":
        i = rng.randint(1, len(parts))
        parts.insert(i, rng.choice(["foo=1", "port=5", "Baudrate=9600", "connect_timeout =1", "=1", "host=h", "baud=1"]))
        return ":".join(parts)
    if m == "dollar":
        i = rng.randint(0, len(s))
        return s[:i] + rng.choice(["$", "[", "]", ":[", "]:"]) + s[i:]
    return None


ALPHA = [":", ":", ":", "=", "=", "[", "]", "$", "\n", "0x", "1", "9", "a", "tcp", "udp", "serial", "usbtmc", "gpib",
         "vxi11", "host", "port", "True", "False", ".", "-", " ", "\u00e9", "\x00", "COM1", "/dev/x", "baudrate",
         "serialnr", "vendorid", "productid", "connect_timeout", "1.5", "::1", "TCP", "h"]


def gen_arbitrary(rng):
    n = rng.choice([0, 1, 2, 3, 4, 5, 6, 8, 10, 14])
    return "".join(rng.choice(ALPHA) for _ in range(n))


def gen_defaults(rng, iface):
    sp = SPEC.get(iface)
    d = {}
    if sp and rng.random() < 0.6:
        for n, ty in sp["pos"] + sp["kw"]:
            if rng.random() < 0.4:
                _, v, _, _ = gen_value(rng, iface, n, ty, True)
                d[n] = "localhost" if (n == "host" and v == LOCALHOST_IP) else v
    if rng.random() < 0.2:
        d[rng.choice(["foo", "x", "Device"])] = rng.choice([1, "x", 2.5, True, None])
    return d if (d or rng.random() < 0.5) else None


SYN_NAMES = ["a", "b", "host", "n", "f", "flag", "s", "x1", "k"]
SYN_TOKS = ["5", "0x10", "1.5", "abc", "True", "False", "-3", " 7", "0x", "1e3", "h", "nan", "0xff", "١"]


def gen_synthetic(rng):
    names = rng.sample(SYN_NAMES, rng.randint(1, 6))
    npos = rng.randint(0, min(3, len(names)))
    mk = lambda n: (n, rng.choice(["TStr", "TInt", "TFloat", "TBool"]), rng.random() < 0.4)
    pos = [mk(n) for n in names[:npos]]
    kw = [mk(n) for n in names[npos:]]
    iface = rng.choice(["foo", "x1", "dev"])
    table = ("syn", iface, pos, kw)
    parts = []
    for _ in range(rng.randint(0, 5)):
        r = rng.random()
        if r < 0.45:
            parts.append(rng.choice(SYN_TOKS))
        elif r < 0.9:
            parts.append("%s=%s" % (rng.choice(names + ["zz"] if rng.random() < 0.15 else names), rng.choice(SYN_TOKS)))
        else:
            parts.append(rng.choice(["[a:b]", "k=1=2", "[n=5]", "=", "[::1]"]))
    s = ":".join([rng.choice([iface, iface, iface.upper(), "other"])] + parts)
    if rng.random() < 0.25:
        m = mutate(rng, s, rng.choice(MUTATIONS))
        s = m if m is not None else s
    d = {}
    for n, ty, _ in pos + kw:
        if rng.random() < 0.3:
            d[n] = {"TStr": "dflt", "TInt": 42, "TFloat": 2.5, "TBool": True}[ty]
    if rng.random() < 0.2:
        d["outside"] = 1
    return {"mode": "parse", "table": table, "s": s, "d": d if (d or rng.random() < 0.5) else None,
            "kind": "synthetic", "iface": "synthetic"}


CORPUS = ["serial:/dev/ttyS0", "usbtmc:serialnr=X", "tcp:h:1:connect_timeout=1=2", "tcp:a\x00b:5",
          "udp:h:5:connect_timeout=1.5", "usbtmc:serialnr=AB:productid=70000", "usbtmc:serialnr=AB:vendorid=1",
          "tcp:\ud800:5", "gpib:1:board=1=2", "vxi11:a\x00", "udp:a\x00b:5",
          "tcp:[2620:0:2d0:200::8]:5000", "tcp:[::1]x:5", ":tcp:host:5", "tcp:[a]:5:[b]", "tcp:[abc$:5",
          "tcp:localhost:1", "serial:COM3:baudrate=0x2580:bytesize=7:parity=E:stopbits=1.5:rtscts=True",
          "usbtmc:vendorid=0x0699:productid=0x3000:serialnr=C012345", "vxi11:192.168.1.2", "gpib:1",
          "tcp:h:" + "9" * 4400, "", ":", "tcp", "tcp:", "tcp::", "=", "tcp:h:5:=3", "tcp:h:5:junk",
          "tcp:h:5:port=7", "TCP:H:5", "tcp:h:\u0663", "tcp:\u017f:5", "tcp:h:5:connect_timeout=\uff11"]


def gen_cases(ck):
    rng = ck.rng
    mult = 1 if ck.tier == "quick" else 20
    cases = []
    for s in CORPUS:
        cases.append({"mode": "create", "s": s, "d": None, "kind": "corpus", "iface": s.split(":")[0].lower()[:8]})
    cases.append({"mode": "create", "s": "usbtmc:serialnr=AB:productid=70000", "d": {"productid": 5}, "kind": "corpus",
                  "iface": "usbtmc"})
    # every interface x every keyword subset once, in table order and reversed
    for iface, sp in SPEC.items():
        kws = sp["kw"]
        for mask in range(1 << len(kws)):
            for rev in (False, True):
                sub = [kws[i] for i in range(len(kws)) if mask >> i & 1]
                c = None
                for _ in range(20):
                    c = gen_wellformed(rng, iface, sub[::-1] if rev else sub)
                    if c is not None:
                        break
                if c is not None:
                    cases.append(c)
    wf = []
    for _ in range(1300 * mult):
        c = gen_wellformed(rng)
        if c is not None:
            wf.append(c)
    cases += wf
    for _ in range(1700 * mult):
        base = rng.choice(wf)
        m = rng.choice(MUTATIONS)
        s = mutate(rng, base["s"], m)
        if s is None or s == base["s"]:
            continue
        if len(s) > 400 and rng.random() < 0.7:
            continue
        cases.append({"mode": "create", "s": s, "d": base["d"], "kind": "near", "iface": base["iface"], "mut": m})
    for _ in range(800 * mult):
        s = gen_arbitrary(rng)
        iface = s.split(":")[0].lower()
        cases.append({"mode": "create", "s": s, "d": gen_defaults(rng, iface), "kind": "arbitrary", "iface": "arb"})
    # parse-only path through the six real parser instances (this is what exercises the GPIB table)
    pool = [c for c in cases if c["mode"] == "create"]
    for _ in range(800 * mult):
        base = rng.choice(pool)
        first = base["s"].lstrip(":").split(":")[0].lower()
        avail = [i for i in SPEC if LIVE_IFACES is None or i in LIVE_IFACES]
        if not avail:
            break
        iface = first if (first in avail and rng.random() < 0.9) else rng.choice(avail)
        cases.append({"mode": "parse", "table": ("real", iface), "s": base["s"], "d": base["d"], "kind": "parse-real",
                      "iface": iface})
    for _ in range(200 * mult if (LIVE_IFACES is None or "gpib" in LIVE_IFACES) else 0):
        c = gen_wellformed(rng, "gpib")
        if c is None:
            continue
        s = c["s"]
        if rng.random() < 0.5:
            s = mutate(rng, s, rng.choice(MUTATIONS)) or s
        cases.append({"mode": "parse", "table": ("real", "gpib"), "s": s, "d": c["d"], "kind": "parse-real",
                      "iface": "gpib"})
    for _ in range(600 * mult):
        cases.append(gen_synthetic(rng))
    return cases


def gen_roundtrip(ck):
    rng = ck.rng
    out = []
    serials = ["MY1234", "C012345", "0", "A B", "x-y_z", "SN.001", "\u00e9", "[1]", "$", "A:B", "A=B"]
    for _ in range(60 if ck.tier == "quick" else 2000):
        v, p = rng.choice([0, 1, 0x0699, 0xffff, rng.randint(0, 65535)]), rng.choice([0, 0x3000, 65535, rng.randint(0, 65535)])
        ser = rng.choice(serials) if rng.random() < 0.7 else "".join(rng.choice("ABCabc019-_. ") for _ in range(rng.randint(1, 12)))
        fmt = rng.choice(["USB0::0x%04X::0x%04X::%s::INSTR", "USB::%d::%d::%s::INSTR", "USB1::0x%x::0x%x::%s::0::INSTR"])
        out.append((fmt % (v, p, ser), v, p, ser))
    return out


# ----------------------------------------------------------------------------------------------
# oracle
# ----------------------------------------------------------------------------------------------

def same_value(a, b):
    if type(a) is not type(b):
        return False
    if type(a) is float and a != a:
        return b != b
    return a == b


def oracle(c, o):
    """-> None or (key, what)"""
    if o[0] == "esc":
        return o[1], "%s escapes instead of QMI_TransportDescriptorException (%s)" % (o[2].split(":")[0], o[2])
    if o[0] == "touch":
        return "touch:%s:%s" % (o[1], o[2][0]), "constructing the transport touched a device/resolver: %s" % (o[2],)
    if o[0] == "weird":
        return "weird:" + o[1], o[1]
    if o[0] == "ok" and o[3] is not False:
        return "open:" + o[1], "freshly created transport has _is_open=%r" % (o[3],)
    exp = c.get("expect")
    if exp is None:
        return None
    if exp[0] == "any":
        whys = [_match_intent(c, o, a) for a in exp[1]]
        if any(w is None for w in whys):
            return None
        return ("intent:%s:none-of-the-allowed" % c["iface"],
                "outcome %r is none of the outcomes the property allows here (%s): %r" % (o[:3], ", ".join(c.get("open", [])), exp[1]))
    return _match_intent(c, o, exp)


def _match_intent(c, o, exp):
    if exp[0] == "err" and o[0] != "err":
        return "intent:%s:accepted" % c["iface"], "descriptor that must be rejected was accepted: %r" % (o[:3],)
    if exp[0] == "ok":
        if o[0] != "ok":
            return "intent:%s:rejected" % c["iface"], "well-formed descriptor rejected (expected %r)" % (exp,)
        if o[1] != exp[1]:
            return "intent:%s:class" % c["iface"], "class %s, expected %s" % (o[1], exp[1])
        got = dict(o[2])
        for n, v in exp[2]:
            if n not in got or not same_value(got[n], v):
                return "intent:%s:value:%s" % (c["iface"], n), "parameter %s is %r, the descriptor/defaults say %r" % (
                    n, got.get(n), v)
        # constructor arguments the documented interface does not name must hold the constructor's own default
        known = {n for n, _ in exp[2]}
        dfl = o[4] if len(o) > 4 else {}
        for n, v in got.items():
            if n not in known and not (n in dfl and same_value(dfl[n], v)):
                return "intent:%s:extra:%s" % (c["iface"], n), \
                    "argument %s=%r was given neither by the descriptor nor by the defaults and is not the " \
                    "constructor default" % (n, v)
    return None


def run_impl(c):
    if c["mode"] == "create":
        return impl_create(c["s"], c["d"])
    return impl_parse(c["table"], c["s"], c["d"])


def shrink(c, key):
    """Delete characters / defaults while the oracle still reports the same key."""
    def still(s, d):
        cc = dict(c, s=s, d=d)
        cc.pop("expect", None)
        r = oracle(cc, run_impl(cc))
        return r is not None and re.sub(r"-?\d+", "N", r[0]) == re.sub(r"-?\d+", "N", key)
    s, d = c["s"], c["d"]
    if c.get("expect") is not None or not still(s, d):
        return c
    if d:
        for k in list(d):
            dd = {a: b for a, b in d.items() if a != k}
            if still(s, dd):
                d = dd
    i = 0
    while i < len(s) and len(s) < 2000:
        t = s[:i] + s[i + 1:]
        if still(t, d):
            s = t
        else:
            i += 1
    out = dict(c, s=s, d=d)
    out.pop("expect", None)
    return out


def replay_obj(c, o, extra=None):
    r = {"mode": c["mode"], "descriptor": c["s"], "descriptor_codepoints": [ord(ch) for ch in c["s"]],
         "defaults": None if c["d"] is None else [[k, v] for k, v in c["d"].items()],
         "table": list(c["table"]) if c["mode"] == "parse" else None, "kind": c.get("kind"), "mutation": c.get("mut"),
         "impl": repr(o), "expect": c.get("expect"), "open": c.get("open")}
    if extra:
        r.update(extra)
    return r


# ----------------------------------------------------------------------------------------------
# create_transport as a FUNCTION of (descriptor, defaults): histories and interleavings
# (theorem C14_history_independent: in the model the k-th outcome of a history depends on the k-th
# arguments only; here the implementation is checked against that)
# ----------------------------------------------------------------------------------------------
HIST_VALID = [("tcp:192.168.1.10:5025", None), ("udp:h:5000", None), ("serial:/dev/ttyS0:baudrate=9600", None),
              ("usbtmc:vendorid=0x0699:productid=0x3000:serialnr=C1", None), ("vxi11:h", None),
              ("tcp:[::1]:80:connect_timeout=2.5", None), ("serial:COM3", {"baudrate": 115200, "parity": "E"}),
              ("TCP:example.com:1", {"connect_timeout": 3.0})]
HIST_REJECTED = [("tcp", None), ("udp", None), ("gpib", None), ("", None), (":", None), ("serial:", None), ("vxi11", None),
                 ("tcp", {"host": "h", "port": 5025}), ("foo:bar:1", None), ("tcp:h", None), ("usbtmc:vendorid=1", None),
                 ("tcp:h:5:foo=1", None), ("tcp:h:abc", None), ("serial:COM1:baudrate=x", None),
                 ("tcp:h:1:connect_timeout=1=2", None), ("tcp:-bad:5", None), ("tcp:h:0", None), ("udp:h:35999", None),
                 ("gpib:1", None), ("usbtmc:serialnr=S", None)]
HIST_SAME_S = [[("tcp:h", {"port": 5}), ("tcp:h", {"port": 7}), ("tcp:h", None)],
               [("usbtmc:serialnr=S", {"vendorid": 1, "productid": 2}), ("usbtmc:serialnr=S", {"vendorid": 3, "productid": 4})],
               [("serial:COM1", {"baudrate": 9600}), ("serial:COM1", {"baudrate": 19200, "bytesize": 7})],
               [("tcp", {"host": "h", "port": 5025}), ("tcp", None)]]
LINE_FUNCS = ["_parse_parts", "_parse_interface", "match_interface", "parse_parameter_strings",
              "_parse_positional_parameters", "_parse_keyword_parameters"]


def mkcall(op, s, d=None, iface=None):
    return {"op": op, "s": s, "d": d, "iface": iface}


def callkey(c):
    return json.dumps([c["op"], c["iface"], [ord(ch) for ch in c["s"]],
                       None if c["d"] is None else sorted(c["d"].items(), key=repr)], default=repr)


def sig(o):
    """what a caller can observe of one call (constructor defaults of the class left out)"""
    return repr(tuple(o[:4]))


def do_call(c):
    if c["op"] == "create":
        return impl_create(c["s"], c["d"])
    if c["op"] == "parse":
        return impl_parse(("real", c["iface"]), c["s"], c["d"])
    T = impl()
    from qmi.core.exceptions import QMI_TransportDescriptorException
    try:
        return ("match", bool(real_parser(T, c["iface"]).match_interface(c["s"])))
    except QMI_TransportDescriptorException:
        return ("err",)
    except BaseException as e:  # noqa
        return _esc(e)


def scenario_sequence(s, calls):
    return [sig(do_call(c)) for c in calls]


def scenario_threads(s, thread_calls):
    import logging
    import threading as real_threading
    import dsched
    logging.disable(logging.CRITICAL)
    T = impl()
    P = T.TransportDescriptorParser
    dsched.enable_line_yields([getattr(P, f) for f in LINE_FUNCS if hasattr(P, f)] + [T.create_transport])
    out = [[None] * len(cs) for cs in thread_calls]

    def work(i):
        for j, c in enumerate(thread_calls[i]):
            out[i][j] = sig(do_call(c))
    ths = [real_threading.Thread(target=work, args=(i,)) for i in range(len(thread_calls))]
    for th in ths:
        th.start()
    for th in ths:
        th.join()
    return out


def history_sample(ck):
    rng = __import__("random").Random(ck.seed * 7919 + 14)
    creates = [mkcall("create", s, d) for s, d in HIST_VALID + HIST_REJECTED]
    for _ in range(10):
        c = gen_wellformed(rng)
        if c is not None:
            creates.append(mkcall("create", c["s"], c["d"]))
            m = mutate(rng, c["s"], rng.choice(MUTATIONS))
            if m is not None and len(m) < 200:
                creates.append(mkcall("create", m, c["d"]))
    same = [[mkcall("create", s, d) for s, d in grp] for grp in HIST_SAME_S]
    T = impl()
    live = {p.interface for p in vars(T).values() if isinstance(p, T.TransportDescriptorParser)}
    others = []
    for s, d in HIST_VALID[:6] + HIST_REJECTED[:8] + [("gpib:1:board=2", None)]:
        first = s.lstrip(":").split(":")[0].lower()
        for iface in {first if first in SPEC else "tcp", "tcp"}:
            if iface in live:
                others.append(mkcall("match", s, None, iface))
                others.append(mkcall("parse", s, d, iface))
    return creates, same, others


def history_plan(ck):
    """-> (distinct calls, sequences [(kind, [calls])], thread jobs)"""
    rng = __import__("random").Random(ck.seed * 104729 + 14)
    creates, same, others = history_sample(ck)
    mult = 1 if ck.tier == "quick" else 12
    valid = [mkcall("create", s, d) for s, d in HIST_VALID]
    rejected = [mkcall("create", s, d) for s, d in HIST_REJECTED]
    seqs = [("x,x", [x, x]) for x in creates + others]
    for grp in same:
        for a in grp:
            for b in grp:
                if a is not b:
                    seqs.append(("same-descriptor-other-defaults", [a, b]))
                    seqs.append(("same-descriptor-other-defaults", [a, b, a]))
    for _ in range(60 * mult):
        x, y = rng.choice(creates), rng.choice(creates)
        seqs.append(("x,y,x", [x, y, x]))
    for r in rejected:
        seqs.append(("valid,rejected,rejected", [rng.choice(valid), r, r]))
        seqs.append(("rejected,rejected,valid", [r, r, rng.choice(valid)]))
    for _ in range(40 * mult):
        seqs.append(("mixed", [rng.choice(creates + others + others) for _ in range(rng.randint(3, 6))]))
    threads = []
    for i in range(100 * mult):
        n = rng.choice([2, 2, 3])
        pool = valid + rejected[:10] + [c for grp in same for c in grp]
        tc = [[rng.choice(pool) for _ in range(rng.choice([1, 1, 2]))] for _ in range(n)]
        kw = dict(strategy="random", seed=ck.seed * 4099 + i, switch_prob=rng.choice([0.3, 0.5, 0.7])) if i % 3 else \
            dict(strategy="pct", seed=ck.seed * 4099 + i)
        threads.append((tc, kw))
    distinct = {}
    for _, cs in seqs:
        for c in cs:
            distinct.setdefault(callkey(c), c)
    for tc, _ in threads:
        for cs in tc:
            for c in cs:
                distinct.setdefault(callkey(c), c)
    return distinct, seqs, threads, creates + [c for grp in same for c in grp], others


def history_run(ck):
    """Runs everything in forked children of THIS process, which has imported the transport module but not
    called it yet, so every child starts from the state a fresh process has."""
    import dsched
    distinct, seqs, threads, creates, others = history_plan(ck)
    keys = list(distinct)
    jobs = [(scenario_sequence, ([distinct[k]],), dict(strategy="fifo")) for k in keys]
    jobs += [(scenario_sequence, (cs,), dict(strategy="fifo")) for _, cs in seqs]
    jobs += [(scenario_threads, (tc,), kw) for tc, kw in threads]
    res = dsched.run_forked(jobs, nproc=common.NPROC, wall_timeout=30.0)
    return {"distinct": distinct, "keys": keys, "seqs": seqs, "threads": threads, "res": res,
            "creates": creates, "others": others}


def history_check(ck, H):
    res, keys = H["res"], H["keys"]
    alone = {}
    for k, r in zip(keys, res[:len(keys)]):
        if r.get("status") != "ok":
            ck.report("tie:history-harness:%s" % r.get("status"), "a single call in a forked child did not finish: %s"
                      % str(r.get("trace") or r)[:300], {"history": [H["distinct"][k]]}, found_input=False)
            return {}
        alone[k] = r["obs"][0]
    H["alone"] = alone
    off = len(keys)
    for (kind, cs), r in zip(H["seqs"], res[off:off + len(H["seqs"])]):
        ck.note_case(("history", kind, [callkey(c) for c in cs]), True)
        ck.count("history:" + kind)
        if r.get("status") != "ok":
            ck.report("history:%s:%s" % (kind, r.get("status")), "a call sequence did not finish: %s" % str(r.get("trace") or r)[:300],
                      {"history": cs})
            continue
        for j, (c, got) in enumerate(zip(cs, r["obs"])):
            if got != alone[callkey(c)]:
                cs2 = shrink_history(cs, j, alone, got)
                ck.report("history:%s:%s" % (kind, c["op"]),
                          "create_transport/parser is not a function of its arguments: call #%d of the sequence %s gave %s, "
                          "the same call made alone in a fresh process gives %s" % (
                              len(cs2), [(x["op"], x["iface"], x["s"], x["d"]) for x in cs2], got[:300], alone[callkey(c)][:300]),
                          {"history": cs2, "outcome_in_history": got, "outcome_alone": alone[callkey(c)]})
                break
    off += len(H["seqs"])
    for (tc, kw), r in zip(H["threads"], res[off:]):
        ck.note_case(("threads", [[callkey(c) for c in cs] for cs in tc], tuple(r.get("choices") or ())), True)
        ck.count("threads:%d:%s" % (len(tc), r.get("status")))
        rep = {"threads": tc, "schedule": r.get("choices"), "sched_kw": kw}
        if r.get("status") != "ok":
            ck.report("threads:%s" % r.get("status"), "concurrent create_transport calls did not finish (%s): %s" % (
                r.get("status"), str(r.get("trace") or r.get("info"))[:300]), rep)
            continue
        bad = [(i, j) for i, cs in enumerate(tc) for j, c in enumerate(cs) if r["obs"][i][j] != alone[callkey(c)]]
        if bad:
            i, j = bad[0]
            c = tc[i][j]
            ck.report("threads:outcome-differs",
                      "concurrent create_transport calls interfere: thread %d calling create_transport(%r, %r) got %s; alone it "
                      "gives %s (other threads: %s; schedule recorded)" % (
                          i, c["s"], c["d"], r["obs"][i][j][:300], alone[callkey(c)][:300],
                          [[(x["s"], x["d"]) for x in cs] for k, cs in enumerate(tc) if k != i]),
                      dict(rep, outcomes=r["obs"], alone=[[alone[callkey(c)] for c in cs] for cs in tc]))
    return alone


def shrink_history(cs, j, alone, got):
    """drop earlier calls one at a time while call j keeps giving the same (wrong) outcome"""
    import dsched
    cur = list(cs[:j + 1])
    i = 0
    while i < len(cur) - 1 and len(cur) > 1:
        cand = cur[:i] + cur[i + 1:]
        r = dsched.run_forked([(scenario_sequence, (cand,), dict(strategy="fifo"))], nproc=1)[0]
        if r.get("status") == "ok" and r["obs"][-1] == got:
            cur = cand
        else:
            i += 1
    return cur



def prepare_tables(ck):
    """Regenerate coq/gen/C14Tables.v from the live view of the tree under test.  Returns obligations or None."""
    global LIVE_IFACES
    try:
        tr, obligations = t_c14_tables.run(common.REPO, GEN, with_proofs=True)
    except (t_c14_tables.TranslationError, SyntaxError, OSError) as e:
        ck.report("tie:translator", "t_c14_tables could not express the tree's parser tables / dispatch in the model "
                                    "(broken tie): %s" % e,
                  {"broken": "translator t_c14_tables", "error": str(e)}, found_input=False)
        return None
    LIVE_IFACES = [e["table"]["iface"] for e in tr["entries"]] + [x["table"]["iface"] for x in tr["undispatched"]]
    ck.coverage["translated_tables"] = {e["table"]["iface"]: {"parser": e["parser"], "class": e["class"],
                                                              "kind": e["kind"], "positionals": e["table"]["pos"],
                                                              "keywords": e["table"]["kw"], "ctor": e["ctor"]}
                                        for e in tr["entries"]}
    ck.coverage["parsers_not_reachable_from_create_transport"] = [x["parser"] for x in tr["undispatched"]]
    ck.coverage["syntactic_crosscheck"] = t_c14_tables.syntax_crosscheck(tr, common.REPO)
    return obligations


def unicode_assumptions(ifaces):
    """The model folds case on ASCII only.  Check that this cannot differ from str.lower()/upper()
    where the code compares with ASCII text (interface names; the "COM" prefix)."""
    letters = set("".join(ifaces))
    for cp in range(128, 0x110000):
        ch = chr(cp)
        lo = ch.lower()
        if lo.isascii() and set(lo) & letters:
            raise AssertionError("U+%04X lowers to %r which occurs in an interface name" % (cp, lo))
        if set(ch.upper()) & set("COM"):
            raise AssertionError("U+%04X uppers to %r" % (cp, ch.upper()))


def run(ck):
    ck.theory_dir = THEORY
    T = impl()
    # first of all (nothing has called the implementation yet): histories and interleavings in forked children
    try:
        _ = t_c14_tables   # (the live interface list is not known yet; history_sample falls back to SPEC)
        H = history_run(ck)
    except Exception as e:  # noqa
        H = None
        ck.report("tie:history-harness", "the history / interleaving bucket could not run: %s: %s" % (type(e).__name__, e),
                  {"broken": "harness c14.history_run"}, found_input=False)
    obligations = prepare_tables(ck)
    ck.trusted = [
        "Coq 8.16.1 kernel (vm_compute for generated table obligations and for evaluating the model on cases)",
        "hand-written model theories/C14/Model.v (tokeniser = transcription of the regex of _parse_parts; generic "
        "table-driven parser; constructor validation), tied to /repo by this run's correspondence",
        "translator harness/translators/t_c14_tables.py: tables, constructor signatures and responder port read "
        "from the live objects of the tree under test; parser/class per interface found by probing the real "
        "create_transport with recording parsers and constructors; fail-closed where the model cannot express them",
        "harness/dsched.py deterministic scheduler (line-level scheduling points inside the parser and create_transport) "
        "and forked children for the history / interleaving buckets",
        "python harness c14.py: trip-wire stubs for socket/serial/vxi11/usb as seen from qmi.core.transport*, "
        "gethostbyname('localhost') stubbed to 127.0.0.1, reading back private attributes of the created transport",
        "CPython int()/int(.,16)/float(), QMI's _is_valid_hostname/_is_valid_ipaddress (glibc inet_pton): "
        "not modelled; the model asks, the harness answers with the real functions",
    ]
    ck.assumptions = [
        "default dictionaries are well-typed (a str where the constructor wants a str, ...); ill-typed defaults "
        "are a caller error outside C14",
        "non-Windows branch of create_transport (GPIB always rejected; USBTMC = QMI_PyUsbTmcTransport)",
        "str.lower()/upper() differ from ASCII case folding only on characters that cannot produce an interface "
        "name / the COM prefix (checked on every run over all code points)",
    ]
    if obligations is None:
        if H:
            history_check(ck, H)
        # broken tie: spend the budget on the implementation-side oracle only
        ck.proof_ok = False
        ck.proof_log += "translator failed\n"
        for c in gen_cases(ck):
            if c["mode"] == "create":
                o = run_impl(c)
                ck.note_case((c["s"], c["d"]), True)
                r = oracle(c, o)
                if r:
                    ck.report(r[0], "C14 fails on the implementation: " + r[1] + " on %r" % c["s"][:80], replay_obj(c, o))
        return ck.finish("implementation-side oracle only (translator failed)")
    t0 = time.time()
    ck.build_theory(THEORY, extra_gen=[GEN])
    gen_ok = os.path.exists(GEN + "o") and os.path.getmtime(GEN + "o") >= t0 - 1 and "generated obligation file" not in ck.proof_log
    ck.add_generated_obligations(len(obligations), len(obligations) if gen_ok else 0,
                                 () if gen_ok else obligations)
    unicode_assumptions([e for e in SPEC])
    if not gen_ok:
        # A generated obligation no longer checks (finish() reports it).  Still look for a concrete
        # failing input: regenerate without the failing group of lemmas so that the entries can be used.
        usable = False
        for with_proofs, with_wf in ((False, True), (False, False)):
            _, kept = t_c14_tables.run(common.REPO, GEN, with_proofs=with_proofs, with_wf=with_wf)
            rc, out = common.sh(["timeout", "600", "coqc", "-Q", "theories", "QV", "-Q", "gen", "QVgen", GEN],
                                cwd=common.COQ, env=ck.coq_env())
            if rc == 0:
                usable = True
                ck.coverage["generated_obligations_failing"] = [o for o in obligations if o not in kept]
                ck.discharged += len(kept)
                break
        if not usable:
            return ck.finish("generated table definitions do not compile; no correspondence run")

    # constructor/table consistency, computed in the model (reported in the evidence)
    cons = re.findall(r"\b(true|false)\b", ck.model_eval(CORR, "map snd ctor_consistency").split(":")[0])
    ifaces = list(ck.coverage["translated_tables"])
    ck.coverage["table_agrees_with_constructor (Model.ctor_consistent)"] = \
        dict(zip(ifaces, [c == "true" for c in cons])) if len(cons) == len(ifaces) else "could not be evaluated"

    cases = gen_cases(ck)
    alone = history_check(ck, H) if H else {}
    if H:
        # the sampled calls are also ordinary cases: their outcome must lie in the allowed set, and here - late in
        # this long-lived process - equal what a fresh process gives
        for hc in H["creates"] + [x for x in H["others"] if x["op"] == "parse"]:
            c = {"mode": hc["op"], "s": hc["s"], "d": hc["d"], "kind": "history-sample",
                 "iface": hc["iface"] or hc["s"].lstrip(":").split(":")[0].lower()[:8], "hkey": callkey(hc)}
            if hc["op"] == "parse":
                c["table"] = ("real", hc["iface"])
            cases.append(c)
    obs = []
    for c in cases:
        o = run_impl(c)
        obs.append(o)
        c["obs"] = o
        if c.get("hkey") in alone and sig(o) != alone[c["hkey"]]:
            ck.report("history:main-run:%s" % c["mode"],
                      "after the calls of this run, %s(%r, %r) gives %s; in a fresh process it gives %s" % (
                          c["mode"], c["s"], c["d"], sig(o)[:300], alone[c["hkey"]][:300]), replay_obj(c, o))
        nontrivial = o[0] in ("ok", "dict") or c["kind"] in ("near", "wf")
        ck.note_case((c["mode"], c.get("table"), c["s"], defaults_items(c["d"])), nontrivial)
        ck.count("kind:" + c["kind"])
        ck.count("iface:" + c["iface"])
        ck.count("impl:" + o[0])
        if "mut" in c:
            ck.count("mutation:" + c["mut"])
        ck.count("len:%s" % ("0-10" if len(c["s"]) <= 10 else "11-40" if len(c["s"]) <= 40 else "41-100" if len(c["s"]) <= 100 else "100+"))
        ck.count("defaults:%s" % ("none" if c["d"] is None else "empty" if not c["d"] else "some"))
        if c.get("expect"):
            ck.count("intent:" + ("open (%s)" % "+".join(c.get("open", [])) if c["expect"][0] == "any" else c["expect"][0]))
        r = oracle(c, o)
        c["oracle"] = r
        if r:
            key = re.sub(r"-?\d+", "N", r[0])
            if ck.known_open(key) is None and not any(v.key == key for v in ck.violations):
                c2 = shrink(c, r[0])
                o2 = run_impl(c2)
                ck.report(r[0], "C14 fails on the implementation: %s; descriptor %r defaults %r" % (r[1], c2["s"][:120], c2["d"]),
                          replay_obj(c2, o2))
            else:
                ck.report(r[0], r[1], replay_obj(c, o))
    # round trip of the descriptors QMI produces itself
    for res, v, p, ser in gen_roundtrip(ck):
        descs = T.QMI_UsbTmcTransport._format_resources([res])
        ck.count("kind:roundtrip")
        for dsc in descs:
            c = {"mode": "create", "s": dsc, "d": None, "kind": "roundtrip", "iface": "usbtmc"}
            o = run_impl(c)
            c["obs"] = o
            ck.note_case(("roundtrip", res), True)
            ok = o[0] == "ok" and dict(o[2]) == {"vendorid": v, "productid": p, "serialnr": ser}
            r = oracle(c, o)
            if r:
                ck.report(r[0], r[1] + " on the listed resource descriptor %r" % dsc, replay_obj(c, o, {"resource": res}))
            if not ok:
                why = "colon" if ":" in ser else "equals" if "=" in ser else "other"
                ck.report("roundtrip:serial-with-%s" % why,
                          "resource %r is listed as %r which parses back to %r" % (res, dsc, o), replay_obj(c, o, {"resource": res}))
            cases.append(c)
            c["oracle"] = r
        if not descs:
            ck.report("roundtrip:not-listed", "resource %r is not listed" % res, {"resource": res})

    # model vs implementation.  Library answers: first for the guessed questions ...
    shard = max(100, min(400, -(-len(cases) // common.NPROC)))
    nq = 0
    for c in cases:
        c["ans"] = {q: answer(*q) for q in hint_queries(c)}
        nq += len(c["ans"])
    ck.coverage["library_questions_answered"] = nq
    bad = ck.run_model(CORR, CHECK_FN, [case_term(c) for c in cases], "case", shard=shard)
    ck.coverage["first_pass_failures"] = len(bad)
    if bad:
        # ... then, for the cases that failed (uncovered question or real difference), for exactly the
        # questions the model lists
        sub = [cases[i] for i in bad]
        flat = coq_lists(ck, [[qcase_term(c) for c in sub[i:i + shard]] for i in range(0, len(sub), shard)])
        for c, nums in zip(sub, flat):
            qs = set(unflatten(nums)) | {(3, LOCALHOST_IP)}
            c["ans"] = {q: answer(*q) for q in qs}
        bad2 = ck.run_model(CORR, CHECK_FN, [case_term(c) for c in sub], "case", shard=shard)
        bad = [bad[j] for j in bad2]
    ck.coverage["correspondence_disagreements"] = len(bad)
    for i in bad[:8]:
        c = cases[i]
        mo = ck.model_eval(CORR, "model_out entries %s" % case_term(c))
        r = c.get("oracle")
        tag = "%s:%s:impl-%s" % (c["mode"], c["iface"], c["obs"][0])
        ck.report("corr:" + (r[0] if r else "model-differs:" + tag),
                  "implementation and Coq model disagree on descriptor %r defaults %r: implementation %r, model %s%s" % (
                      c["s"][:120], c["d"], c["obs"], mo[-400:], (" [oracle: %s]" % r[1]) if r else
                      " (the harness oracle has no verdict on this input)"),
                  replay_obj(c, c["obs"], {"model": mo[-1500:], "broken": "correspondence C14.Corr.check_case"}),
                  found_input=bool(r))
    for c in [c for c in cases if c["obs"][0] == "ok"][:2] + [c for c in cases if c["kind"] == "near"][:1]:
        ck.sample({"descriptor": c["s"], "defaults": c["d"], "impl": repr(c["obs"])}, 3)
    return ck.finish("grammar-generated descriptors over all six interfaces (every keyword subset, random order, "
                     "decimal/hex ints, bracketed hosts, defaults), single-mutation near misses, arbitrary strings, "
                     "parse-only runs through the six real tables and through fresh TransportDescriptorParser objects "
                     "over random well-formed tables, USBTMC resource round trips; call histories and thread interleavings "
                     "of a fixed sample compared with the same calls made alone in fresh processes; non-trivial = accepted, or "
                     "well-formed/near-miss by construction; distinct by content hash",
                     "theorems are about Model.create/parse for ALL strings, defaults and well-formed tables; totality "
                     "of the real code is established only by the differential run")


def replay_history(c0):
    import dsched
    impl()
    if "history" in c0:
        cs = c0["history"]
        jobs = [(scenario_sequence, ([c],), dict(strategy="fifo")) for c in cs] + [(scenario_sequence, (cs,), dict(strategy="fifo"))]
        res = dsched.run_forked(jobs, nproc=8)
        alone = [r["obs"][0] if r.get("status") == "ok" else repr(r)[:200] for r in res[:-1]]
        seq = res[-1]["obs"] if res[-1].get("status") == "ok" else [repr(res[-1])[:300]] * len(cs)
        bad = 0
        for c, a, g in zip(cs, alone, seq):
            print("%s(%r, %r)%s\n   in the sequence: %s\n   alone, fresh  : %s%s" % (
                c["op"], c["s"], c["d"], " via parser %s" % c["iface"] if c["iface"] else "", g, a,
                "" if a == g else "   <-- DIFFERS"))
            bad += a != g
        print("oracle:", "the outcome of a call depends on the calls made before it" if bad else "every call gives what it gives alone")
        return 1 if bad else 0
    tc = c0["threads"]
    flat = [c for cs in tc for c in cs]
    jobs = [(scenario_sequence, ([c],), dict(strategy="fifo")) for c in flat]
    jobs.append((scenario_threads, (tc,), dict(strategy="replay", schedule=list(c0.get("schedule") or []))))
    res = dsched.run_forked(jobs, nproc=8)
    alone = iter([r["obs"][0] if r.get("status") == "ok" else repr(r)[:200] for r in res[:-1]])
    got = res[-1].get("obs") if res[-1].get("status") == "ok" else None
    bad = 0
    for i, cs in enumerate(tc):
        for j, c in enumerate(cs):
            a = next(alone)
            g = got[i][j] if got else repr(res[-1])[:300]
            print("thread %d: create_transport(%r, %r)\n   under the recorded schedule: %s\n   alone, fresh               : %s%s" % (
                i, c["s"], c["d"], g, a, "" if a == g else "   <-- DIFFERS"))
            bad += a != g
    print("oracle:", "concurrent calls interfere" if bad else "every call gives what it gives alone")
    return 1 if bad else 0


def replay(rep):
    c0 = rep["case"]
    if "history" in c0 or "threads" in c0:
        return replay_history(c0)
    if "descriptor_codepoints" not in c0:
        print("replay file carries no descriptor (broken tie / proof obligation):", rep.get("what"))
        return 1
    s = "".join(chr(x) for x in c0["descriptor_codepoints"])
    d = None if c0["defaults"] is None else {k: v for k, v in c0["defaults"]}
    c = {"mode": c0["mode"], "s": s, "d": d, "kind": "replay", "iface": "replay"}
    ex = c0.get("expect")
    if ex:
        def one(e):
            return ("err",) if e[0] == "err" else ("ok", e[1], [tuple(x) for x in e[2]])
        c["expect"] = ("any", [one(e) for e in ex[1]]) if ex[0] == "any" else one(ex)
        c["open"] = c0.get("open") or []
        c["iface"] = (c0.get("kind") or "replay")
        print("demanded by construction:", c["expect"])
    if c0["mode"] == "parse":
        t = c0["table"]
        c["table"] = (t[0], t[1]) if t[0] == "real" else ("syn", t[1], [tuple(x) for x in t[2]], [tuple(x) for x in t[3]])
    o = run_impl(c)
    print("descriptor:", repr(s), "defaults:", d)
    print("implementation:", o)
    r = oracle(c, o)
    print("oracle:", r[1] if r else "no objection (totality / no-device hold on this input)")
    try:
        ck = common.Check("C14")
        t_c14_tables.run(common.REPO, GEN, with_proofs=True)
        ok, log = common.build_vo([os.path.join(common.COQ, "theories", THEORY, f) for f in ("Model.v", "Proofs.v", "Corr.v")])
        common.sh(["coqc", "-Q", "theories", "QV", "-Q", "gen", "QVgen", GEN], cwd=common.COQ, env=ck.coq_env())
        c["obs"] = o
        flat = coq_lists(ck, [[qcase_term(c)]])
        qs = set(unflatten(flat[0])) | {(3, LOCALHOST_IP)}
        c["ans"] = {q: answer(*q) for q in qs}
        print("model:", ck.model_eval(CORR, "model_out entries %s" % case_term(c))[-600:])
        agree = ck.model_eval(CORR, "check_case entries %s" % case_term(c))
        print("agree:", "true" in agree.split(":")[0])
        ck.clean_cases()
    except Exception as e:  # noqa
        print("model side could not be evaluated:", e)
    return 1 if r else 0
