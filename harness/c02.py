"""C02 — a proxy call behaves like a direct call, locally and across contexts.

Part A (H1, tie of the Coq model theories/C02): one hop through two real _PeerTcpConnection objects
(send_message on the sender, _process_message on the receiver) with names drawn from a small pool,
including forged source / destination contexts; the address rewriting must be exactly [hop].
Part B (H3, value fidelity — assumed law, tested not proved): generated argument tuples, keyword
dictionaries, return values and raised exceptions are pushed through a direct call, a local proxy and
a remote proxy (real pickle over the fake network) and must come back with the same type and value.
Part C (H3, correlation): several concurrent callers with distinguishable arguments under random
schedules, blocking and non-blocking: each receives the outcome of its own invocation.
"""
import collections
import enum
import logging
import math
import pickle
import threading as real_threading

import dsched
from common import clist, cnat, copt

THEORY = "C02"

Point = collections.namedtuple("Point", "x y label")


class Colour(enum.Enum):
    RED = 1
    GREEN = "g"


# ----------------------------------------------------------------------------------------------
# Part A
# ----------------------------------------------------------------------------------------------

class _Sock:
    def __init__(self):
        self.sent = bytearray()

    def getsockname(self):
        return ("127.0.0.1", 1)

    def getpeername(self):
        return ("127.0.0.1", 2)

    def sendall(self, b):
        self.sent.extend(b)

    def fileno(self):
        return 7

    def close(self):
        pass


class _Router:
    def __init__(self, name):
        self.context_name = name
        self.delivered = []

    def deliver_message(self, m):
        self.delivered.append(m)


def hop_impl(sname, rname, alias_r, alias_s, sc, so, dc, do, payload):
    import qmi.core.messaging as M
    import qmi.core.rpc as R
    from qmi.core.exceptions import QMI_MessageDeliveryException
    A = M.QMI_MessageHandlerAddress
    rs, rr = _Router(sname), _Router(rname)
    cs = M._PeerTcpConnection(rs, _Sock(), alias_r, False)
    cr = M._PeerTcpConnection(rr, _Sock(), alias_s, True)
    cs.peer_context_name = rname
    cr.peer_context_name = sname
    msg = R.QMI_MethodRpcRequestMessage(A(sc, so), A(dc, do), payload["name"], payload["args"], payload["kwargs"], payload["token"])
    rid = msg.request_id
    try:
        cs.send_message(msg)
    except AssertionError:
        return None, "send-refused"
    data = bytes(cs._sock.sent)
    assert data[0:1] == b"P" and int.from_bytes(data[1:9], "little") == len(data) - 9
    try:
        cr._process_message(bytearray(data[9:]))
    except QMI_MessageDeliveryException:
        return None, "recv-refused"
    except Exception as e:  # noqa
        return ("crash", type(e).__name__, "", "", False), "crash"
    if len(rr.delivered) != 1:
        return None, "not-delivered"
    m = rr.delivered[0]
    same = (type(m) is type(msg) and m.method_name == payload["name"] and m.method_args == payload["args"]
            and m.method_kwargs == payload["kwargs"] and m.lock_token == payload["token"] and m.request_id == rid)
    # the sender's own message object must not have been modified either (send_message works on a copy)
    same = same and msg.destination_address == A(dc, do) and msg.source_address == A(sc, so)
    return (m.source_address.context_id, m.source_address.object_id, m.destination_address.context_id,
            m.destination_address.object_id, same), "ok"


def gen_hops(ck, n):
    from qmi.core.rpc import QMI_LockTokenDescriptor as LockTok
    rng = ck.rng
    ctxs = ["srv", "cl", "$client_1", "other", "srv2"]
    objs = ["obj", "$future_1", "$future_22", "instr"]
    out = []
    for _ in range(n):
        sname, rname = rng.sample(ctxs, 2)
        alias_r = rname if rng.random() < 0.7 else rng.choice(ctxs)
        alias_s = rng.choice(["$client_1", sname, "other"])
        sc = sname if rng.random() < 0.85 else rng.choice(ctxs)
        dc = alias_r if rng.random() < 0.85 else rng.choice(ctxs)
        payload = {"name": rng.choice(["m", "get_idn", "x" * 40]), "args": tuple(rng.randint(0, 9) for _ in range(rng.randint(0, 3))),
                   "kwargs": {"k%d" % i: "v" for i in range(rng.randint(0, 2))},
                   "token": None if rng.random() < 0.5 else LockTok(rng.choice(ctxs), "$lock_1")}
        out.append((sname, rname, alias_r, alias_s, sc, rng.choice(objs), dc, rng.choice(objs), payload))
    return out


# ----------------------------------------------------------------------------------------------
# Part B / C
# ----------------------------------------------------------------------------------------------

def make_echo():
    from qmi.core.rpc import QMI_RpcObject, rpc_method

    class Echo(QMI_RpcObject):
        @rpc_method
        def echo(self, *args, **kwargs):
            return (args, kwargs)

        @rpc_method
        def ret(self, x):
            return x

        @rpc_method
        def raise_(self, exc):
            raise exc

        @rpc_method
        def special(self, a, lock_token=None, timeout=3):
            # parameter names that also exist in the proxy machinery, used as ordinary arguments
            return (a, lock_token, timeout)
    return Echo


def same(a, b):
    import numpy as np
    if type(a) is not type(b):
        return False
    if isinstance(a, float):
        return (math.isnan(a) and math.isnan(b)) or a == b
    if isinstance(a, complex):
        return same(a.real, b.real) and same(a.imag, b.imag)
    if isinstance(a, np.ndarray):
        return a.dtype == b.dtype and a.shape == b.shape and bool(np.array_equal(a, b, equal_nan=a.dtype.kind in "fc"))
    if isinstance(a, np.generic):
        return a.dtype == b.dtype and (bool(a == b) or (a != a and b != b))
    if isinstance(a, BaseException):
        return same(a.args, b.args)
    if isinstance(a, (list, tuple)):
        return len(a) == len(b) and all(same(x, y) for x, y in zip(a, b))
    if isinstance(a, dict):
        return list(a.keys()) == list(b.keys()) and all(same(a[k], b[k]) for k in a)
    if isinstance(a, (set, frozenset)):
        return a == b
    return a == b


def gen_value(rng, depth=0):
    import numpy as np
    from qmi.core.exceptions import QMI_TimeoutException, QMI_InstrumentException
    k = rng.randint(0, 17 if depth < 3 else 11)
    if k == 0:
        return rng.choice([0, 1, -1, 2 ** 63, -2 ** 64, 10 ** 30, rng.randint(-10 ** 6, 10 ** 6)])
    if k == 1:
        return rng.choice([0.0, -0.0, 1.5, float("inf"), float("-inf"), float("nan"), 1e-320, rng.random()])
    if k == 2:
        return rng.choice([True, False, None])
    if k == 3:
        return rng.choice(["", "a", "x" * 1000, "é中\U0001F600", "line\nbreak\x00nul", "#:=[]"])
    if k == 4:
        return rng.choice([b"", bytes(range(256)), b"\x00\xff", bytearray(b"ab")])
    if k == 5:
        return complex(rng.random(), -rng.random())
    if k == 6:
        return Point(rng.randint(0, 5), rng.random(), "p")
    if k == 7:
        return rng.choice(list(Colour))
    if k == 8:
        return rng.choice([np.float64(1.5), np.int32(-7), np.uint8(255), np.bool_(True), np.float32("nan")])
    if k == 9:
        dt = rng.choice(["float64", "int64", "int32", "float32", "uint8", "bool", "complex128"])
        shape = rng.choice([(0,), (3,), (2, 3), (2, 1, 2), ()])
        return (np.arange(int(np.prod(shape)) if shape else 1).reshape(shape) % 2 if dt == "bool"
                else np.arange(int(np.prod(shape)) if shape else 1).reshape(shape) * 1.5).astype(dt)
    if k == 10:
        return rng.choice([QMI_TimeoutException("t", 3), QMI_InstrumentException("bad reply"), ValueError(1, "two"), KeyError("k")])
    if k == 11:
        return frozenset(rng.sample(range(10), rng.randint(0, 4)))
    if k <= 13:
        return [gen_value(rng, depth + 1) for _ in range(rng.randint(0, 4))]
    if k <= 15:
        return tuple(gen_value(rng, depth + 1) for _ in range(rng.randint(0, 4)))
    if k == 16:
        return {rng.choice(["a", "b", 1, (1, 2), None]): gen_value(rng, depth + 1) for _ in range(rng.randint(0, 3))}
    return set(rng.sample(range(20), rng.randint(0, 4)))


def scenario_values(s, seed, n):
    """direct vs local proxy vs remote proxy on n generated values (+ exceptions, kwargs)."""
    import random
    logging.disable(logging.CRITICAL)
    from qmi.core.context import QMI_Context
    from qmi.core.config_defs import CfgQmi, CfgContext
    rng = random.Random(seed)
    Echo = make_echo()
    cfg = CfgQmi(contexts={"srv": CfgContext(tcp_server_port=5001)})
    srv = QMI_Context("srv", cfg)
    srv.start()
    lp = srv.make_rpc_object("echo", Echo)
    cl = QMI_Context("cl", cfg)
    cl.start()
    cl.connect_to_peer("srv", "127.0.0.1:5001")
    rp = cl.get_rpc_object_by_name("srv.echo")
    bad = []
    kinds = collections.Counter()
    for i in range(n):
        mode = rng.choice(["ret", "echo", "raise", "special"])
        kinds[mode] += 1
        if mode == "ret":
            v = gen_value(rng)
            kinds["type:" + type(v).__name__] += 1
            direct = ("value", Echo.ret(None, v))
            calls = [lambda p: p.ret(v)]
        elif mode == "echo":
            args = tuple(gen_value(rng) for _ in range(rng.randint(0, 3)))
            kwargs = {rng.choice(["a", "b", "rpc", "x_y"]): gen_value(rng) for _ in range(rng.randint(0, 3))}
            direct = ("value", Echo.echo(None, *args, **kwargs))
            calls = [lambda p: p.echo(*args, **kwargs)]
        elif mode == "special":
            a, lt, to = gen_value(rng), rng.choice([None, "tok", 5]), rng.choice([0, 1.5, None])
            direct = ("value", Echo.special(None, a, lock_token=lt, timeout=to))
            calls = [lambda p: p.special(a, lock_token=lt, timeout=to)]
        else:
            from qmi.core.exceptions import QMI_TimeoutException, QMI_UsageException
            exc = rng.choice([ValueError("v", 3), QMI_TimeoutException("tmo"), QMI_UsageException("u"), KeyError(("k", 1)),
                              ZeroDivisionError(), RuntimeError(gen_value(rng, 3))])
            direct = ("exception", exc)
            calls = [lambda p: p.raise_(exc)]
        for place, proxy in (("local", lp), ("remote", rp)):
            for nb in (False, True):
                try:
                    if nb:
                        # non-blocking form + wait
                        res = ("value", calls[0](proxy.rpc_nonblocking).wait())
                    else:
                        res = ("value", calls[0](proxy))
                except BaseException as e:  # noqa
                    res = ("exception", e)
                if res[0] != direct[0] or not same(res[1], direct[1]):
                    try:
                        pickle.dumps(direct[1])
                        picklable = True
                    except Exception:  # noqa
                        picklable = False
                    if picklable:
                        bad.append({"mode": mode, "place": place, "nonblocking": nb, "index": i,
                                    "direct": repr(direct)[:200], "proxy": repr(res)[:200]})
    cl.stop()
    srv.stop()
    return {"bad": bad, "kinds": dict(kinds), "n": n}


def make_versioned(methods, const):
    """A class statement executed more than once in a process (a class factory, a reloaded module): every result has the
    SAME module and qualified name but its own methods and constants."""
    from qmi.core.rpc import QMI_RpcObject, rpc_method
    ns = {"CONST": const}
    for m in methods:
        def f(self, x=0, _m=m, _c=const):
            return (_m, _c, x)
        f.__name__ = m
        f.__qualname__ = "make_versioned.<locals>.Dev.%s" % m
        ns[m] = rpc_method(f)
    cls = type("Dev", (QMI_RpcObject,), ns)
    cls.__qualname__ = "make_versioned.<locals>.Dev"
    return cls


def scenario_redefined(s, seed):
    """direct vs proxy when classes of one qualified name but different interfaces live in one process, one after
    the other or side by side (multi-step history)."""
    import random
    logging.disable(logging.CRITICAL)
    from qmi.core.context import QMI_Context
    from qmi.core.config_defs import CfgQmi, CfgContext
    rng = random.Random(seed)
    cfg = CfgQmi(contexts={"srv": CfgContext(tcp_server_port=5001)})
    srv = QMI_Context("srv", cfg)
    srv.start()
    cl = QMI_Context("cl", cfg)
    cl.start()
    cl.connect_to_peer("srv", "127.0.0.1:5001")
    pool = ["alpha", "beta", "gamma", "delta"]
    bad, n = [], 0
    for ver in range(rng.randint(2, 4)):
        methods = sorted(rng.sample(pool, rng.randint(1, 3)))
        cls = make_versioned(methods, ver + 1)
        name = "dev%d" % ver
        lp = srv.make_rpc_object(name, cls)
        rp = cl.get_rpc_object_by_name("srv." + name)
        plain = cls.__new__(cls)
        for place, proxy in (("local", lp), ("remote", rp)):
            for m in pool:
                n += 1

                def outcome(obj):
                    try:
                        a = getattr(obj, m)
                        return ("value", a(7) if m != "CONST" else a)
                    except AttributeError:
                        return ("no-such-attribute",)
                    except BaseException as e:  # noqa
                        return ("exception", type(e).__name__)
                d, r = outcome(plain), outcome(proxy)
                if d != r:
                    bad.append({"version": ver, "methods": methods, "place": place, "name": m, "direct": repr(d), "proxy": repr(r)})
        if rng.random() < 0.5:
            srv.remove_rpc_object(lp)
    cl.stop()
    srv.stop()
    return {"bad": bad, "n": n}


def scenario_concurrent(s, seed, nthreads, ncalls):
    """concurrent callers with distinguishable arguments: each gets its own outcome."""
    import random
    logging.disable(logging.CRITICAL)
    from qmi.core.context import QMI_Context
    from qmi.core.config_defs import CfgQmi, CfgContext
    rng = random.Random(seed)
    Echo = make_echo()
    cfg = CfgQmi(contexts={"srv": CfgContext(tcp_server_port=5001)})
    srv = QMI_Context("srv", cfg)
    srv.start()
    lp = srv.make_rpc_object("echo", Echo)
    cl = QMI_Context("cl", cfg)
    cl.start()
    cl.connect_to_peer("srv", "127.0.0.1:5001")
    rp = cl.get_rpc_object_by_name("srv.echo")
    bad = []
    plan = [(t, rng.choice(["local", "remote"]), [rng.choice(["ret", "raise", "nb"]) for _ in range(ncalls)]) for t in range(nthreads)]
    # payload sizes: requests and replies that do not fit one recv() of the connection (4096 bytes today), pipelined with
    # small ones, and occasionally a request above 1 MB
    sizes = [[rng.choice([0, 0, 700, 3000, 5000, 9000] + ([1200000] if rng.random() < 0.15 else [])) for _ in range(ncalls)]
             for _ in range(nthreads)]

    def worker(t, place, kinds):
        proxy = lp if place == "local" else rp
        for i, k in enumerate(kinds):
            tag = ("T%d" % t, i, place, bytes([65 + t]) * sizes[t][i])
            try:
                if k == "ret":
                    got = ("value", proxy.ret(tag))
                elif k == "nb":
                    f = proxy.rpc_nonblocking.echo(tag, who=t)
                    dsched.FAKE_TIME.sleep(0)
                    got = ("value", f.wait())
                    if got[1] == ((tag,), {"who": t}):
                        got = ("value", tag)
                else:
                    proxy.raise_(ValueError(tag))
                    got = ("value", None)
            except ValueError as e:
                got = ("exception", e.args[0] if e.args else None)
            except BaseException as e:  # noqa
                got = ("other", repr(e))
            want = ("exception", tag) if k == "raise" else ("value", tag)
            if got != want:
                bad.append({"thread": t, "call": i, "place": place, "kind": k, "want": repr(want), "got": repr(got)})
    ths = [real_threading.Thread(target=worker, args=p) for p in plan]
    for th in ths:
        th.start()
    for th in ths:
        th.join()
    cl.stop()
    srv.stop()
    return {"bad": bad, "plan": [(p[0], p[1], p[2]) for p in plan]}


def scenario_clients_come_and_go(s, seed):
    """several client contexts connect, disconnect and reconnect in a seeded order while the others keep
    calling: every caller still receives the outcome of its own invocation (and none hangs)."""
    import random
    logging.disable(logging.CRITICAL)
    from qmi.core.context import QMI_Context
    from qmi.core.config_defs import CfgQmi, CfgContext
    from qmi.core.exceptions import QMI_MessageDeliveryException
    rng = random.Random(seed)
    Echo = make_echo()
    cfg = CfgQmi(contexts={"srv": CfgContext(tcp_server_port=5001)})
    srv = QMI_Context("srv", cfg)
    srv.start()
    srv.make_rpc_object("echo", Echo)
    bad, clients, log = [], {}, []
    names = ["ca", "cb", "cc", "cd"]

    def connect(n):
        c = QMI_Context(n, cfg)
        c.start()
        c.connect_to_peer("srv", "127.0.0.1:5001")
        clients[n] = (c, c.get_rpc_object_by_name("srv.echo"))

    def call(n, k):
        tag = (n, k)
        try:
            got = clients[n][1].ret(tag)
        except BaseException as e:  # noqa
            got = ("EXC", repr(e)[:80])
        if got != tag:
            bad.append({"client": n, "call": k, "got": repr(got), "history": list(log)})
    k = 0
    for step in range(rng.randint(6, 14)):
        free = [n for n in names if n not in clients]
        acts = (["connect"] if free else []) + (["disconnect", "call", "call", "callall"] if clients else [])
        a = rng.choice(acts)
        if a == "connect":
            n = rng.choice(free)
            log.append("connect " + n)
            connect(n)
        elif a == "disconnect":
            n = rng.choice(sorted(clients))
            log.append("disconnect " + n)
            clients.pop(n)[0].stop()
        elif a == "call":
            n = rng.choice(sorted(clients))
            k += 1
            log.append("call %s %d" % (n, k))
            call(n, k)
        else:
            ths = []
            for n in sorted(clients):
                k += 1
                log.append("call* %s %d" % (n, k))
                ths.append(real_threading.Thread(target=call, args=(n, k)))
            for t in ths:
                t.start()
            for t in ths:
                t.join()
    for n in sorted(clients):
        clients[n][0].stop()
    srv.stop()
    return {"bad": bad, "log": log}


def scenario_many_pending(s, n, place):
    """very many calls outstanding on ONE object at the same time (the object is busy; n non-blocking calls are issued
    and waited for afterwards): every caller still gets the outcome of its own invocation, none is lost"""
    import dsched as _ds
    logging.disable(logging.CRITICAL)
    from qmi.core.context import QMI_Context
    from qmi.core.config_defs import CfgQmi, CfgContext
    from qmi.core.rpc import QMI_RpcObject, rpc_method

    class Busy(QMI_RpcObject):
        @rpc_method
        def hold(self, dur):
            _ds.FAKE_TIME.sleep(dur)
            return "held"

        @rpc_method
        def echo(self, x, scale=1):
            return (x, x * scale)
    cfg = CfgQmi(contexts={"srv": CfgContext(tcp_server_port=5001)})
    srv = QMI_Context("srv", cfg)
    srv.start()
    proxy = srv.make_rpc_object("busy", Busy)
    cl = None
    if place == "remote":
        cl = QMI_Context("cl", cfg)
        cl.start()
        cl.connect_to_peer("srv", "127.0.0.1:5001")
        proxy = cl.get_rpc_object_by_name("srv.busy")
    bad = []
    h = proxy.rpc_nonblocking.hold(5.0)
    futs = [proxy.rpc_nonblocking.echo(i, scale=3) for i in range(n)]
    if h.wait() != "held":
        bad.append({"call": "hold", "got": "?"})
    for i, f in enumerate(futs):
        try:
            got = f.wait(30.0)
        except BaseException as e:  # noqa
            got = ("EXC", repr(e)[:80])
        if got != (i, i * 3):
            bad.append({"call": i, "got": repr(got), "outstanding": n, "place": place})
            if len(bad) > 3:
                break
    if cl is not None:
        cl.stop()
    srv.stop()
    return {"bad": bad, "log": ["%d calls outstanding on one object (%s)" % (n, place)]}


def scenario_several_peers(s, seed):
    """one calling context connected to several server contexts (and with incoming clients of its own): while calls to
    one peer are in flight (the method is still running), OTHER connections of the calling context are closed - by
    disconnect_from_peer, by the other peer stopping, by an incoming client going away. Every caller still receives
    the outcome of its own invocation."""
    import random
    import dsched as _ds
    logging.disable(logging.CRITICAL)
    from qmi.core.context import QMI_Context
    from qmi.core.config_defs import CfgQmi, CfgContext
    from qmi.core.rpc import QMI_RpcObject, rpc_method
    rng = random.Random(seed)

    class Slow(QMI_RpcObject):
        @rpc_method
        def work(self, x, dur):
            _ds.FAKE_TIME.sleep(dur)          # the call is in flight for `dur` virtual seconds
            return ("done", x)
    cfg = CfgQmi(contexts={"sa": CfgContext(tcp_server_port=5001), "sb": CfgContext(tcp_server_port=5002),
                           "cl": CfgContext(tcp_server_port=5003)})
    ctx = {}
    for n in ("sa", "sb", "cl"):
        ctx[n] = QMI_Context(n, cfg)
        ctx[n].start()
    ctx["sa"].make_rpc_object("w", Slow)
    ctx["sb"].make_rpc_object("w", Slow)
    cl = ctx["cl"]
    cl.connect_to_peer("sa", "127.0.0.1:5001")
    cl.connect_to_peer("sb", "127.0.0.1:5002")
    pa, pb = cl.get_rpc_object_by_name("sa.w"), cl.get_rpc_object_by_name("sb.w")
    inc = QMI_Context("inc", cfg)           # an incoming client of the calling context
    inc.start()
    inc.connect_to_peer("cl", "127.0.0.1:5003")
    bad, log = [], []
    victim = rng.choice(["disconnect_sb", "stop_sb", "stop_inc", "disconnect_sb+stop_inc"])
    ncall = rng.randint(1, 3)

    def call(k, nb):
        tag = ("a", k)
        try:
            if nb:
                got = pa.rpc_nonblocking.work(tag, 2.0).wait()
            else:
                got = pa.work(tag, 2.0)
        except BaseException as e:  # noqa
            got = ("EXC", repr(e)[:100])
        if got != ("done", tag):
            bad.append({"call": k, "got": repr(got), "closed": victim})
    ths = [real_threading.Thread(target=call, args=(k, rng.random() < 0.5)) for k in range(ncall)]
    for t in ths:
        t.start()
    _ds.FAKE_TIME.sleep(rng.choice([0.5, 1.0, 1.5]))       # the calls to sa are now in flight
    log.append(victim)
    if "disconnect_sb" in victim:
        cl.disconnect_from_peer("sb")
    if victim == "stop_sb":
        ctx["sb"].stop()
    if "stop_inc" in victim:
        inc.stop()
    for t in ths:
        t.join()
    # the connection to sa still works afterwards
    try:
        after = pa.work(("a", "after"), 0.0)
    except BaseException as e:  # noqa
        after = ("EXC", repr(e)[:100])
    if after != ("done", ("a", "after")):
        bad.append({"call": "after", "got": repr(after), "closed": victim})
    for n, c in list(ctx.items()) + [("inc", inc)]:
        try:
            c.stop()
        except BaseException:  # noqa
            pass
    return {"bad": bad, "log": log}


def peers_impl(ops):
    """H1: the real _SocketManager.add_incoming_connection / remove_peer_connection on stand-in sockets."""
    import qmi.core.messaging as M

    class Loop:
        def add_reader(self, fd, cb):
            pass

        def remove_reader(self, fd):
            pass

    class R(_Router):
        def notify_peer_context_removed(self, n):
            pass

        def notify_peer_context_added(self, n):
            pass
    sm = M._SocketManager(Loop(), R("srv"))
    conns = {}
    for o in ops:
        if o[0] == "connect":
            before = set(sm._peer_context_map)
            sm.add_incoming_connection(_Sock())
            new = [a for a in sm._peer_context_map if a not in before]
            if len(new) == 1:
                conns[new[0]] = o[1]
                sm._peer_context_map[new[0]]._cid = o[1]
            else:
                # an alias was re-used: the entry of a live connection was overwritten
                for a, c in sm._peer_context_map.items():
                    if not hasattr(c, "_cid"):
                        c._cid = o[1]
        else:
            c = sm._peer_context_map.get("$client_%d" % o[1])
            if c is not None:
                sm.remove_peer_connection(c)
                c.close()
    return [(int(a.split("_")[1]), getattr(c, "_cid", -1)) for a, c in sm._peer_context_map.items()], len(sm._socket_wrappers)


def run(ck):
    ck.level = "proof"
    ck.theory_dir = THEORY
    ck.build_theory(THEORY)
    ck.trusted = [
        "Coq 8.16.1 kernel + vm_compute",
        "model theories/C02/Model.v (address rewriting of one hop) tied by part A; shared RPC model theories/C01 tied by the C01/C03 checks",
        "CPython pickle: value fidelity of a pickle round trip is ASSUMED (hypothesis pickle_roundtrip) and only tested (part B)",
        "dsched + fake network for the remote placement (real pickle, real framing)",
    ]
    ck.assumptions = ["claim is partial: proof for routing / correlation / field preservation, differential testing for value fidelity",
                      "rpc_timeout is a keyword reserved by the blocking proxy (documented); it is not forwarded"]
    import qmi.core.context, qmi.core.rpc, qmi.core.messaging, qmi.core.pubsub, qmi.core.task, qmi.core.config_defs  # noqa
    # ---- part A
    intern = {}

    def I(x):
        return intern.setdefault(x, len(intern) + 1)
    terms, metas = [], []
    for h in gen_hops(ck, 1500 if ck.tier == "quick" else 20000):
        sname, rname, alias_r, alias_s, sc, so, dc, do, payload = h
        res, why = hop_impl(*h)
        ck.note_case(("hop", h[:8], repr(payload)), True)
        ck.count("hop:" + why)
        pid = 1
        obs = None
        if res is not None:
            obs = "(%s, %s, %s, %s, %s)" % (cnat(I(res[0])), cnat(I(res[1])), cnat(I(res[2])), cnat(I(res[3])), cnat(pid if res[4] else pid + 1000))
            if not res[4]:
                ck.report("oracle:payload-changed", "a hop changed the payload or the sender's message", {"hop": h[:8], "payload": repr(payload)})
        terms.append("(%s, %s, %s, %s, (%s, %s, %s, %s, %s), %s)" % (
            cnat(I(sname)), cnat(I(rname)), cnat(I(alias_r)), cnat(I(alias_s)),
            cnat(I(sc)), cnat(I(so)), cnat(I(dc)), cnat(I(do)), cnat(pid), ("(Some %s)" % obs) if obs else "None"))
        metas.append((h[:8], repr(payload), res, why))
    ck.sample({"hop": metas[0][0], "result": repr(metas[0][2])}, 1)
    bad = ck.run_model("C02.Corr", "check_case", terms, "case", shard=500)
    ck.coverage["correspondence_disagreements"] = len(bad)
    for i in bad[:3]:
        ck.report("corr:hop", "address rewriting of a real hop differs from the Coq model: %s" % ck.model_eval("C02.Corr", "model_out %s" % terms[i])[:200],
                  {"hop": metas[i][0], "payload": metas[i][1], "impl": repr(metas[i][2]), "why": metas[i][3],
                   "broken": "correspondence C02.Corr.check_case"}, found_input=False)
    # ---- part A2: table of incoming peers
    pterms, pmetas = [], []
    for i in range(300 if ck.tier == "quick" else 5000):
        ops, live, n, cid = [], [], 0, 100
        for _ in range(ck.rng.randint(1, 12)):
            if live and ck.rng.random() < 0.45:
                a = ck.rng.choice(live + [ck.rng.randint(1, n + 1)])
                ops.append(("disconnect", a))
                if a in live:
                    live.remove(a)
            else:
                n += 1
                cid += 1
                live.append(n)
                ops.append(("connect", cid))
        table, nwrap = peers_impl(ops)
        ck.note_case(("peers", tuple(ops)), True)
        ck.count("peers:ops=%d" % min(len(ops), 12))
        live_conns = [c for o, c in [(o[0], o[1]) for o in ops] if o == "connect"]
        if len({a for a, _ in table}) != len(table) or nwrap != len(table):
            ck.report("oracle:peers:table", "peer table inconsistent after %r: %r (%d socket wrappers)" % (ops, table, nwrap), {"peers_ops": ops})
        pterms.append("(%s, %s)" % (clist(["PConnect %s" % cnat(o[1]) if o[0] == "connect" else "PDisconnect %s" % cnat(o[1]) for o in ops]),
                                     clist(["(%s, %s)" % (cnat(a), cnat(c)) for a, c in table])))
        pmetas.append((ops, table))
    badp = ck.run_model("C02.Corr", "check_pcase", pterms, "pcase", shard=400)
    for i in badp[:2]:
        ck.report("corr:peers", "the real table of incoming peers differs from the Coq model after %r: %r" % pmetas[i],
                  {"peers_ops": pmetas[i][0], "table": pmetas[i][1], "broken": "correspondence C02.Corr.check_pcase"}, found_input=True)
    # ---- part B
    nb, per = (16, 40) if ck.tier == "quick" else (160, 60)
    jobs = [(scenario_values, (ck.seed * 7919 + i, per), dict(strategy="fifo")) for i in range(nb)]
    for i, res in enumerate(dsched.run_forked(jobs, nproc=16, wall_timeout=120)):
        ck.note_case(("values", ck.seed, i), True)
        if res["status"] != "ok":
            ck.report("oracle:values:%s" % res["status"], "value differential run failed: %s" % str(res.get("trace") or res.get("info"))[:400],
                      {"seed": ck.seed * 7919 + i, "n": per})
            continue
        for k, v in res["obs"]["kinds"].items():
            ck.count("val:" + k, v)
        ck.evaluations += res["obs"]["n"] * 4
        for b in res["obs"]["bad"][:3]:
            ck.report("oracle:value:%s:%s" % (b["mode"], b["place"]), "proxy call differs from the direct call: direct %s, proxy %s" % (b["direct"], b["proxy"]),
                      {"seed": ck.seed * 7919 + i, "n": per, "detail": b})
    # ---- part B2: classes of one qualified name with different interfaces in one process
    jobs = [(scenario_redefined, (ck.seed * 613 + i,), dict(strategy="fifo")) for i in range(8 if ck.tier == "quick" else 80)]
    for i, res in enumerate(dsched.run_forked(jobs, nproc=16, wall_timeout=120)):
        ck.note_case(("redefined", ck.seed, i), True)
        ck.count("redefined:" + res["status"])
        if res["status"] != "ok":
            ck.report("oracle:redefined:%s" % res["status"], "redefined-class differential run failed: %s" % str(res.get("trace") or res.get("info"))[:400],
                      {"redefined": True, "seed": ck.seed * 613 + i})
            continue
        ck.evaluations += res["obs"]["n"]
        for b in res["obs"]["bad"][:2]:
            ck.report("oracle:redefined:%s" % b["place"],
                      "proxy differs from the direct object for a class whose qualified name was used before with another "
                      "interface: attribute %r of version %d (methods %r): direct %s, %s proxy %s"
                      % (b["name"], b["version"], b["methods"], b["direct"], b["place"], b["proxy"]),
                      {"redefined": True, "seed": ck.seed * 613 + i, "detail": b})
    # ---- part C
    ns = 60 if ck.tier == "quick" else 1500
    jobs = [(scenario_concurrent, (ck.seed * 31 + i, 2 + i % 5, 3), dict(strategy="random" if i % 2 else "pct", seed=ck.seed * 977 + i))
            for i in range(ns)]
    for i, res in enumerate(dsched.run_forked(jobs, nproc=16, wall_timeout=120)):
        ck.note_case(("conc", ck.seed, i, tuple(res.get("choices") or ())), True)
        ck.count("conc:" + res["status"])
        if res["status"] != "ok":
            ck.report("oracle:concurrent:%s" % res["status"], "concurrent callers: %s" % str(res.get("trace") or res.get("info"))[:400],
                      {"seed": ck.seed * 31 + i, "threads": 2 + i % 5, "schedule": res.get("choices")})
            continue
        for b in res["obs"]["bad"][:2]:
            ck.report("oracle:correlation", "a caller received an outcome that is not the one of its own invocation: %s" % b,
                      {"seed": ck.seed * 31 + i, "threads": 2 + i % 5, "schedule": res.get("choices"), "detail": b})
        if i < 2:
            ck.sample({"concurrent_plan": res["obs"]["plan"]}, 3)
    # ---- part D: clients come and go
    nd = 60 if ck.tier == "quick" else 1500
    jobs = [(scenario_clients_come_and_go, (ck.seed * 53 + i,), dict(strategy="random" if i % 2 else "fifo", seed=ck.seed * 59 + i)) for i in range(nd)]
    for i, res in enumerate(dsched.run_forked(jobs, nproc=16, wall_timeout=120)):
        ck.note_case(("comego", ck.seed, i, tuple(res.get("choices") or ())), True)
        ck.count("comego:" + res["status"])
        if res["status"] != "ok":
            ck.report("oracle:comego:%s" % res["status"], "clients connecting / disconnecting while others call: %s" % str(res.get("trace") or res.get("info"))[:400],
                      {"comego_seed": ck.seed * 53 + i, "schedule": res.get("choices"), "strategy": "random" if i % 2 else "fifo"})
            continue
        for b in res["obs"]["bad"][:1]:
            ck.report("oracle:comego:wrong-outcome", "after clients connected / disconnected a caller did not get the outcome of its own invocation: %s" % b,
                      {"comego_seed": ck.seed * 53 + i, "schedule": res.get("choices"), "strategy": "random" if i % 2 else "fifo", "detail": b})
    # ---- part E: several connections of the calling context; others close while calls are in flight
    ne = 24 if ck.tier == "quick" else 600
    jobs = [(scenario_several_peers, (ck.seed * 61 + i,), dict(strategy="random" if i % 2 else "fifo", seed=ck.seed * 67 + i)) for i in range(ne)]
    for i, res in enumerate(dsched.run_forked(jobs, nproc=16, wall_timeout=120)):
        ck.note_case(("peers", ck.seed, i, tuple(res.get("choices") or ())), True)
        ck.count("several-peers:" + res["status"])
        if res["status"] != "ok":
            ck.report("oracle:several-peers:%s" % res["status"], "another connection closes while calls are in flight: %s" % str(res.get("trace") or res.get("info"))[:400],
                      {"peers_seed": ck.seed * 61 + i, "schedule": res.get("choices")})
            continue
        for b in res["obs"]["bad"][:1]:
            ck.report("oracle:several-peers:wrong-outcome", "while ANOTHER connection of the calling context was closed a caller did not get the "
                      "outcome of its own invocation: %s" % b, {"peers_seed": ck.seed * 61 + i, "schedule": res.get("choices"), "detail": b})
    # ---- part F: very many calls outstanding on one object (no bound on the number of concurrent callers)
    jobs = [(scenario_many_pending, (n, place), dict(strategy="fifo", seed=1))
            for n, place in ((1100, "local"), (2300, "local"), (1100, "remote"))]
    for (sc, args, kw), res in zip(jobs, dsched.run_forked(jobs, nproc=3, wall_timeout=240)):
        ck.note_case(("many-pending", args), True)
        ck.count("many-pending:" + res["status"])
        if res["status"] != "ok":
            ck.report("oracle:many-pending:%s" % res["status"], "%d calls outstanding on one object (%s): %s" % (args[0], args[1], str(res.get("trace") or res.get("info"))[:300]),
                      {"many_pending": list(args)})
            continue
        for b in res["obs"]["bad"][:1]:
            ck.report("oracle:many-pending:wrong-outcome", "with %d calls outstanding on one object a caller did not get the outcome of its own invocation: %s" % (args[0], b),
                      {"many_pending": list(args), "detail": b})
    return ck.finish("A: random hops incl. forged names (each distinct); B: generated values through direct/local/remote x blocking/non-blocking; "
                     "C: concurrent callers under seeded schedules")


def replay(rep):
    if rep.get("case", {}).get("redefined"):
        import dsched
        import qmi.core.context, qmi.core.rpc, qmi.core.messaging, qmi.core.pubsub, qmi.core.task, qmi.core.config_defs  # noqa
        res = dsched.run_forked([(scenario_redefined, (rep["case"]["seed"],), dict(strategy="fifo"))], nproc=1)[0]
        print(res["status"], (res.get("obs") or {}).get("bad"))
        return 1 if (res["status"] != "ok" or res["obs"]["bad"]) else 0
    c = rep["case"]
    import qmi.core.context, qmi.core.rpc, qmi.core.messaging, qmi.core.pubsub, qmi.core.task, qmi.core.config_defs  # noqa
    if "hop" in c:
        print("hop replay needs the payload; key:", c)
        return 1
    if "many_pending" in c:
        res = dsched.run_forked([(scenario_many_pending, tuple(c["many_pending"]), dict(strategy="fifo", seed=1))], nproc=1, wall_timeout=240)[0]
        print(res["status"], (res.get("obs") or {}).get("bad"))
        return 1 if (res["status"] != "ok" or res["obs"]["bad"]) else 0
    if "peers_seed" in c:
        res = dsched.run_forked([(scenario_several_peers, (c["peers_seed"],), dict(strategy="replay", schedule=list(c.get("schedule") or [])))], nproc=1)[0]
        print(res["status"], (res.get("obs") or {}).get("bad"))
        return 1 if (res["status"] != "ok" or res["obs"]["bad"]) else 0
    if "comego_seed" in c:
        res = dsched.run_forked([(scenario_clients_come_and_go, (c["comego_seed"],), dict(strategy="replay", schedule=list(c.get("schedule") or [])))], nproc=1)[0]
        print(res["status"], (res.get("obs") or {}).get("bad"))
        return 1 if (res["status"] != "ok" or res["obs"]["bad"]) else 0
    if "threads" in c:
        res = dsched.run_forked([(scenario_concurrent, (c["seed"], c["threads"], 3), dict(strategy="replay", schedule=list(c.get("schedule") or [])))], nproc=1)[0]
    else:
        res = dsched.run_forked([(scenario_values, (c["seed"], c["n"]), dict(strategy="fifo"))], nproc=1)[0]
    print(res["status"], (res.get("obs") or {}).get("bad"))
    return 1 if (res["status"] != "ok" or res["obs"]["bad"]) else 0
